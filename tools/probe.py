#!/venv/bin/python
"""Developer tool: apply one patch (git-diff format, paths relative to the repository root) to a scratch copy of
/repo/demeter and run checks on it in parallel.  usage: probe.py <patch.diff> [Cxx,Cyy ...] [-v]"""
import json, os, shutil, subprocess, sys, tempfile
from concurrent.futures import ThreadPoolExecutor
VERIF = os.path.dirname(os.path.dirname(os.path.abspath(__file__)))
patch = os.path.abspath(sys.argv[1])
verbose = "-v" in sys.argv
sel = [x for x in sys.argv[2:] if x != "-v"]
ALL = [c["property_id"] for c in json.load(open(os.path.join(VERIF, "MANIFEST.json")))["checks"]]
checks = sel[0].split(",") if sel else ALL
d = tempfile.mkdtemp(prefix="probe_", dir="/tmp")
try:
    shutil.copytree("/repo/demeter", os.path.join(d, "demeter"), ignore=shutil.ignore_patterns("__pycache__"))
    r = subprocess.run(["patch", "-p1", "-s", "-f", "-i", patch], cwd=d, capture_output=True, text=True)
    if r.returncode != 0:
        print("CONFLICT", r.stdout, r.stderr)
        sys.exit(3)

    def one(c):
        o = subprocess.run([os.path.join(VERIF, "check"), c, "--no-evidence", "--root", d], capture_output=True, text=True, cwd=VERIF)
        return c, o.returncode, o.stdout

    with ThreadPoolExecutor(16) as ex:
        rows = list(ex.map(one, checks))
    for c, rc, out in rows:
        if rc == 0:
            continue
        lines = [l for l in out.splitlines() if l.startswith("  demeter/") or l.startswith("ANALYSIS-ERROR")]
        print(c, "exit", rc)
        for l in (lines if verbose else lines[:2]):
            print("    ", l[:300])
    print("hits:", ",".join(c for c, rc, _ in rows if rc == 1) or "-", "| refused:", ",".join(c for c, rc, _ in rows if rc == 2) or "-")
finally:
    shutil.rmtree(d, ignore_errors=True)
