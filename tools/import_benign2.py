#!/venv/bin/python
"""Developer tool (round 2 of behaviour-preserving refactorings): confirm each refactoring written by an independent
sub-agent under <src>/<n>/r<k>/ (patch.diff, meta.json) applies to /repo HEAD in a scratch worktree and keeps the pinned
baseline suite passing, then keep it as /verif/benign/<n>/r<k>/.  usage: import_benign2.py [--src /tmp/ben2/out] [--only 13]"""
import argparse, glob, json, os, shutil, subprocess
from concurrent.futures import ThreadPoolExecutor
VERIF = "/verif"
want = set(json.load(open("/root/.vp/BASELINE.json"))["stable_pass"])
ap = argparse.ArgumentParser()
ap.add_argument("--src", default="/tmp/ben2/out")
ap.add_argument("--only", default="")
ap.add_argument("--jobs", type=int, default=6)
a = ap.parse_args()


def run(cmd, cwd, timeout=900):
    return subprocess.run(cmd, cwd=cwd, capture_output=True, text=True, timeout=timeout, env=dict(os.environ, PYTHONDONTWRITEBYTECODE="1"))


def work(src):
    n, rk = src.rstrip("/").split("/")[-2:]
    dst = os.path.join(VERIF, "benign", n, rk)
    out = {"id": f"{n}/{rk}"}
    if os.path.exists(os.path.join(dst, "patch.diff")):
        out["skipped"] = True
        return out
    patch = os.path.join(src, "patch.diff")
    if not os.path.exists(patch) or not os.path.exists(os.path.join(src, "meta.json")):
        out["error"] = "files missing"
        return out
    wt = f"/tmp/valb_{n}_{rk}"
    subprocess.run(["git", "-C", "/repo", "worktree", "remove", "--force", wt], capture_output=True)
    shutil.rmtree(wt, ignore_errors=True)
    run(["git", "-C", "/repo", "worktree", "add", "-q", "--detach", wt, "HEAD"], "/")
    try:
        r = run(["git", "apply", patch], wt)
        if r.returncode != 0:
            out["error"] = "apply failed: " + r.stderr[:200]
            return out
        files = run(["git", "diff", "--name-only"], wt).stdout.split()
        out["files"] = files
        import xml.etree.ElementTree as ET
        xml = os.path.join(wt, ".r.xml")
        run(["/venv/bin/python", "-m", "pytest", "-q", "-p", "no:cacheprovider", "--timeout=900", "--continue-on-collection-errors", f"--junitxml={xml}"], wt)
        passed = set()
        for tc in ET.parse(xml).getroot().iter("testcase"):
            if not any(ch.tag in ("failure", "error", "skipped") for ch in tc):
                passed.add(f"{tc.get('classname')}::{tc.get('name')}")
        miss = sorted(want - passed)
        out["baseline_missing"] = miss
        out["valid"] = not miss and all(f.startswith("demeter/") for f in files)
        if out["valid"]:
            os.makedirs(dst, exist_ok=True)
            shutil.copy(patch, os.path.join(dst, "patch.diff"))
            meta = json.load(open(os.path.join(src, "meta.json")))
            meta["round"] = 2
            meta["confirmed"] = "applies to /repo HEAD; the 111 pinned baseline tests pass with it (tools/import_benign2.py)"
            json.dump(meta, open(os.path.join(dst, "meta.json"), "w"), indent=1)
    except Exception as e:  # noqa
        out["error"] = repr(e)[:200]
    finally:
        subprocess.run(["git", "-C", "/repo", "worktree", "remove", "--force", wt], capture_output=True)
        shutil.rmtree(wt, ignore_errors=True)
    return out


srcs = sorted(s for s in glob.glob(os.path.join(a.src, "*", "r[0-9]*")) if os.path.isdir(s))
if a.only:
    srcs = [s for s in srcs if s.split("/")[-2] in a.only.split(",")]
with ThreadPoolExecutor(a.jobs) as ex:
    rows = list(ex.map(work, srcs))
for r in rows:
    print(r["id"], "VALID" if r.get("valid") else ("SKIP" if r.get("skipped") else "INVALID"), {k: v for k, v in r.items() if k not in ("id", "valid")})
print(sum(1 for r in rows if r.get("valid")), "/", len(rows), "valid")
