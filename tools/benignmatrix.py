#!/venv/bin/python
"""Developer tool: behaviour-preserving refactorings must keep every check silent.  Applies each patch under
<dir>/<n>/r<k>/patch.diff to a scratch copy of /repo/demeter and runs every check with --root."""
import argparse, glob, json, os, shutil, subprocess, sys, tempfile
from concurrent.futures import ProcessPoolExecutor
VERIF = os.path.dirname(os.path.dirname(os.path.abspath(__file__)))
ap = argparse.ArgumentParser()
ap.add_argument("--dir", default="/tmp/benign/out")
ap.add_argument("--jobs", type=int, default=14)
ap.add_argument("--only", default="")
ap.add_argument("--checks", default="", help="restrict to these checks (comma separated)")
a = ap.parse_args()
ALL = [c["property_id"] for c in json.load(open(os.path.join(VERIF, "MANIFEST.json")))["checks"]]


def work(patch):
    name = "/".join(patch.split(os.sep)[-3:-1])
    d = tempfile.mkdtemp(prefix="benw_", dir="/tmp")
    try:
        shutil.copytree("/repo/demeter", os.path.join(d, "demeter"), ignore=shutil.ignore_patterns("__pycache__"))
        r = subprocess.run(["patch", "-p1", "-s", "-f", "-i", patch], cwd=d, capture_output=True, text=True)
        if r.returncode != 0:
            return name, "CONFLICT", [], []
        sys.path.insert(0, os.path.join(VERIF, "tools"))
        from relevance import relevant
        viol, errs = [], []
        for c in [x for x in relevant(patch, ALL) if not a.checks or x in a.checks.split(",")]:
            o = subprocess.run([os.path.join(VERIF, "check"), c, "--no-evidence", "--root", d], capture_output=True, text=True, cwd=VERIF)
            if o.returncode == 1:
                msg = [l for l in o.stdout.splitlines() if l.startswith("  demeter/")][:1]
                viol.append((c, msg[0][:260] if msg else ""))
            elif o.returncode == 2:
                msg = [l for l in o.stdout.splitlines() if l.startswith("ANALYSIS-ERROR")][:1]
                errs.append((c, msg[0][:260] if msg else ""))
        return name, "ok", viol, errs
    finally:
        shutil.rmtree(d, ignore_errors=True)


patches = sorted(glob.glob(os.path.join(os.path.abspath(a.dir), "*", "r*", "patch.diff")))
if a.only:
    patches = [p for p in patches if any(("/" + x + "/") in p for x in a.only.split(","))]
rows = []
bad = 0
import sys as _sys
_ex = ProcessPoolExecutor(a.jobs)
for name, st, viol, errs in _ex.map(work, patches):
    rows.append((name, st, viol, errs))
    _sys.stdout.flush()
    tag = "SILENT" if not viol and not errs else ("FALSE-ALARM" if viol else "REFUSED")
    bad += bool(viol)
    print(f"{name}: {st} {tag}")
    for c, m in viol:
        print(f"     VIOLATION {c}: {m}")
    for c, m in errs:
        print(f"     exit2 {c}: {m}")
print(f"{len(rows)} refactorings, {bad} with a false alarm, {sum(1 for r in rows if r[3] and not r[2])} refused only")
json.dump([{"name": n, "status": s, "violations": v, "errors": e} for n, s, v, e in rows], open("/tmp/benignmatrix.json", "w"), indent=1)
