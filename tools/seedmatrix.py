#!/venv/bin/python
"""Developer tool: run every check against every seeded defect, in parallel, on scratch copies of /repo/demeter
(outside /repo and /verif; removed afterwards).  usage: seedmatrix.py [--dir seeded_raw|seeded] [--own] [--jobs N]"""
import argparse, glob, json, os, shutil, subprocess, sys, tempfile
from concurrent.futures import ProcessPoolExecutor
VERIF = os.path.dirname(os.path.dirname(os.path.abspath(__file__)))
ap = argparse.ArgumentParser()
ap.add_argument("--dir", default="seeded_raw")
ap.add_argument("--own", action="store_true", help="only the seed's own property check")
ap.add_argument("--jobs", type=int, default=14)
ap.add_argument("--seeds", default="")
ap.add_argument("--fast", action="store_true", help="own check first; the other relevant checks only while nothing has reported")
a = ap.parse_args()
man = json.load(open(os.path.join(VERIF, "MANIFEST.json")))
ALL = [c["property_id"] for c in man["checks"]]


def work(patch):
    parts = patch.split(os.sep)
    if "-m" in parts[-2]:
        pid, mk = parts[-2].split("-")
    else:
        pid, mk = parts[-3], parts[-2]
    d = tempfile.mkdtemp(prefix=f"seedw_{pid}_{mk}_", dir="/tmp")
    try:
        shutil.copytree("/repo/demeter", os.path.join(d, "demeter"), ignore=shutil.ignore_patterns("__pycache__"))
        r = subprocess.run(["patch", "-p1", "-s", "-f", "-i", patch], cwd=d, capture_output=True, text=True)
        if r.returncode != 0:
            return pid, mk, "CONFLICT", [], []
        sys.path.insert(0, os.path.join(VERIF, "tools"))
        from relevance import relevant
        rel = relevant(patch, ALL)
        checks = [pid] if a.own else ([pid] + [c for c in rel if c != pid])
        hits, errs = [], []
        for c in checks:
            if a.fast and hits:
                break
            o = subprocess.run([os.path.join(VERIF, "check"), c, "--no-evidence", "--root", d], capture_output=True, text=True, cwd=VERIF)
            if o.returncode == 1 and "VIOLATION" in o.stdout:
                hits.append(c)
            elif o.returncode == 2:
                errs.append(c)
        return pid, mk, "ok", hits, errs
    finally:
        shutil.rmtree(d, ignore_errors=True)


seeds = sorted(glob.glob(os.path.join(VERIF, a.dir, "C*", "m*", "patch.diff")) + glob.glob(os.path.join(VERIF, a.dir, "C*-m*", "patch.diff")))
if a.seeds:
    seeds = [s for s in seeds if any(x in s for x in a.seeds.split(","))]
caught = 0
rows = []
with ProcessPoolExecutor(a.jobs) as ex:
    for pid, mk, st, hits, errs in ex.map(work, seeds):
        rows.append((pid, mk, st, hits, errs))
        own = pid in hits
        caught += bool(hits)
        print(f"{pid} {mk}: {st:8s} own={'Y' if own else '-'} caught_by={','.join(hits) or '-'}" + (f" analysis_error={','.join(errs)}" if errs else ""), flush=True)
print(f"{caught}/{len(rows)} caught; conflicts: {sum(1 for r in rows if r[2] == 'CONFLICT')}")
json.dump([{"property": p, "seed": m, "status": s, "caught_by": h, "analysis_error": e} for p, m, s, h, e in rows],
          open("/tmp/seedmatrix.json", "w"), indent=1)
