#!/venv/bin/python
"""Developer tool (round 2 of seeded defects): confirm each change written by an independent sub-agent under
<src>/<Cxx>/m<k>/ (patch.diff, demo.py, notes.json) in a scratch worktree of /repo HEAD - demo exits 0 on the clean
tree, non-zero with the patch, and the pinned baseline suite still passes with the patch - and, when all of that holds,
keep it as /verif/seeded/<Cxx>-m<k>/ (patch.diff, demo.py, meta.json).  Scratch worktrees are removed afterwards.

usage: import_seeds2.py [--src /tmp/seed2/out] [--only C01,C02] [--jobs 6]"""
import argparse, glob, json, os, shutil, subprocess
from concurrent.futures import ThreadPoolExecutor
VERIF = "/verif"
base = json.load(open("/root/.vp/BASELINE.json"))
want = set(base["stable_pass"])
ap = argparse.ArgumentParser()
ap.add_argument("--src", default="/tmp/seed2/out")
ap.add_argument("--only", default="")
ap.add_argument("--jobs", type=int, default=6)
ap.add_argument("--force", action="store_true")
ap.add_argument("--round", type=int, default=2)
a = ap.parse_args()


def run(cmd, cwd, timeout=900):
    # PYTHONPATH = the scratch checkout: /venv has an editable install of demeter pointing at /repo, so a demo that does
    # not put its checkout first on sys.path itself would silently test /repo instead of the patched tree
    return subprocess.run(cmd, cwd=cwd, capture_output=True, text=True, timeout=timeout,
                          env=dict(os.environ, PYTHONDONTWRITEBYTECODE="1", PYTHONPATH=cwd))


def baseline(wt):
    import xml.etree.ElementTree as ET
    xml = os.path.join(wt, ".r.xml")
    run(["/venv/bin/python", "-m", "pytest", "-q", "-p", "no:cacheprovider", "--timeout=900", "--continue-on-collection-errors",
         f"--junitxml={xml}"], wt)
    passed = set()
    for tc in ET.parse(xml).getroot().iter("testcase"):
        if not any(ch.tag in ("failure", "error", "skipped") for ch in tc):
            passed.add(f"{tc.get('classname')}::{tc.get('name')}")
    os.remove(xml)
    return sorted(want - passed)


def work(src):
    pid, mk = src.rstrip("/").split("/")[-2:]
    sid = f"{pid}-{mk}"
    dst = os.path.join(VERIF, "seeded", sid)
    if os.path.exists(os.path.join(dst, "meta.json")) and not a.force:
        return {"id": sid, "skipped": "already imported"}
    patch, demo = os.path.join(src, "patch.diff"), os.path.join(src, "demo.py")
    out = {"id": sid}
    if not (os.path.exists(patch) and os.path.exists(demo)):
        out["error"] = "patch.diff or demo.py missing"
        return out
    wt = f"/tmp/val2_{pid}_{mk}"
    subprocess.run(["git", "-C", "/repo", "worktree", "remove", "--force", wt], capture_output=True)
    shutil.rmtree(wt, ignore_errors=True)
    run(["git", "-C", "/repo", "worktree", "add", "-q", "--detach", wt, "HEAD"], "/")
    try:
        # the demo is copied next to nothing of the agent's scratch space: it must be self-contained
        tmpdemo = os.path.join("/tmp", f"val2_demo_{pid}_{mk}.py")
        shutil.copy(demo, tmpdemo)
        c = run(["/venv/bin/python", tmpdemo], wt)
        out["demo_clean_exit"] = c.returncode
        if c.returncode != 0:
            out["demo_clean_tail"] = (c.stdout + c.stderr).strip().splitlines()[-3:]
        ap_ = run(["git", "apply", patch], wt)
        if ap_.returncode != 0:
            out["apply"] = "FAILED " + ap_.stderr[:200]
            return out
        p = run(["/venv/bin/python", tmpdemo], wt)
        out["demo_patched_exit"] = p.returncode
        txt = (p.stdout + p.stderr).strip()
        out["demo_patched_tail"] = txt.splitlines()[-1][:300] if txt else ""
        miss = baseline(wt)
        out["baseline_missing"] = miss
        out["valid"] = c.returncode == 0 and p.returncode != 0 and not miss
        os.remove(tmpdemo)
        if out["valid"]:
            os.makedirs(dst, exist_ok=True)
            shutil.copy(patch, os.path.join(dst, "patch.diff"))
            shutil.copy(demo, os.path.join(dst, "demo.py"))
            notes = {}
            try:
                notes = json.load(open(os.path.join(src, "notes.json")))
            except Exception:  # noqa
                pass
            meta = {
                "property": pid, "seed": mk, "round": a.round,
                "summary": notes.get("summary", ""), "needs": notes.get("needs", ""), "files": notes.get("files", []),
                "author": "independent sub-agent given only the property record and a scratch worktree of /repo HEAD (nothing from /verif)",
                "agent_ran": notes.get("ran", []),
                "confirmed": {"at": "/repo HEAD in a scratch worktree (tools/import_seeds2.py)", "demo_exit_clean": c.returncode,
                              "demo_exit_patched": p.returncode, "demo_failure": out["demo_patched_tail"],
                              "baseline_tests_missing_with_patch": miss},
                "what_i_ran": ["git worktree add <scratch> HEAD; python demo.py (expect 0); git apply patch.diff; python demo.py (expect "
                               "non-zero); pytest baseline (expect the 111 baseline tests pass); git worktree remove",
                               "tools/seedmatrix.py --dir seeded: patch applied to a scratch copy of /repo/demeter, every ./check Cxx --root <copy>"],
            }
            json.dump(meta, open(os.path.join(dst, "meta.json"), "w"), indent=1)
    except Exception as e:  # noqa
        out["error"] = repr(e)[:300]
    finally:
        subprocess.run(["git", "-C", "/repo", "worktree", "remove", "--force", wt], capture_output=True)
        shutil.rmtree(wt, ignore_errors=True)
    return out


srcs = sorted(glob.glob(os.path.join(a.src, "C*", "m[0-9]*")))
srcs = [s for s in srcs if os.path.isdir(s)]
if a.only:
    srcs = [s for s in srcs if any(x in s for x in a.only.split(","))]
with ThreadPoolExecutor(a.jobs) as ex:
    rows = list(ex.map(work, srcs))
for r in rows:
    print(r["id"], "VALID" if r.get("valid") else ("SKIP" if r.get("skipped") else "INVALID"),
          {k: v for k, v in r.items() if k not in ("id", "valid")})
print(sum(1 for r in rows if r.get("valid")), "/", len(rows), "valid")
