#!/venv/bin/python
"""Regenerate MANIFEST.json from the MANIFEST dicts declared in sa/props/Cxx.py (developer tool)."""
import importlib, json, os, sys
VERIF = os.path.dirname(os.path.dirname(os.path.abspath(__file__)))
sys.path.insert(0, VERIF)
NA_REASONS = {}
try:
    NA_REASONS = json.load(open(os.path.join(VERIF, "tools", "not_applicable.json")))
except FileNotFoundError:
    pass
checks, na, served = [], [], []
for i in range(1, 21):
    pid = f"C{i:02d}"
    try:
        mod = importlib.import_module(f"sa.props.{pid}")
        man = getattr(mod, "MANIFEST", None)
    except ModuleNotFoundError:
        man = None
    if man is None:
        na.append({"property_id": pid, "reason": NA_REASONS.get(pid, "check not built yet (static-analysis rule under construction, see DESIGN.md section 4)")})
        continue
    served.append(pid)
    checks.append({
        "property_id": pid,
        "quick_cmd": f"./check {pid}",
        "thorough_cmd": f"./check {pid} --tier thorough",
        "evidence_file": f"/verif/evidence/{pid}.json",
        "replay_cmd_template": f"./check {pid} --replay {{path}}",
        "engine": "sa",
        "technique": man["technique"],
        "level_claimed": {"category": "other", "text": man["claim"], "design_ref": man.get("design_ref", f"DESIGN.md section 4 {pid}")},
        "level_note": man["note"],
    })
m = {
    "version": 1,
    "setup_cmd": "cd /verif && PYTHONDONTWRITEBYTECODE=1 /venv/bin/python -m sa.selftest",
    "hooks": {
        "guard": "ZELOS_ALPHA_DEMETER_VERIF",
        "enable": "no hooks: every check parses /repo's working tree with ast; nothing is built, imported or instrumented",
        "baseline_off_cmd": "cd /repo && /venv/bin/python -m pytest -ra -q -p no:cacheprovider --timeout=900 --continue-on-collection-errors",
        "source_commits": [],
        "add_only": True,
    },
    "engines": [{"name": "sa", "path": "/verif/sa", "serves_properties": served,
                 "kind_free_text": "repository-specific static analysis over Python ast (stdlib only): program model with call/receiver resolution, syntax-directed abstract interpreter with bounded inlining over powersets of small abstract states, value-numbering evaluator with exact rational normal forms for formula identity, rule modules per family (sa/rules)"}],
    "checks": checks,
    "not_applicable": na,
    "notes": "Findings on the pinned tree were triaged: genuine defects with a small safe repair are `fix:` commits in /repo (listed as `fixed` in known_findings.json), the others are `known` entries printed as KNOWN-FINDING. 47 known findings (27 under C04, 20 under C03, each reproduced against the real code by a script under /verif/findings), 25 fix commits. Every property is claimed for the clauses named in its level text (what is NOT decided is in each level_note and in DESIGN.md section 4); no property is wholly not-applicable. Validation corpora: /verif/seeded (316 independently written, confirmed defects: all reported, 314 by the check of their own property) and /verif/benign (240 behaviour-preserving changes: 1 known false alarm, 38/r5); DESIGN.md sections 13-19 say which check reports which change and what each miss or false alarm led to.",
}
json.dump(m, open(os.path.join(VERIF, "MANIFEST.json"), "w"), indent=1)
print("checks:", served, "not_applicable:", [x["property_id"] for x in na])
