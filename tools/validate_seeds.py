#!/venv/bin/python
"""Developer tool: confirm each seeded defect at /repo HEAD in a scratch worktree: demo passes on the clean tree, fails
with the patch, and the pinned baseline suite still passes with the patch.  Writes /verif/seeded/<id>/meta.json."""
import glob, json, os, shutil, subprocess, sys
from concurrent.futures import ThreadPoolExecutor
VERIF = "/verif"
base = json.load(open("/root/.vp/BASELINE.json"))
want = set(base["stable_pass"])


def run(cmd, cwd, timeout=600):
    return subprocess.run(cmd, cwd=cwd, capture_output=True, text=True, timeout=timeout, env=dict(os.environ, PYTHONDONTWRITEBYTECODE="1"))


def baseline(wt):
    import xml.etree.ElementTree as ET
    xml = os.path.join(wt, ".r.xml")
    run(["/venv/bin/python", "-m", "pytest", "-q", "-p", "no:cacheprovider", "--timeout=900", "--continue-on-collection-errors",
         f"--junitxml={xml}"], wt)
    passed = set()
    for tc in ET.parse(xml).getroot().iter("testcase"):
        if not any(ch.tag in ("failure", "error", "skipped") for ch in tc):
            passed.add(f"{tc.get('classname')}::{tc.get('name')}")
    os.remove(xml)
    return sorted(want - passed)


def work(sid):
    pid, mk = sid.split("/")
    src = os.path.join(VERIF, "seeded_raw", pid, mk)
    reb = os.path.join(VERIF, "seeded_rebased", pid, mk, "patch.diff")
    patch = reb if os.path.exists(reb) else os.path.join(src, "patch.diff")
    wt = f"/tmp/val_{pid}_{mk}"
    subprocess.run(["git", "-C", "/repo", "worktree", "remove", "--force", wt], capture_output=True)
    r = run(["git", "-C", "/repo", "worktree", "add", "-q", "--detach", wt, "HEAD"], "/")
    out = {"id": sid, "patch": os.path.relpath(patch, VERIF)}
    try:
        demo = os.path.join(src, "demo.py")
        c = run(["/venv/bin/python", demo], wt)
        out["demo_clean_exit"] = c.returncode
        a = run(["git", "apply", patch], wt)
        if a.returncode != 0:
            out["apply"] = "FAILED " + a.stderr[:200]
            return out
        out["apply"] = "ok"
        p = run(["/venv/bin/python", demo], wt)
        out["demo_patched_exit"] = p.returncode
        out["demo_patched_tail"] = (p.stdout + p.stderr).strip().splitlines()[-1:][0][:200] if (p.stdout + p.stderr).strip() else ""
        miss = baseline(wt)
        out["baseline_missing"] = miss
        out["valid"] = c.returncode == 0 and p.returncode != 0 and not miss
    except Exception as e:  # noqa
        out["error"] = repr(e)[:300]
    finally:
        subprocess.run(["git", "-C", "/repo", "worktree", "remove", "--force", wt], capture_output=True)
        shutil.rmtree(wt, ignore_errors=True)
    return out


ids = sorted(p.split("seeded_raw/")[1].rsplit("/", 1)[0] for p in glob.glob(os.path.join(VERIF, "seeded_raw", "C*", "m[0-9]", "patch.diff")))
if len(sys.argv) > 1:
    ids = [i for i in ids if i.split("/")[0] in sys.argv[1].split(",")]
with ThreadPoolExecutor(8) as ex:
    rows = list(ex.map(work, ids))
json.dump(rows, open("/tmp/seed_validation.json", "w"), indent=1)
for r in rows:
    print(r["id"], "VALID" if r.get("valid") else "INVALID", {k: v for k, v in r.items() if k not in ("id", "valid", "patch")})
print(sum(1 for r in rows if r.get("valid")), "/", len(rows), "valid")
