#!/venv/bin/python
"""Developer tool (never run by a check): add the *currently reported, unlisted* violations of a property that
match a regex to known_findings.json after they were triaged by hand as genuine defects.
usage: accept_known.py Cxx '<regex on key>' '<triage note: how it was reproduced>'"""
import json, os, re, sys
sys.path.insert(0, os.path.dirname(os.path.dirname(os.path.abspath(__file__))))
from sa.check import run_one
from sa.report import KNOWN_FILE, load_known

pid, rx, note = sys.argv[1], sys.argv[2], sys.argv[3]
code, res = run_one(pid, os.environ.get("DEMETER_ROOT", "/repo"), "quick", 0, write_evidence=False, quiet=True)
known = load_known()
have = {k["key"] for k in known["known"] if k["property"] == pid}
n = 0
for f in res.findings:
    if f.key in have or not re.search(rx, f.key):
        continue
    known["known"].append({"property": pid, "key": f.key, "what": f.message[:300], "triage": note})
    n += 1
json.dump(known, open(KNOWN_FILE, "w"), indent=1)
print(f"added {n} known findings for {pid}")
