#!/venv/bin/python
"""Developer tool: which functions of demeter does no check consult?  Runs every check in-process (quick tier, no
evidence) with the recorder of sa/cover.py and lists, per module, the functions with a non-trivial body that were not
evaluated by the value-numbering evaluator (compared with a reference or inlined into such a comparison).  usage: coverage_map.py [--root /repo] [--all]"""
import argparse, ast, io, os, sys, contextlib
sys.path.insert(0, os.path.dirname(os.path.dirname(os.path.abspath(__file__))))
from sa import cover
from sa.check import ALL, run_one
from sa.model import Model
ap = argparse.ArgumentParser()
ap.add_argument("--root", default="/repo")
ap.add_argument("--all", action="store_true", help="also list trivial functions")
a = ap.parse_args()
per = {}
for pid in ALL:
    cover.reset()
    with contextlib.redirect_stdout(io.StringIO()):
        try:
            run_one(pid, a.root, "quick", 0, write_evidence=False, quiet=True)
        except Exception as e:  # noqa
            print("ERR", pid, e, file=sys.stderr)
    for nm, st in (("vn", cover.VN), ("interp", cover.INTERP), ("anchor", cover.ANCHOR)):
        for k in st:
            per.setdefault(k, {}).setdefault(nm, set()).add(pid)
m = Model(a.root)
tot = cov = 0
for mod in sorted(m.modules.values(), key=lambda x: x.relpath):
    rows = []
    fs = list(mod.funcs.values())
    for c in mod.classes.values():
        fs += list(c.methods.values()) + list(c.setters.values())
    for f in sorted(fs, key=lambda x: x.node.lineno):
        body = [s for s in f.node.body if not (isinstance(s, ast.Expr) and isinstance(s.value, ast.Constant))]
        nst = sum(1 for n in ast.walk(f.node) if isinstance(n, ast.stmt)) - 1
        trivial = nst <= 2 or f.name in ("__str__", "__repr__", "formatted_str", "description")
        k = (mod.relpath, f.qualname, f.node.lineno)
        got = per.get(k, {})
        tot += 1
        if got:
            cov += 1
        if "vn" not in got and (a.all or not trivial):
            how = " ".join(f"{k}={','.join(sorted(v))}" for k, v in sorted(got.items())) or "-"
            rows.append(f"    {f.qualname}:{f.node.lineno} ({nst} stmts)  [{how}]")
    if rows:
        print(mod.relpath)
        print("\n".join(rows))
print(f"{cov}/{tot} functions consulted by at least one check")
