"""Which checks can be affected by a patch: the checks whose scope contains one of the touched files (scopes as in the
R-FRESH / R-WORLD wiring of sa/props/Cxx.py; shared plumbing affects every check)."""
import re
SCOPES = {
    "C01": ("aave", "uniswap", "squeeth", "deribit", "gmx", "core"), "C02": ("core", "uniswap", "deribit", "aave", "squeeth", "gmx", "data"),
    "C03": ("aave", "uniswap", "squeeth", "deribit", "gmx"), "C04": ("aave", "uniswap", "squeeth", "deribit", "gmx"), "C05": ("core", "strategy"),
    "C06": ("uniswap",), "C07": ("uniswap",), "C08": ("uniswap", "core"), "C09": ("uniswap",), "C10": ("aave",), "C11": ("aave",),
    "C12": ("aave",), "C13": ("aave",), "C14": ("squeeth", "uniswap"), "C15": ("deribit",), "C16": ("deribit",), "C17": ("gmx",),
    "C18": ("strategy", "core"), "C19": None, "C20": ("result",),
}
COMMON = ("demeter/broker/", "demeter/_typing.py", "demeter/utils/", "demeter/__init__.py")


def relevant(patch_path, all_checks):
    files = re.findall(r"^\+\+\+ b/(\S+)", open(patch_path).read(), flags=re.M)
    if any(f.startswith(COMMON) for f in files) or not files:
        return list(all_checks)
    out = []
    for c in all_checks:
        sc = SCOPES.get(c)
        if sc is None or any(f.startswith(tuple(f"demeter/{d}/" for d in sc)) for f in files):
            out.append(c)
    return out
