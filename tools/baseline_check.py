#!/venv/bin/python
"""Run the pinned baseline suite on a tree (default /repo) and compare the passing set with BASELINE.json.
usage: baseline_check.py [root]   -> exit 0 iff every baseline-passing test still passes."""
import json, os, subprocess, sys, tempfile
import xml.etree.ElementTree as ET

root = sys.argv[1] if len(sys.argv) > 1 else "/repo"
base = json.load(open("/root/.vp/BASELINE.json"))
want = set(base["stable_pass"])
with tempfile.TemporaryDirectory() as d:
    xml = os.path.join(d, "r.xml")
    env = dict(os.environ, PYTHONDONTWRITEBYTECODE="1")
    subprocess.run(["/venv/bin/python", "-m", "pytest", "-q", "-p", "no:cacheprovider", "--timeout=900",
                    "--continue-on-collection-errors", f"--junitxml={xml}"], cwd=root, env=env,
                   stdout=subprocess.DEVNULL, stderr=subprocess.DEVNULL)
    passed = set()
    for tc in ET.parse(xml).getroot().iter("testcase"):
        if not any(ch.tag in ("failure", "error", "skipped") for ch in tc):
            passed.add(f"{tc.get('classname')}::{tc.get('name')}")
missing = sorted(want - passed)
print(f"baseline={len(want)} passed_now={len(passed)} missing={len(missing)}")
for m in missing:
    print("  MISSING", m)
sys.exit(1 if missing else 0)
