#!/venv/bin/python
"""Developer tool: every repaired defect must be reported again if it returns.  For each `fixed` entry of
known_findings.json the fix commit is reverted on a scratch copy of /repo/demeter and the property's check is run."""
import json, os, shutil, subprocess, sys, tempfile
from concurrent.futures import ProcessPoolExecutor
VERIF = os.path.dirname(os.path.dirname(os.path.abspath(__file__)))
known = json.load(open(os.path.join(VERIF, "known_findings.json")))
jobs = sorted({(e["property"], e["commit"]) for e in known["fixed"]})


def work(job):
    pid, commit = job
    d = tempfile.mkdtemp(prefix="fixw_", dir="/tmp")
    try:
        shutil.copytree("/repo/demeter", os.path.join(d, "demeter"), ignore=shutil.ignore_patterns("__pycache__"))
        diff = subprocess.run(["git", "-C", "/repo", "diff", commit, commit + "~1", "--", "demeter"], capture_output=True, text=True).stdout
        r = subprocess.run(["patch", "-p1", "-s", "-f"], input=diff, cwd=d, capture_output=True, text=True)
        if r.returncode != 0:
            return pid, commit, "REVERT-CONFLICT", ""
        o = subprocess.run([os.path.join(VERIF, "check"), pid, "--no-evidence", "--root", d], capture_output=True, text=True, cwd=VERIF)
        first = [l for l in o.stdout.splitlines() if l.startswith("  demeter/")][:1]
        return pid, commit, {0: "SILENT", 1: "VIOLATION", 2: "ANALYSIS-ERROR"}.get(o.returncode, str(o.returncode)), (first[0][:150] if first else "")
    finally:
        shutil.rmtree(d, ignore_errors=True)


with ProcessPoolExecutor(12) as ex:
    rows = list(ex.map(work, jobs))
bad = 0
for pid, c, st, msg in rows:
    bad += st != "VIOLATION"
    print(f"{pid} revert {c}: {st} {msg}")
print(f"{len(rows) - bad}/{len(rows)} reverted fixes are reported again")
