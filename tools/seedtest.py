#!/venv/bin/python
"""Developer tool: apply each seeded defect to /repo, run the checks, undo.  Never commits anything in /repo.
usage: seedtest.py [--seeds C04,C13] [--checks C04,C13] [--dir seeded_raw|seeded]"""
import argparse, glob, json, os, subprocess, sys
VERIF = os.path.dirname(os.path.dirname(os.path.abspath(__file__)))
ap = argparse.ArgumentParser()
ap.add_argument("--seeds", default="")
ap.add_argument("--checks", default="")
ap.add_argument("--dir", default="seeded_raw")
a = ap.parse_args()
man = json.load(open(os.path.join(VERIF, "MANIFEST.json")))
checks = [c["property_id"] for c in man["checks"]]
if a.checks:
    checks = a.checks.split(",")
seeds = sorted(glob.glob(os.path.join(VERIF, a.dir, "C*", "m*", "patch.diff")))
if a.seeds:
    want = a.seeds.split(",")
    seeds = [s for s in seeds if s.split(os.sep)[-3] in want]
assert subprocess.run(["git", "-C", "/repo", "status", "--porcelain"], capture_output=True, text=True).stdout.strip() == "", "/repo not clean"
rows = []
for s in seeds:
    pid, mk = s.split(os.sep)[-3], s.split(os.sep)[-2]
    r = subprocess.run(["git", "-C", "/repo", "apply", s], capture_output=True, text=True)
    how = "apply"
    if r.returncode != 0:
        r = subprocess.run(["git", "-C", "/repo", "apply", "-3", s], capture_output=True, text=True)
        how = "3way"
        if r.returncode != 0:
            subprocess.run(["git", "-C", "/repo", "reset", "-q", "--hard", "HEAD"])
            rows.append((pid, mk, "CONFLICT", []))
            print(pid, mk, "CONFLICT"); continue
    hits = []
    try:
        for c in checks:
            o = subprocess.run([os.path.join(VERIF, "check"), c, "--no-evidence"], capture_output=True, text=True, cwd=VERIF)
            if o.returncode == 1 and "VIOLATION" in o.stdout:
                hits.append(c)
            elif o.returncode == 2:
                hits.append(c + "(err)")
    finally:
        subprocess.run(["git", "-C", "/repo", "reset", "-q", "--hard", "HEAD"])
    rows.append((pid, mk, how, hits))
    print(pid, mk, how, "caught by:", ",".join(hits) or "-", flush=True)
assert subprocess.run(["git", "-C", "/repo", "status", "--porcelain"], capture_output=True, text=True).stdout.strip() == ""
caught = sum(1 for r in rows if r[3] and r[2] != "CONFLICT")
print(f"{caught}/{len(rows)} seeds caught by at least one check")
