"""Triage material (NOT part of any check): negative amounts through the user operations, against the real code.
Run: cd /repo && HOME=<scratch> /venv/bin/python /verif/findings/repro_C03_negative.py   (written by an independent sub-agent from a list of cases; every R-POS finding listed as known is in its CONFIRMED line)"""
"""
repro_C03_negative.py - what happens when demeter user operations are called with NEGATIVE amounts.

Run with cwd = a checkout root of zelos-alpha/demeter:
    cd <checkout> && PYTHONPATH=<checkout> python repro_C03_negative.py

For each case a fresh broker + market is built in a sane state, a snapshot is taken (wallet balances,
the market's holdings, total net value through broker.get_account_status(prices)), the operation is called
with one negative argument, and ONE line is printed:

   CASE <Class.operation>(<param>=<value>): ACCEPTED|REJECTED(<ExceptionType>: <msg>) ; negative_holding=... ;
        net_value_change=... ; wallet_change=...

Final line: CONFIRMED: <list of Class.operation:param> = the call was ACCEPTED and (a holding or a wallet balance
became negative, OR total net value rose by more than 1e-9 relative, OR the wallet was credited although the
operation debits the wallet).  Exit code is always 0.
"""
import os
import sys

ROOT = os.getcwd()
sys.path.insert(0, ROOT)

import logging
import traceback
import warnings
from datetime import datetime
from decimal import Decimal, Context
from io import StringIO

warnings.filterwarnings("ignore")
logging.disable(logging.CRITICAL)

import pandas as pd

D = Decimal
NEG = D("-5")
CONFIRMED = []


# ----------------------------------------------------------------------------------------------- generic runner
def _dec(v):
    try:
        if isinstance(v, Decimal):
            return v
        return D(str(v))
    except Exception:
        return D("NaN")


def fmt(v, signed=False):
    v = _dec(v)
    if v.is_nan():
        return "NaN"
    if v == 0:
        return "+0" if signed else "0"
    v = Context(prec=12).plus(v).normalize()
    if -12 <= v.adjusted() <= 15:
        s = format(v, "f")
    else:
        s = str(v)
    return ("+" + s) if (signed and v > 0) else s


def wallet_of(broker):
    return {k.name: _dec(v.balance) for k, v in broker.assets.items()}


def one_line(text):
    text = " ".join(str(text).split())
    return text if len(text) <= 220 else text[:217] + "..."


class Ctx:
    """what a case builder returns"""

    def __init__(self, broker, prices, holdings, call, debit_tokens, net_value=None):
        self.broker = broker
        self.prices = prices  # dict token name -> Decimal, handed to broker.get_account_status
        self.holdings = holdings  # callable -> dict name -> number (the market's holdings)
        self.call = call  # callable performing the operation with the negative argument
        self.debit_tokens = debit_tokens  # names of wallet tokens this operation is meant to DEBIT ([] = credit op)
        self._net_value = net_value

    def net_value(self):
        if self._net_value is not None:
            return _dec(self._net_value())
        return _dec(self.broker.get_account_status(self.prices).net_value)


def run_case(op, param, value, builder):
    label = f"{op}({param}={value})"
    key = f"{op}:{param}"
    try:
        ctx = builder()
        w0 = wallet_of(ctx.broker)
        h0 = {k: _dec(v) for k, v in ctx.holdings().items()}
        try:
            nv0 = ctx.net_value()
        except Exception as e:  # pragma: no cover
            nv0 = None
            nv_err = f"{type(e).__name__}: {e}"
    except Exception as e:
        print(f"CASE {label}: NOT-CONSTRUCTED {type(e).__name__}: {one_line(e)}")
        traceback.print_exc(file=sys.stderr)
        return

    accepted = True
    try:
        ctx.call()
        verdict = "ACCEPTED"
    except BaseException as e:  # AssertionError / DemeterError / arithmetic errors all count as rejection
        accepted = False
        msg = getattr(e, "message", None) or str(e)
        verdict = f"REJECTED({type(e).__name__}: {one_line(msg)})"

    # state after the call - also after a rejection, so a rejection that left a mutation behind is visible
    w1 = wallet_of(ctx.broker)
    try:
        h1 = {k: _dec(v) for k, v in ctx.holdings().items()}
    except Exception as e:
        h1 = {}
    negs = []
    for k, v in h1.items():
        if v < 0 and not (k in h0 and h0[k] < 0):
            negs.append(f"{k}={fmt(v)}")
    wallet_negs = []
    for k, v in w1.items():
        if v < 0 and not (k in w0 and w0[k] < 0):
            wallet_negs.append(f"wallet[{k}]={fmt(v)}")
    neg_txt = "yes: " + ", ".join(negs + wallet_negs) if (negs or wallet_negs) else "no"

    nv_rise = False
    try:
        nv1 = ctx.net_value()
        if nv0 is None or nv1.is_nan() or nv0.is_nan():
            nv_txt = "n/a"
        else:
            dnv = nv1 - nv0
            nv_txt = fmt(dnv, signed=True)
            base = abs(nv0) if nv0 != 0 else D(1)
            nv_rise = dnv / base > D("1e-9")
    except Exception as e:
        nv_txt = f"n/a({type(e).__name__} while valuing the account after the call)"

    deltas = {}
    for k in sorted(set(w0) | set(w1)):
        d = w1.get(k, D(0)) - w0.get(k, D(0))
        if d != 0:
            deltas[k] = d
    wc_txt = ",".join(f"{k}:{fmt(d, signed=True)}" for k, d in deltas.items()) if deltas else "none"
    backwards = any(deltas.get(t, D(0)) > 0 for t in ctx.debit_tokens)
    if backwards:
        wc_txt += " (credited by a debit operation)"

    print(f"CASE {label}: {verdict} ; negative_holding={neg_txt} ; net_value_change={nv_txt} ; wallet_change={wc_txt}")
    if accepted and (negs or wallet_negs or nv_rise or backwards):
        CONFIRMED.append(key)


# ----------------------------------------------------------------------------------------------- Broker
from demeter import Broker, TokenInfo, MarketInfo, MarketTypeEnum, MarketStatus

ETH = TokenInfo("eth", 18)
USDC = TokenInfo("usdc", 6)


def broker_plain():
    broker = Broker()
    broker.set_balance(ETH, 1)
    broker.set_balance(USDC, 2000)
    prices = {"ETH": D(2000), "USDC": D(1)}
    return broker, prices


def case_broker_add():
    broker = Broker()
    broker.set_balance(ETH, 1)  # wallet holds 1 token
    prices = {"ETH": D(2000)}
    return Ctx(broker, prices, lambda: {}, lambda: broker.add_to_balance(ETH, NEG), [])


def case_broker_sub():
    broker = Broker()
    broker.set_balance(ETH, 1)
    prices = {"ETH": D(2000)}
    return Ctx(broker, prices, lambda: {}, lambda: broker.subtract_from_balance(ETH, NEG), ["ETH"])


def case_broker_swap_by_from():
    broker, prices = broker_plain()
    ps = pd.Series(prices)
    return Ctx(broker, prices, lambda: {}, lambda: broker.swap_by_from(USDC, ETH, NEG, ps), ["USDC"])


def case_broker_swap_by_to():
    broker, prices = broker_plain()
    ps = pd.Series(prices)
    return Ctx(broker, prices, lambda: {}, lambda: broker.swap_by_to(USDC, ETH, NEG, ps), ["USDC"])


# ----------------------------------------------------------------------------------------------- Aave v3
def aave_setup():
    from demeter.aave import AaveV3Market

    weth = TokenInfo("weth", 18, "0x7ceb23fd6bc0add59e62ac25578270cff1b9f619")
    dai = TokenInfo("DAI", 6)
    market_key = MarketInfo("aave_test", MarketTypeEnum.aave_v3)
    risk = os.path.join(ROOT, "tests", "aave_risk_parameters", "demo.csv")
    market = AaveV3Market(market_key, risk, tokens=[weth, dai])
    t = datetime(2023, 8, 1)
    price_series = pd.Series(data=[D(1000), D(1), D(1)], index=[weth.name, dai.name, "USD"])
    cols = ["liquidity_rate", "stable_borrow_rate", "variable_borrow_rate", "liquidity_index", "variable_borrow_index"]
    index = pd.MultiIndex.from_product([[weth.name, dai.name], cols])
    pool_stat = MarketStatus(t)
    pool_stat.data = pd.Series(
        index=index,
        data=[D("0.05"), D("0.1"), D("0.08"), D("1.6"), D("1"), D("0.08"), D("0.12"), D("0.1"), D("1.6"), D("1.6")],
    )
    broker = Broker()
    broker.add_market(market)
    market.set_market_status(data=pool_stat, price=price_series)
    broker.set_balance(weth, 5)  # same funding as tests/aave_market_test.py
    prices = {"WETH": D(1000), "DAI": D(1), "USD": D(1)}

    def holdings():
        h = {}
        for k, v in market._supplies.items():
            h[f"supply[{k.name}].base_amount"] = v.base_amount
        for k, v in market._borrows.items():
            h[f"borrow[{k.name}].base_amount"] = v.base_amount
        return h

    return broker, market, weth, dai, prices, holdings


def case_aave_supply():
    broker, market, weth, dai, prices, holdings = aave_setup()
    return Ctx(broker, prices, holdings, lambda: market.supply(weth, NEG, True), ["WETH"])


def case_aave_withdraw():
    broker, market, weth, dai, prices, holdings = aave_setup()
    market.supply(weth, D(4), True)  # existing supply of 4 WETH, 1 WETH stays in the wallet
    return Ctx(broker, prices, holdings, lambda: market.withdraw(weth, NEG), [])


def case_aave_borrow():
    broker, market, weth, dai, prices, holdings = aave_setup()
    market.supply(weth, D(4), True)  # collateral
    return Ctx(broker, prices, holdings, lambda: market.borrow(dai, NEG), [])


def case_aave_repay():
    broker, market, weth, dai, prices, holdings = aave_setup()
    market.supply(weth, D(4), True)
    market.borrow(dai, D(1000))  # existing debt, 1000 DAI in the wallet
    return Ctx(broker, prices, holdings, lambda: market.repay(dai, NEG), ["DAI"])


# ----------------------------------------------------------------------------------------------- Deribit
DERIBIT_CSV = """
instrument_name,time,actual_time,state,type,strike_price,t,expiry_time,vega,theta,rho,gamma,delta,underlying_price,settlement_price,min_price,max_price,mark_price,mark_iv,last_price,interest_rate,bid_iv,best_bid_price,best_bid_amount,ask_iv,best_ask_price,best_ask_amount,asks,bids
ETH-22SEP23-1600-C,2023-09-01 06:00:00,2023-09-01 06:00:38.752,open,CALL,1600,21 days 02:00:00,2023-09-22 08:00:00,1.42317,-1.05567,0.60142,0.00289,0.67817,1651.94,,0.021,0.0795,0.0479,31.28,,0,27.93,0.045,70,33.75,0.05,145,"[[0.05, 145]]","[[0.045, 70], [0.0445, 75]]"
ETH-22SEP23-1650-C,2023-09-01 06:00:00,2023-09-01 06:00:39.232,open,CALL,1650,21 days 02:00:00,2023-09-22 08:00:00,1.58174,-1.10083,0.46945,0.00342,0.52071,1651.94,,0.008,0.058,0.0287,29.35,0.0285,0,28.61,0.028,51,29.13,0.0285,5,"[[0.0285, 5], [0.029, 605], [0.0295, 197], [0.03, 40], [0.0305, 18]]","[[0.028, 51], [0.0275, 585], [0.027, 248], [0.0265, 24]]"
"""


def deribit_setup():
    from demeter.deribit import DeribitOptionMarket, DeribitMarketStatus
    from demeter.deribit.helper import order_converter

    key = MarketInfo("TestMarket", MarketTypeEnum.deribit_option)
    broker = Broker()
    market = DeribitOptionMarket(key, DeribitOptionMarket.ETH)
    broker.add_market(market)
    data = pd.read_csv(
        StringIO(DERIBIT_CSV),
        parse_dates=["time", "expiry_time"],
        index_col=["instrument_name"],
        converters={"asks": order_converter, "bids": order_converter},
    )
    market.set_market_status(
        DeribitMarketStatus(timestamp=pd.Timestamp("2023-9-1 6:0:0"), data=data),
        price=pd.Series([1651.94], index=["eth"]),
    )
    prices = {"ETH": D("1651.94")}
    return broker, market, DeribitOptionMarket.ETH, prices, (lambda: {"deribit cash balance": market.balance})


def case_deribit_deposit():
    broker, market, eth, prices, holdings = deribit_setup()
    broker.set_balance(eth, 1)
    return Ctx(broker, prices, holdings, lambda: market.deposit(NEG), ["ETH"])


def case_deribit_withdraw():
    broker, market, eth, prices, holdings = deribit_setup()
    broker.set_balance(eth, 2)
    market.deposit(1)  # cash deposited before; 1 ETH stays in the wallet
    return Ctx(broker, prices, holdings, lambda: market.withdraw(NEG), [])


# ----------------------------------------------------------------------------------------------- GMX v1
def gmx1_setup():
    from demeter.gmx import GmxMarket
    from demeter.utils import to_decimal

    tokens = [
        TokenInfo(name="btc.b", decimal=8),
        TokenInfo(name="weth", decimal=18),
        TokenInfo(name="wbtc", decimal=8),
        TokenInfo(name="wavax", decimal=18),
        TokenInfo(name="mim", decimal=18),
        TokenInfo(name="usdc.e", decimal=6),
        TokenInfo(name="usdc", decimal=6),
    ]
    weth = TokenInfo(name="weth", decimal=18)
    csv_path = None
    for d in ("tests/data", "samples/data"):
        p = os.path.join(ROOT, d, "avalanche_gmx_2024-10-15.csv")
        if os.path.exists(p):
            csv_path = p
            break
    if csv_path is None:
        raise RuntimeError("avalanche_gmx_2024-10-15.csv not found under tests/data or samples/data")
    # same reader as demeter.gmx.helper.load_gmx_v1_data, without the CacheManager (which crashes)
    df = pd.read_csv(
        csv_path,
        index_col=0,
        parse_dates=True,
        nrows=5,
        converters={
            "glp_price": to_decimal,
            "weth_price": to_decimal,
            "wavax_price": to_decimal,
            "glp": to_decimal,
            "aum": to_decimal,
        },
    )
    key = MarketInfo("gmx", MarketTypeEnum.gmx_v1)
    market = GmxMarket(key, tokens=tokens, data=df)
    broker = Broker()
    broker.add_market(market)
    ts = df.index[0]
    weth_price = D(df.iloc[0]["weth_price"]) / D(10**30)
    market.set_market_status(MarketStatus(ts, None), pd.Series({"WETH": weth_price}))
    broker.set_balance(weth, D(1))
    prices = {"WETH": weth_price, "USD": D(1)}
    holdings = lambda: {"glp_amount": market.glp_amount, "reward": market.reward}
    return broker, market, weth, prices, holdings


def case_gmx1_buy():
    broker, market, weth, prices, holdings = gmx1_setup()
    return Ctx(broker, prices, holdings, lambda: market.buy_glp(weth, NEG), ["WETH"])


def case_gmx1_sell():
    broker, market, weth, prices, holdings = gmx1_setup()
    market.buy_glp(weth, D(1))  # GLP held (whole wallet spent, as tests/gmx_strategy_test.py does)
    return Ctx(broker, prices, holdings, lambda: market.sell_glp(weth, NEG), [])


# ----------------------------------------------------------------------------------------------- GMX v2
def gmx2_setup():
    from demeter.gmx import GmxV2Market
    from demeter.gmx._typing2 import GmxV2Pool, GmxV2MarketStatus

    usdc = TokenInfo(name="usdc", decimal=6)
    weth = TokenInfo(name="weth", decimal=18)
    pool = GmxV2Pool(weth, usdc, weth)
    # first row of samples/data/arbitrum-GmxV2-0x70d95587d40a2caf56bd97485ab3eec10bee6336-2025-01-08.minute.csv
    ts = pd.Timestamp("2025-01-08 00:00:00")
    row = {
        "longAmount": 9156.91510013039,
        "shortAmount": 32754376.501923,
        "virtualSwapInventoryLong": 10474.615146280868,
        "virtualSwapInventoryShort": 37355390.593254,
        "poolValue": 63604492.787754506,
        "marketTokensSupply": 36374966.20183361,
        "impactPoolAmount": 742.7887947216316,
        "longPrice": 3384.5854247282027,
        "shortPrice": 0.9999605329412204,
        "indexPrice": 3384.5854247282027,
    }
    df = pd.DataFrame([row], index=pd.DatetimeIndex([ts]))
    key = MarketInfo("GMX_ETH", MarketTypeEnum.gmx_v2)
    market = GmxV2Market(key, pool, data=df)
    broker = Broker()
    broker.add_market(market)
    prices = {"WETH": D(str(row["longPrice"])), "USDC": D(str(row["shortPrice"])), "USD": D(1)}
    market.set_market_status(GmxV2MarketStatus(ts, None), pd.Series(prices))
    broker.set_balance(weth, 1)  # same funding as samples/strategy-example/52_gmx_v2_tutorial.py
    broker.set_balance(usdc, 3384)
    holdings = lambda: {"GM amount": market.amount}
    return broker, market, prices, holdings


def case_gmx2_deposit_long():
    broker, market, prices, holdings = gmx2_setup()
    return Ctx(broker, prices, holdings, lambda: market.deposit(NEG, D(3384)), ["WETH", "USDC"])


def case_gmx2_deposit_short():
    broker, market, prices, holdings = gmx2_setup()
    return Ctx(broker, prices, holdings, lambda: market.deposit(D(1), NEG), ["WETH", "USDC"])


# ----------------------------------------------------------------------------------------------- Squeeth
def squeeth_setup():
    from demeter.squeeth.market import SqueethMarket
    from demeter.uniswap import UniLpMarket, UniV3Pool, UniswapMarketStatus

    weth = TokenInfo("weth", 18)
    osqth = TokenInfo("osqth", 18)
    osqth_pool = MarketInfo("Uni", MarketTypeEnum.uniswap_v3)
    squeeth_key = MarketInfo("Squeeth", MarketTypeEnum.squeeth)
    NORM_FACTOR = D("0.5")
    ETH_PRICE = D(2000)
    TICK = 22073
    ETH_OSQTH = D("0.1100093801915093394962395036")
    broker = Broker()
    uni_market = UniLpMarket(osqth_pool, UniV3Pool(weth, osqth, 0.3, weth))
    market = SqueethMarket(squeeth_key, uni_market)
    broker.add_market(uni_market)
    broker.add_market(market)
    uni_market.set_market_status(
        UniswapMarketStatus(
            timestamp=None,
            data=pd.Series(
                data=[0, 0, 0, TICK, ETH_OSQTH],
                index=["inAmount0", "inAmount1", "currentLiquidity", "closeTick", "price"],
            ),
        ),
        price=None,
    )
    market.set_market_status(
        MarketStatus(
            timestamp=None,
            data=pd.Series(data=[NORM_FACTOR, ETH_PRICE, ETH_OSQTH], index=["norm_factor", "WETH", "OSQTH"]),
        ),
        price=None,
    )
    broker.set_balance(weth, 10)
    broker.set_balance(osqth, D(0))
    prices = {"WETH": ETH_PRICE, "OSQTH": ETH_OSQTH * ETH_PRICE, "USD": D(1)}

    def holdings():
        h = {}
        for k, v in market.vault.items():
            h[f"vault[{v.id}].collateral_amount"] = v.collateral_amount
            h[f"vault[{v.id}].osqth_short_amount"] = v.osqth_short_amount
        return h

    return broker, market, prices, holdings


def case_squeeth_deposit():
    broker, market, prices, holdings = squeeth_setup()
    vault_key, _ = market.open_deposit_mint_by_collat_rate(2, 2)  # existing vault: 2 ETH collateral, 10 oSQTH short
    return Ctx(broker, prices, holdings, lambda: market.deposit(vault_key, eth_value=NEG), ["WETH"])


def case_squeeth_open_amount():
    broker, market, prices, holdings = squeeth_setup()
    return Ctx(
        broker,
        prices,
        holdings,
        lambda: market.open_deposit_mint_by_collat_rate(deposit_eth_amount=NEG, collateral_rate=D(2)),
        ["WETH"],
    )


def case_squeeth_open_rate():
    broker, market, prices, holdings = squeeth_setup()
    return Ctx(
        broker,
        prices,
        holdings,
        lambda: market.open_deposit_mint_by_collat_rate(deposit_eth_amount=D(2), collateral_rate=D(-2)),
        [],  # the negative parameter is a ratio; the 2 ETH collateral debit is the sane part of the call
    )


# ----------------------------------------------------------------------------------------------- Uniswap v3 LP
def uni_setup(with_position=False, pending=False):
    import demeter
    from demeter.uniswap import UniLpMarket, UniV3Pool, UniswapMarketStatus

    eth = TokenInfo(name="eth", decimal=18)
    usdc = TokenInfo(name="usdc", decimal=6)
    pool = UniV3Pool(usdc, eth, 0.05, usdc)
    key = MarketInfo("market1")
    broker = Broker()
    market = UniLpMarket(key, pool)
    broker.add_market(market)
    tick = 200000
    price = market.tick_to_price(tick)
    market.set_market_status(
        UniswapMarketStatus(
            timestamp=None,
            data=pd.Series(
                data=[840860039126296093, 18714189922, 58280013108171131649, tick, price],
                index=["inAmount0", "inAmount1", "currentLiquidity", "closeTick", "price"],
            ),
        ),
        price=None,
    )
    # same funding as tests/uni_lp_market_test.py : 1 eth + its value in usdc
    broker.set_balance(eth, 1)
    broker.set_balance(usdc, price)
    market.sqrt_price = demeter.uniswap.helper.tick_to_sqrt_price_x96(tick)
    prices = {"ETH": D(price), "USDC": D(1)}
    pos = None
    if with_position:
        pos, _, _, _ = market.add_liquidity(price - 100, price + 100, price / 2, D("0.5"))
        if pending:
            market.positions[pos].pending_amount0 = D(10)  # 10 usdc of fees pending (set by hand)
            market.positions[pos].pending_amount1 = D("0.01")  # 0.01 eth of fees pending

    def holdings():
        h = {}
        for k, v in market.positions.items():
            name = f"position[{k.lower_tick},{k.upper_tick}]"
            h[name + ".liquidity"] = v.liquidity
            h[name + ".pending_amount0"] = v.pending_amount0
            h[name + ".pending_amount1"] = v.pending_amount1
        return h

    return broker, market, eth, usdc, price, prices, holdings, pos


def case_uni_sell():
    broker, market, eth, usdc, price, prices, holdings, _ = uni_setup()
    return Ctx(broker, prices, holdings, lambda: market.sell(NEG), ["ETH"])


def case_uni_buy():
    broker, market, eth, usdc, price, prices, holdings, _ = uni_setup()
    return Ctx(broker, prices, holdings, lambda: market.buy(NEG), ["USDC"])


def case_uni_swap():
    broker, market, eth, usdc, price, prices, holdings, _ = uni_setup()
    return Ctx(broker, prices, holdings, lambda: market.swap(NEG, usdc, eth), ["USDC"])


def case_uni_add_by_value():
    broker, market, eth, usdc, price, prices, holdings, _ = uni_setup()
    lower, upper = 199000, 201000  # current tick 200000 is inside
    return Ctx(
        broker, prices, holdings, lambda: market.add_liquidity_by_value(lower, upper, value_to_use=NEG), ["ETH", "USDC"]
    )


def case_uni_add_base():
    broker, market, eth, usdc, price, prices, holdings, _ = uni_setup()
    return Ctx(
        broker,
        prices,
        holdings,
        lambda: market.add_liquidity(price - 100, price + 100, quote_max_amount=price, base_max_amount=NEG),
        ["ETH", "USDC"],
    )


def case_uni_add_quote():
    broker, market, eth, usdc, price, prices, holdings, _ = uni_setup()
    return Ctx(
        broker,
        prices,
        holdings,
        lambda: market.add_liquidity(price - 100, price + 100, quote_max_amount=NEG, base_max_amount=D(1)),
        ["ETH", "USDC"],
    )


def case_uni_add_tick_base():
    broker, market, eth, usdc, price, prices, holdings, _ = uni_setup()
    return Ctx(broker, prices, holdings,
               lambda: market.add_liquidity_by_tick(199000, 201000, base_max_amount=NEG, quote_max_amount=price), ["ETH", "USDC"])


def case_uni_add_tick_quote():
    broker, market, eth, usdc, price, prices, holdings, _ = uni_setup()
    return Ctx(broker, prices, holdings,
               lambda: market.add_liquidity_by_tick(199000, 201000, base_max_amount=D(1), quote_max_amount=NEG), ["ETH", "USDC"])


def case_uni_remove():
    broker, market, eth, usdc, price, prices, holdings, pos = uni_setup(with_position=True)
    return Ctx(broker, prices, holdings, lambda: market.remove_liquidity(pos, liquidity=-5), [])


def case_uni_collect():
    broker, market, eth, usdc, price, prices, holdings, pos = uni_setup(with_position=True, pending=True)
    return Ctx(broker, prices, holdings, lambda: market.collect_fee(pos, max_collect_amount0=NEG), [])


# ----------------------------------------------------------------------------------------------- main
CASES = [
    ("Broker.add_to_balance", "amount", "-5", case_broker_add),
    ("Broker.subtract_from_balance", "amount", "-5", case_broker_sub),
    ("Broker.swap_by_from", "amount", "-5", case_broker_swap_by_from),
    ("Broker.swap_by_to", "amount", "-5", case_broker_swap_by_to),
    ("AaveV3Market.supply", "amount", "-5", case_aave_supply),
    ("AaveV3Market.withdraw", "amount", "-5", case_aave_withdraw),
    ("AaveV3Market.borrow", "amount", "-5", case_aave_borrow),
    ("AaveV3Market.repay", "payback_amount", "-5", case_aave_repay),
    ("DeribitOptionMarket.deposit", "amount", "-5", case_deribit_deposit),
    ("DeribitOptionMarket.withdraw", "amount", "-5", case_deribit_withdraw),
    ("GmxMarket.buy_glp", "amount", "-5", case_gmx1_buy),
    ("GmxMarket.sell_glp", "glp_amount", "-5", case_gmx1_sell),
    ("GmxV2Market.deposit", "long_amount", "-5", case_gmx2_deposit_long),
    ("GmxV2Market.deposit", "short_amount", "-5", case_gmx2_deposit_short),
    ("SqueethMarket.deposit", "eth_value", "-5", case_squeeth_deposit),
    ("SqueethMarket.open_deposit_mint_by_collat_rate", "deposit_eth_amount", "-5", case_squeeth_open_amount),
    ("SqueethMarket.open_deposit_mint_by_collat_rate", "collateral_rate", "-2", case_squeeth_open_rate),
    ("UniLpMarket.sell", "base_token_amount", "-5", case_uni_sell),
    ("UniLpMarket.buy", "base_token_amount", "-5", case_uni_buy),
    ("UniLpMarket.swap", "from_amount", "-5", case_uni_swap),
    ("UniLpMarket.add_liquidity_by_value", "value_to_use", "-5", case_uni_add_by_value),
    ("UniLpMarket.add_liquidity", "base_max_amount", "-5", case_uni_add_base),
    ("UniLpMarket.add_liquidity", "quote_max_amount", "-5", case_uni_add_quote),
    ("UniLpMarket.add_liquidity_by_tick", "base_max_amount", "-5", case_uni_add_tick_base),
    ("UniLpMarket.add_liquidity_by_tick", "quote_max_amount", "-5", case_uni_add_tick_quote),
    ("UniLpMarket.remove_liquidity", "liquidity", "-5", case_uni_remove),
    ("UniLpMarket.collect_fee", "max_collect_amount0", "-5", case_uni_collect),
]


def main():
    for op, param, value, builder in CASES:
        try:
            run_case(op, param, value, builder)
        except BaseException as e:  # never let one case stop the others
            print(f"CASE {op}({param}={value}): NOT-CONSTRUCTED harness error {type(e).__name__}: {one_line(e)}")
            traceback.print_exc(file=sys.stderr)
    print("CONFIRMED: " + ", ".join(CONFIRMED))


if __name__ == "__main__":
    try:
        main()
    except BaseException:
        traceback.print_exc(file=sys.stderr)
    sys.stdout.flush()
    os._exit(0)
