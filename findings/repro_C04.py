"""Triage material (NOT part of any check): reproduces, against the real code, the C04 findings that are
recorded as known findings.  Run: cd /repo && /venv/bin/python /verif/findings/repro_C04.py"""
import sys, os
sys.path.insert(0, os.getcwd())
from decimal import Decimal
import pandas as pd
from demeter import MarketStatus, TokenInfo, Broker, MarketInfo, MarketTypeEnum, DemeterError
from demeter.squeeth import VaultKey
from demeter.squeeth.market import SqueethMarket
from demeter.uniswap import UniLpMarket, UniV3Pool, UniswapMarketStatus

weth = TokenInfo("weth", 18); oSQTH = TokenInfo("osqth", 18)
NORM_FACTOR = Decimal("0.5"); ETH_PRICE = Decimal(2000); TICK = 22073
ETH_OSQTH = Decimal("0.1100093801915093394962395036"); OSQTH_ETH = Decimal("9.090133934571346")

def get_broker():
    broker = Broker()
    uni = UniLpMarket(MarketInfo("Uni", MarketTypeEnum.uniswap_v3), UniV3Pool(weth, oSQTH, 0.3, weth))
    sq = SqueethMarket(MarketInfo("Squeeth", MarketTypeEnum.squeeth), uni)
    broker.add_market(uni); broker.add_market(sq)
    uni.set_market_status(UniswapMarketStatus(timestamp=None, data=pd.Series(
        data=[0, 0, 0, TICK, ETH_OSQTH], index=["inAmount0", "inAmount1", "currentLiquidity", "closeTick", "price"])), price=None)
    sq.set_market_status(MarketStatus(timestamp=None, data=pd.Series(
        data=[NORM_FACTOR, ETH_PRICE, ETH_OSQTH], index=["norm_factor", "WETH", "OSQTH"])), price=None)
    broker.set_balance(weth, 10); broker.set_balance(oSQTH, OSQTH_ETH * 10)
    return broker, uni, sq

def snap(broker, sq):
    return (dict((k.name, v.balance) for k, v in broker.assets.items()),
            dict((k.id, (v.collateral_amount, v.osqth_short_amount, v.uni_nft_id)) for k, v in sq.vault.items()), sq._max_vault_id)

results = []
def case(name, fn):
    broker, uni, sq = get_broker()
    acts = []
    for m in (uni, sq): m._record_action_callback = acts.append
    pre = fn(broker, uni, sq, "setup")
    acts.clear()
    before = snap(broker, sq)
    try:
        fn(broker, uni, sq, "op")
        rejected = False
    except (DemeterError, AssertionError) as e:
        rejected = True
    after = snap(broker, sq)
    changed = before != after or len(acts) > 0
    results.append((name, rejected, changed))
    print(f"{name}: rejected={rejected} state_changed_after_rejection={changed} actions_logged={len(acts)}")
    if changed: print("   before", before); print("   after ", after)

# 1. unsafe mint: open_deposit_mint with far too much oSQTH for the collateral -> rejected by _check_vault
def unsafe_mint(b, u, s, phase):
    if phase == "op": s.open_deposit_mint(Decimal(2), Decimal(1000))
case("squeeth.open_deposit_mint (unsafe mint)", unsafe_mint)
# 2. deposit more WETH than the wallet has, after minting
def short_wallet(b, u, s, phase):
    if phase == "op": s.open_deposit_mint(Decimal(100), Decimal(10))
case("squeeth.open_deposit_mint (wallet short for deposit)", short_wallet)
# 3. withdraw collateral that makes the vault unsafe
def unsafe_withdraw(b, u, s, phase):
    if phase == "setup": s.open_deposit_mint(Decimal(2), Decimal(10))
    else: s.burn_and_withdraw(VaultKey(1), Decimal(0), Decimal("1.9"))
case("squeeth.burn_and_withdraw (unsafe withdrawal)", unsafe_withdraw)
# 4. burn more oSQTH than the wallet holds
def burn_short(b, u, s, phase):
    if phase == "setup":
        s.open_deposit_mint(Decimal(2), Decimal(10)); b.set_balance(oSQTH, 1)
    else: s.burn_and_withdraw(VaultKey(1), Decimal(5), Decimal(0))
case("squeeth.burn_and_withdraw (wallet short of oSQTH)", burn_short)
# 5. withdraw LP position that leaves the vault unsafe
def unsafe_lp_withdraw(b, u, s, phase):
    if phase == "setup":
        pos, *_ = u.add_liquidity_by_tick(TICK - 1000, TICK + 1000, 9999, 3)
        s.open_deposit_mint(Decimal("0.6"), Decimal(12), None, pos)
        unsafe_lp_withdraw.pos = pos
    else: s.withdraw_uni_position(VaultKey(1), unsafe_lp_withdraw.pos)
case("squeeth.withdraw_uni_position (unsafe)", unsafe_lp_withdraw)
# 6. Uniswap add: token0 ok, token1 short -> token0 stays debited
def partial_debit(b, u, s, phase):
    if phase == "setup": b.set_balance(oSQTH, 1)
    else: u.add_liquidity_by_tick(TICK - 1000, TICK + 1000, 9999, 3)
case("uniswap.add_liquidity_by_tick (token0 paid, token1 short)", partial_debit)
bad = [r for r in results if r[1] and r[2]]
print(f"{len(bad)}/{len(results)} rejected operations changed state")
