import sys, os
sys.path.insert(0, "/repo"); sys.path.insert(0, "/repo/tests")
os.chdir("/repo/tests")
import squeeth_market_test as T
from decimal import Decimal
from demeter.squeeth import SqueethMarket
t = T.TestSqueethMarket()
broker = t.get_broker()
market = broker.markets[T.squeeth_key]
pos_key, lp_osqth_used, lp_eth_used, _ = market.squeeth_uni_pool.add_liquidity_by_tick(T.TICK - 1000, T.TICK + 1000, 9999, 1)
print("LP used: osqth", lp_osqth_used, "eth", lp_eth_used)
base_used_in_eth = lp_osqth_used / SqueethMarket.INDEX_SCALE * market.get_norm_factor() * market.get_twap_price(T.weth)
osqth_to_mint = market.collateral_amount_to_osqth(base_used_in_eth + lp_eth_used, 1.500001)
vault_key, minted = market.open_deposit_mint(0, osqth_to_mint, uni_position=pos_key)
amt0, amt1 = market.squeeth_uni_pool.get_position_amount(pos_key)
print("position holds: token0(weth)", amt0, "token1(osqth)", amt1)
burn, excess, bounty, eth_collected = market._reduce_debt(vault_key, False)
print("reduce_debt: burn", burn, "excess", excess, "eth_collected", eth_collected)
v = market.vault[vault_key]
print("vault collateral", v.collateral_amount, "short", v.osqth_short_amount, "minted", minted)
ok = abs(eth_collected - amt0) < Decimal("1e-6") and abs(burn + excess - amt1) < Decimal("1e-6")
print("OK" if ok else "SWAPPED: the vault was credited the LP's oSQTH amount as ETH collateral and burned the LP's ETH amount as oSQTH")
sys.exit(0 if ok else 1)
