"""Program model: modules, classes, functions, imports, MRO, field types.

Loader parses every ``demeter/**/*.py`` under the root with ``ast``.  An optional
in-memory overlay ``{relpath: source}`` replaces file contents (used only by the
checker's self-validation so that variants need no files on disk).
"""
from __future__ import annotations

import ast
import os
from typing import Dict, List, Optional, Tuple


class AnalysisError(Exception):
    """The machinery cannot decide (missing anchor, unreadable shape...). Exit 2."""


class Module:
    def __init__(self, name: str, relpath: str, src: str, is_pkg: bool):
        self.name = name
        self.relpath = relpath
        self.src = src
        self.is_pkg = is_pkg
        try:
            self.tree = ast.parse(src, filename=relpath)
        except SyntaxError as e:  # pragma: no cover
            raise AnalysisError(f"parse error in {relpath}: {e}")
        self.lines = src.splitlines()
        self.imports: Dict[str, tuple] = {}  # local name -> ('mod', modname) | ('sym', modname, symbol)
        self.classes: Dict[str, "ClassInfo"] = {}
        self.funcs: Dict[str, "FuncInfo"] = {}
        self.consts: Dict[str, ast.expr] = {}
        self.star_imports: List[str] = []
        for node in ast.walk(self.tree):
            for ch in ast.iter_child_nodes(node):
                ch._parent = node  # type: ignore[attr-defined]

    @property
    def package(self) -> str:
        return self.name if self.is_pkg else self.name.rpartition(".")[0]

    def text(self, node: ast.AST) -> str:
        try:
            return ast.unparse(node)
        except Exception:  # pragma: no cover
            return "<?>"


from . import cover as _cover


class FuncInfo:
    def __init__(self, module: Module, cls: Optional["ClassInfo"], node: ast.FunctionDef):
        self.module = module
        self.cls = cls
        self.node = node
        self.name = node.name
        self.decorators = [_dec_name(d) for d in node.decorator_list]
        self.is_property = "property" in self.decorators
        self.is_setter = any(d.endswith(".setter") for d in self.decorators)
        self.is_static = "staticmethod" in self.decorators
        self.is_classmethod = "classmethod" in self.decorators
        self.is_abstract = "abstractmethod" in self.decorators
        a = node.args
        self.params: List[str] = [x.arg for x in a.posonlyargs + a.args]
        self.kwonly: List[str] = [x.arg for x in a.kwonlyargs]
        self.vararg = a.vararg.arg if a.vararg else None
        self.kwarg = a.kwarg.arg if a.kwarg else None
        self.defaults: Dict[str, ast.expr] = {}
        pos = a.posonlyargs + a.args
        for p, d in zip(pos[len(pos) - len(a.defaults):], a.defaults):
            self.defaults[p.arg] = d
        for p, d in zip(a.kwonlyargs, a.kw_defaults):
            if d is not None:
                self.defaults[p.arg] = d
        self.annotations: Dict[str, ast.expr] = {
            x.arg: x.annotation for x in pos + a.kwonlyargs if x.annotation is not None
        }

    @property
    def qualname(self) -> str:
        if self.cls is not None:
            return f"{self.cls.name}.{self.name}"
        return f"{self.module.name.split('.', 1)[-1]}.{self.name}"

    @property
    def is_method(self) -> bool:
        return self.cls is not None and not self.is_static

    def loc(self, node: Optional[ast.AST] = None) -> str:
        n = node if node is not None else self.node
        _cover.anchor(self)
        return f"{self.module.relpath}:{getattr(n, 'lineno', 0)}"

    def __repr__(self):
        return f"<Func {self.qualname}>"


class ClassInfo:
    def __init__(self, module: Module, node: ast.ClassDef):
        self.module = module
        self.node = node
        self.name = node.name
        self.base_exprs = list(node.bases)
        self.bases: List["ClassInfo"] = []
        self.methods: Dict[str, FuncInfo] = {}
        self.setters: Dict[str, FuncInfo] = {}
        self.consts: Dict[str, ast.expr] = {}
        self.field_ann: Dict[str, ast.expr] = {}  # class-level annotated fields (dataclasses)
        self.field_defaults: Dict[str, ast.expr] = {}  # defaults of annotated fields (NOT constants)
        self.is_dataclass = any(_dec_name(d).split(".")[-1] == "dataclass" for d in node.decorator_list)
        for st in node.body:
            if isinstance(st, (ast.FunctionDef, ast.AsyncFunctionDef)):
                fi = FuncInfo(module, self, st)
                if fi.is_setter:
                    self.setters[st.name] = fi
                else:
                    self.methods[st.name] = fi
            elif isinstance(st, ast.Assign):
                for t in st.targets:
                    if isinstance(t, ast.Name):
                        self.consts[t.id] = st.value
            elif isinstance(st, ast.AnnAssign) and isinstance(st.target, ast.Name):
                self.field_ann[st.target.id] = st.annotation
                if st.value is not None:
                    self.field_defaults[st.target.id] = st.value

    def __repr__(self):
        return f"<Class {self.name}>"


def _dec_name(d: ast.expr) -> str:
    if isinstance(d, ast.Call):
        d = d.func
    if isinstance(d, ast.Name):
        return d.id
    if isinstance(d, ast.Attribute):
        return _dec_name(d.value) + "." + d.attr
    return "?"


# Field types that the source does not annotate (confirmed by reading).
FIELD_TYPE_OVERRIDES = {
    ("Market", "broker"): "Broker",
    ("SqueethMarket", "_squeeth_uni_pool"): "UniLpMarket",
    ("Actuator", "_broker"): "Broker",
    ("Actuator", "_strategy"): "Strategy",
    ("Actuator", "_currents"): "Currents",
    ("Strategy", "broker"): "Broker",
    ("Market", "_market_status"): "MarketStatus",
}


class Model:
    def __init__(self, root: str = "/repo", overlay: Optional[Dict[str, str]] = None, pkg: str = "demeter"):
        self.root = root
        self.pkg = pkg
        self.modules: Dict[str, Module] = {}
        self.classes: Dict[str, ClassInfo] = {}  # by simple name (unique in this repo, checked)
        self.dup_classes: Dict[str, List[ClassInfo]] = {}
        overlay = overlay or {}
        base = os.path.join(root, pkg)
        if not os.path.isdir(base):
            raise AnalysisError(f"package directory {base} not found")
        for dp, dn, fn in os.walk(base):
            dn[:] = sorted(d for d in dn if d != "__pycache__")
            for f in sorted(fn):
                if not f.endswith(".py"):
                    continue
                full = os.path.join(dp, f)
                rel = os.path.relpath(full, root)
                if rel in overlay:
                    src = overlay[rel]
                else:
                    with open(full, encoding="utf-8") as fh:
                        src = fh.read()
                parts = rel[:-3].split(os.sep)
                is_pkg = parts[-1] == "__init__"
                if is_pkg:
                    parts = parts[:-1]
                name = ".".join(parts)
                self.modules[name] = Module(name, rel, src, is_pkg)
        for rel in overlay:
            if not any(m.relpath == rel for m in self.modules.values()):
                raise AnalysisError(f"overlay path {rel} not in package")
        for m in self.modules.values():
            self._index_module(m)
        for c in list(self.classes.values()) + [x for l in self.dup_classes.values() for x in l]:
            self._link_bases(c)
        self._mro_cache: Dict[int, List[ClassInfo]] = {}
        self._ftype_cache: Dict[Tuple[str, str], object] = {}
        # world assumptions (see rules/world.py): names mean their definitions.  Rebindings that can be followed are
        # followed here (last binding wins, like in Python); what cannot be followed is recorded and reported by R-WORLD.
        self.world: List[dict] = []
        self.followed: List[str] = []
        self._apply_rebindings()
        self._mro_cache.clear()

    # ------------------------------------------------------------ rebindings
    def _world(self, kind, severity, where, target_path, symbol, msg):
        self.world.append({"kind": kind, "severity": severity, "where": where, "target_path": target_path, "symbol": symbol, "msg": msg})

    @staticmethod
    def _top_stmts(body):
        for st in body:
            yield st
            if isinstance(st, (ast.If, ast.Try)):
                subs = [x for x in ast.iter_child_nodes(st) if isinstance(x, ast.stmt)]
                for h in getattr(st, "handlers", []):
                    subs += h.body
                yield from Model._top_stmts(subs)

    def _unwrap_callable(self, m: Module, c: Optional[ClassInfo], v: ast.expr):
        """value of a rebinding -> (FuncInfo, forced_static) | None.  `staticmethod(f)` / `classmethod(f)` are unwrapped."""
        forced = None
        if isinstance(v, ast.Call) and isinstance(v.func, ast.Name) and v.func.id in ("staticmethod", "classmethod") and len(v.args) == 1:
            forced = v.func.id
            v = v.args[0]
        r = None
        if isinstance(v, ast.Name) and c is not None and v.id in c.methods:
            r = c.methods[v.id]
        elif isinstance(v, (ast.Name, ast.Attribute)):
            r = self.resolve_expr_symbol(m, v)
        if isinstance(r, FuncInfo):
            return r, forced
        return None

    def _bind_method(self, c: ClassInfo, name: str, f: FuncInfo, forced, where: str, how: str):
        if f.cls is not c or forced:
            node = f.node
            first = node.args.args[0].arg if node.args.args else None
            if forced is None and f.cls is None and first not in (None, "self") and not any(
                    isinstance(x, ast.Name) and x.id == "self" for x in ast.walk(node)):
                # a module-level function bound as a method: its first parameter IS the receiver, whatever it is called
                import copy as _copy
                node = _copy.deepcopy(node)
                for x in ast.walk(node):
                    if isinstance(x, ast.Name) and x.id == first:
                        x.id = "self"
                    elif isinstance(x, ast.arg) and x.arg == first:
                        x.arg = "self"
                    for ch in ast.iter_child_nodes(x):
                        ch._parent = x  # type: ignore[attr-defined]
                node._parent = getattr(f.node, "_parent", None)  # type: ignore[attr-defined]
            nf = FuncInfo(f.module, c, node)
            if forced == "staticmethod":
                nf.is_static = True
            elif forced == "classmethod":
                nf.is_classmethod = True
            elif f.cls is not None and f.cls is not c:
                nf.is_static, nf.is_classmethod, nf.is_property = f.is_static, f.is_classmethod, f.is_property
            f = nf
        c.methods[name] = f
        self.followed.append(f"{where}: {c.name}.{name} is {how} `{f.node.name}` ({f.module.relpath}:{f.node.lineno}); the analysis follows the last binding")

    def _apply_rebindings(self):
        # 1. a name bound by `def` / `class` and bound again later in the same namespace
        for m in self.modules.values():
            order: Dict[str, list] = {}
            for st in self._top_stmts(m.tree.body):
                if isinstance(st, (ast.FunctionDef, ast.AsyncFunctionDef, ast.ClassDef)):
                    order.setdefault(st.name, []).append(("def", st))
                elif isinstance(st, ast.Assign):
                    for t in st.targets:
                        for tt in (t.elts if isinstance(t, (ast.Tuple, ast.List)) else [t]):
                            if isinstance(tt, ast.Name):
                                order.setdefault(tt.id, []).append(("assign", st))
                elif isinstance(st, (ast.AnnAssign, ast.AugAssign)) and isinstance(st.target, ast.Name) and getattr(st, "value", None) is not None:
                    order.setdefault(st.target.id, []).append(("assign", st))
                elif isinstance(st, (ast.Import, ast.ImportFrom)):
                    for a in st.names:
                        order.setdefault(a.asname or a.name.split(".")[0], []).append(("import", st))
            nested = {id(x) for st in m.tree.body if isinstance(st, (ast.If, ast.Try)) for x in ast.walk(st) if x is not st}
            for name, evs in order.items():
                defs = [st for k, st in evs if k == "def"]
                if len(defs) >= 2 and any(id(st) in nested for st in defs):
                    # `if <condition>: def f ... else: def f ...` / `try: ... except: def f`: WHICH definition runs is decided
                    # at import time by something the analysis does not evaluate
                    self._world("W1", "refuse", f"{m.relpath}:{defs[-1].lineno}", m.relpath, f"{m.name.split('.', 1)[-1]}.{name}",
                                f"`{name}` has {len(defs)} definitions, at least one under an `if` / `try` at module level: which one runs is "
                                f"decided at import time by a condition the analysis does not evaluate")
                if not any(k == "def" for k, _ in evs):
                    # a pure alias: `old_name = _new_impl` (no def of old_name at all)
                    kind, st = evs[-1]
                    if kind == "assign" and isinstance(st, (ast.Assign, ast.AnnAssign)) and st.value is not None \
                            and not (isinstance(st, ast.Assign) and isinstance(st.targets[0], (ast.Tuple, ast.List))):
                        got = self._unwrap_callable(m, None, st.value)
                        if got is not None and got[1] is None:
                            m.funcs[name] = got[0]
                            m.consts.pop(name, None)
                            self.followed.append(f"{m.relpath}:{st.lineno}: `{name}` is an alias of `{got[0].qualname}`")
                    continue
                if evs[-1][0] == "def":
                    continue
                kind, st = evs[-1]
                where = f"{m.relpath}:{st.lineno}"
                if kind == "import":
                    m.funcs.pop(name, None)
                    m.classes.pop(name, None)
                    self.followed.append(f"{where}: `{name}` is defined and then imported again; the import wins")
                    continue
                val = st.value if not isinstance(st, ast.AugAssign) else None
                got = self._unwrap_callable(m, None, val) if val is not None and isinstance(st, (ast.Assign, ast.AnnAssign)) and \
                    not (isinstance(st, ast.Assign) and isinstance(st.targets[0], (ast.Tuple, ast.List))) else None
                if got is not None and name in m.funcs:
                    f, _ = got
                    if f is not m.funcs[name]:
                        m.funcs[name] = f
                        m.consts.pop(name, None)
                        self.followed.append(f"{where}: `{name}` is rebound to `{f.qualname}`; the analysis follows the last binding")
                    else:
                        m.consts.pop(name, None)
                else:
                    self._world("W1", "refuse", where, m.relpath, f"{m.name.split('.', 1)[-1]}.{name}",
                                f"`{name}` is defined by a def / class statement and rebound afterwards to `{ast.unparse(val)[:60] if val is not None else '?'}`, "
                                f"which the analysis cannot follow: calls of `{name}` no longer run the definition that was analysed")
            for c in m.classes.values():
                for name in [x for x in c.consts if x not in c.methods]:
                    got = self._unwrap_callable(m, c, c.consts[name])
                    if got is not None:
                        st = next((x for x in c.node.body if isinstance(x, ast.Assign) and any(isinstance(t, ast.Name) and t.id == name for t in x.targets)), c.node)
                        self._bind_method(c, name, got[0], got[1], f"{m.relpath}:{st.lineno}", "an alias in the class body of")
                        c.consts.pop(name, None)
                for name in list(c.methods):
                    if name not in c.consts:
                        continue
                    last_assign = max((st for st in c.node.body if isinstance(st, ast.Assign) and any(isinstance(t, ast.Name) and t.id == name for t in st.targets)),
                                      key=lambda s: s.lineno, default=None)
                    last_def = max((st for st in c.node.body if isinstance(st, (ast.FunctionDef, ast.AsyncFunctionDef)) and st.name == name), key=lambda s: s.lineno)
                    if last_assign is None or last_assign.lineno < last_def.lineno:
                        continue
                    where = f"{m.relpath}:{last_assign.lineno}"
                    got = self._unwrap_callable(m, c, last_assign.value)
                    if got is not None:
                        if got[0] is not c.methods[name]:
                            self._bind_method(c, name, got[0], got[1], where, "rebound in the class body to")
                        c.consts.pop(name, None)
                    else:
                        self._world("W1", "refuse", where, m.relpath, f"{c.name}.{name}",
                                    f"{c.name}.{name} is defined by a def statement and rebound in the class body to `{ast.unparse(last_assign.value)[:60]}`, "
                                    f"which the analysis cannot follow")
        # 2. attributes of classes / modules assigned from outside (`Cls.m = f`, `setattr(Cls, 'm', f)`, `module.f = g`)
        for m in self.modules.values():
            top = {id(x) for st in self._top_stmts(m.tree.body) for x in ast.walk(st) if not isinstance(st, (ast.FunctionDef, ast.AsyncFunctionDef, ast.ClassDef))}
            for n in ast.walk(m.tree):
                tgt = val = None
                if isinstance(n, ast.Assign) and len(n.targets) == 1 and isinstance(n.targets[0], ast.Attribute):
                    tgt, attr, val = n.targets[0].value, n.targets[0].attr, n.value
                elif isinstance(n, ast.AugAssign) and isinstance(n.target, ast.Attribute):
                    tgt, attr, val = n.target.value, n.target.attr, None
                elif isinstance(n, ast.Call) and isinstance(n.func, ast.Name) and n.func.id in ("setattr", "delattr") and len(n.args) >= 2:
                    if not (isinstance(n.args[1], ast.Constant) and isinstance(n.args[1].value, str)):
                        tgt, attr, val = n.args[0], None, (n.args[2] if len(n.args) > 2 else None)
                    else:
                        tgt, attr, val = n.args[0], n.args[1].value, (n.args[2] if len(n.args) > 2 else None)
                if tgt is None or not isinstance(tgt, (ast.Name, ast.Attribute)):
                    continue
                if isinstance(tgt, ast.Name) and tgt.id in ("self", "cls"):
                    continue
                fn = enclosing_function(n)
                if fn is not None and isinstance(tgt, ast.Name) and any(a.arg == tgt.id for a in fn.args.args + fn.args.kwonlyargs):
                    continue
                owner = self.resolve_expr_symbol(m, tgt)
                if not isinstance(owner, (ClassInfo, Module)):
                    continue
                where = f"{m.relpath}:{n.lineno}"
                opath = owner.module.relpath if isinstance(owner, ClassInfo) else owner.relpath
                oname = owner.name if isinstance(owner, ClassInfo) else owner.name.split(".", 1)[-1]
                if id(n) in top and attr is not None and val is not None:
                    got = self._unwrap_callable(m, None, val)
                    if got is not None:
                        if isinstance(owner, ClassInfo):
                            self._bind_method(owner, attr, got[0], got[1], where, "assigned from outside the class to")
                        else:
                            owner.funcs[attr] = got[0]
                            owner.consts.pop(attr, None)
                            self.followed.append(f"{where}: {oname}.{attr} is assigned `{got[0].qualname}`; the analysis follows it")
                        continue
                    is_code = (attr in owner.methods or attr in owner.setters) if isinstance(owner, ClassInfo) else (attr in owner.funcs or attr in owner.classes)
                    if not is_code and not isinstance(val, (ast.Lambda, ast.Call)):
                        owner.consts[attr] = val
                        self.followed.append(f"{where}: {oname}.{attr} = {ast.unparse(val)[:40]} assigned at import time; the analysis uses this value")
                        continue
                self._world("W2", "refuse" if id(n) in top else "violation", where, opath, f"{oname}.{attr or '*'}",
                            (f"`{ast.unparse(n)[:80]}` replaces an attribute of {oname} with something the analysis cannot follow" if id(n) in top else
                             f"`{ast.unparse(n)[:80]}` changes an attribute of the class / module object {oname} at run time: "
                             f"every instance, every market and every strategy in the process sees the change from then on"))

    # ------------------------------------------------------------------ index
    def _index_module(self, m: Module):
        for st in m.tree.body:
            self._index_stmt(m, st)

    def _index_stmt(self, m: Module, st: ast.stmt):
        if isinstance(st, ast.Import):
            for a in st.names:
                local = a.asname or a.name.split(".")[0]
                m.imports[local] = ("mod", a.name if a.asname else a.name.split(".")[0])
        elif isinstance(st, ast.ImportFrom):
            if st.level:
                pk = m.package.split(".")
                up = st.level - 1
                basep = pk[: len(pk) - up] if up else pk
                modname = ".".join(basep + ([st.module] if st.module else []))
            else:
                modname = st.module or ""
            for a in st.names:
                if a.name == "*":
                    m.star_imports.append(modname)
                    continue
                local = a.asname or a.name
                m.imports[local] = ("sym", modname, a.name)
        elif isinstance(st, ast.ClassDef):
            ci = ClassInfo(m, st)
            m.classes[st.name] = ci
            if st.name in self.classes:
                self.dup_classes.setdefault(st.name, [self.classes[st.name]]).append(ci)
            else:
                self.classes[st.name] = ci
        elif isinstance(st, (ast.FunctionDef, ast.AsyncFunctionDef)):
            m.funcs[st.name] = FuncInfo(m, None, st)
        elif isinstance(st, ast.Assign):
            for t in st.targets:
                if isinstance(t, ast.Name):
                    m.consts[t.id] = st.value
        elif isinstance(st, ast.AnnAssign) and isinstance(st.target, ast.Name) and st.value is not None:
            m.consts[st.target.id] = st.value
        elif isinstance(st, (ast.If, ast.Try)):
            for sub in ast.iter_child_nodes(st):
                if isinstance(sub, ast.stmt):
                    self._index_stmt(m, sub)

    def _link_bases(self, c: ClassInfo):
        c.bases = []
        for b in c.base_exprs:
            r = self.resolve_expr_symbol(c.module, b)
            if isinstance(r, ClassInfo):
                c.bases.append(r)

    # --------------------------------------------------------------- resolve
    def resolve_name(self, m: Module, name: str, _seen=None):
        """Resolve a module-level name to ClassInfo | FuncInfo | Module | ('const', Module, expr) | None."""
        _seen = _seen or set()
        key = (m.name, name)
        if key in _seen:
            return None
        _seen.add(key)
        if name in m.classes:
            return m.classes[name]
        if name in m.funcs:
            return m.funcs[name]
        if name in m.consts and name not in m.imports:
            return ("const", m, m.consts[name])
        imp = m.imports.get(name)
        if imp is None:
            for sm in m.star_imports:
                t = self.modules.get(sm)
                if t is not None:
                    r = self.resolve_name(t, name, _seen)
                    if r is not None:
                        return r
            return None
        if imp[0] == "mod":
            return self.modules.get(imp[1])
        _, modname, sym = imp
        target = self.modules.get(modname)
        if target is None:
            return None
        sub = self.modules.get(modname + "." + sym)
        r = self.resolve_name(target, sym, _seen)
        if r is not None:
            return r
        return sub

    def resolve_expr_symbol(self, m: Module, e: ast.expr):
        if isinstance(e, ast.Name):
            return self.resolve_name(m, e.id)
        if isinstance(e, ast.Attribute):
            base = self.resolve_expr_symbol(m, e.value)
            if isinstance(base, Module):
                return self.resolve_name(base, e.attr)
            if isinstance(base, ClassInfo):
                f = self.find_method(base, e.attr)
                if f is not None:
                    return f
                c = self.class_const(base, e.attr)
                if c is not None:
                    return ("const", c[0].module, c[1])
            return None
        if isinstance(e, ast.Subscript):
            return self.resolve_expr_symbol(m, e.value)
        return None

    # ------------------------------------------------------------------- MRO
    def mro(self, c: ClassInfo) -> List[ClassInfo]:
        k = id(c)
        if k in self._mro_cache:
            return self._mro_cache[k]
        out = [c]
        for b in c.bases:
            for x in self.mro(b):
                if x not in out:
                    out.append(x)
        self._mro_cache[k] = out
        return out

    def is_subclass(self, c: Optional[ClassInfo], name: str) -> bool:
        return c is not None and any(x.name == name for x in self.mro(c))

    def subclasses(self, name: str) -> List[ClassInfo]:
        allc = list(self.classes.values()) + [x for l in self.dup_classes.values() for x in l[1:]]
        return [c for c in allc if c.name != name and self.is_subclass(c, name)]

    def find_method(self, c: ClassInfo, name: str, after: Optional[ClassInfo] = None) -> Optional[FuncInfo]:
        mro = self.mro(c)
        if after is not None and after in mro:
            mro = mro[mro.index(after) + 1:]
        for k in mro:
            if name in k.methods:
                return k.methods[name]
        return None

    def find_setter(self, c: ClassInfo, name: str) -> Optional[FuncInfo]:
        for k in self.mro(c):
            if name in k.setters:
                return k.setters[name]
        return None

    def class_const(self, c: ClassInfo, name: str):
        for k in self.mro(c):
            if name in k.consts:
                return k, k.consts[name]
        return None

    def cls(self, name: str) -> ClassInfo:
        c = self.classes.get(name)
        if c is None:
            raise AnalysisError(f"anchor class {name} not found")
        return c

    def func(self, qual: str) -> FuncInfo:
        """'Class.method' or 'pkg.module.func' (module path relative to the package)."""
        head, _, tail = qual.rpartition(".")
        if head in self.classes:
            f = self.find_method(self.classes[head], tail)
            if f is None:
                raise AnalysisError(f"anchor method {qual} not found")
            _cover.anchor(f)
            return f
        m = self.modules.get(self.pkg + "." + head) or self.modules.get(head)
        if m is not None and tail not in m.funcs:
            r = self.resolve_name(m, tail)      # moved to another module and re-exported under the old name
            if isinstance(r, FuncInfo):
                _cover.anchor(r)
                return r
        if m is None or tail not in m.funcs:
            raise AnalysisError(f"anchor function {qual} not found")
        _cover.anchor(m.funcs[tail])
        return m.funcs[tail]

    def all_functions(self) -> List[FuncInfo]:
        out = []
        for m in self.modules.values():
            out.extend(m.funcs.values())
            for c in m.classes.values():
                out.extend(c.methods.values())
                out.extend(c.setters.values())
        return out

    # ---------------------------------------------------------------- types
    def parse_type(self, m: Module, ann: Optional[ast.expr]):
        """Annotation -> ClassInfo | ('map', T) | ('seq', T) | None."""
        if ann is None:
            return None
        if isinstance(ann, ast.Constant) and isinstance(ann.value, str):
            try:
                ann = ast.parse(ann.value, mode="eval").body
            except SyntaxError:
                return None
        if isinstance(ann, ast.BinOp) and isinstance(ann.op, ast.BitOr):
            l = self.parse_type(m, ann.left)
            r = self.parse_type(m, ann.right)
            return l if l is not None else r
        if isinstance(ann, (ast.Name, ast.Attribute)):
            r = self.resolve_expr_symbol(m, ann)
            return r if isinstance(r, ClassInfo) else None
        if isinstance(ann, ast.Subscript):
            base = ann.value
            bname = base.id if isinstance(base, ast.Name) else (base.attr if isinstance(base, ast.Attribute) else "")
            sl = ann.slice
            args = list(sl.elts) if isinstance(sl, ast.Tuple) else [sl]
            if bname in ("Optional", "Union"):
                for a in args:
                    t = self.parse_type(m, a)
                    if t is not None:
                        return t
                return None
            if bname.endswith("Dict") or bname in ("dict", "Mapping"):
                return ("map", self.parse_type(m, args[-1]))
            if bname in ("List", "list", "Set", "set", "Iterable", "Sequence"):
                return ("seq", self.parse_type(m, args[0]))
            if bname in ("Tuple", "tuple"):
                return ("tuple", tuple(self.parse_type(m, a) for a in args))
        return None

    def field_type(self, c: ClassInfo, field: str):
        key = (c.name, field)
        if key in self._ftype_cache:
            return self._ftype_cache[key]
        res = None
        if True:
            for k in self.mro(c):
                if field in k.field_ann:
                    res = self.parse_type(k.module, k.field_ann[field])
                    if res is not None:
                        break
                init = k.methods.get("__init__")
                if init is None:
                    continue
                found = None
                for n in ast.walk(init.node):
                    tgt = val = ann = None
                    if isinstance(n, ast.AnnAssign):
                        tgt, val, ann = n.target, n.value, n.annotation
                    elif isinstance(n, ast.Assign) and len(n.targets) == 1:
                        tgt, val = n.targets[0], n.value
                    if (
                        isinstance(tgt, ast.Attribute)
                        and isinstance(tgt.value, ast.Name)
                        and tgt.value.id == "self"
                        and tgt.attr == field
                    ):
                        t = self.parse_type(k.module, ann) if ann is not None else None
                        if t is None and isinstance(val, ast.Call):
                            r = self.resolve_expr_symbol(k.module, val.func)
                            if isinstance(r, ClassInfo):
                                t = r
                        if t is None and isinstance(val, ast.Name) and val.id in init.annotations:
                            t = self.parse_type(k.module, init.annotations[val.id])
                        if t is not None:
                            found = t
                            break
                if found is not None:
                    res = found
                    break
        if res is None:
            for k in self.mro(c):
                ov = FIELD_TYPE_OVERRIDES.get((k.name, field))
                if ov and ov in self.classes:
                    res = self.classes[ov]
                    break
        self._ftype_cache[key] = res
        return res

    def fields_assigned_in_init(self, c: ClassInfo) -> Dict[str, Tuple[ClassInfo, ast.AST]]:
        out: Dict[str, Tuple[ClassInfo, ast.AST]] = {}
        for k in reversed(self.mro(c)):
            init = k.methods.get("__init__")
            if init is None:
                continue
            for n in ast.walk(init.node):
                tgts = []
                if isinstance(n, ast.Assign):
                    tgts = n.targets
                elif isinstance(n, ast.AnnAssign):
                    tgts = [n.target]
                for t in tgts:
                    for tt in (t.elts if isinstance(t, ast.Tuple) else [t]):
                        if isinstance(tt, ast.Attribute) and isinstance(tt.value, ast.Name) and tt.value.id == "self":
                            out[tt.attr] = (k, n)
        return out


def enclosing_function(node: ast.AST) -> Optional[ast.AST]:
    p = getattr(node, "_parent", None)
    while p is not None and not isinstance(p, (ast.FunctionDef, ast.AsyncFunctionDef)):
        p = getattr(p, "_parent", None)
    return p
