"""CLI: python -m sa.check <Cxx|all> [--tier quick|thorough] [--root DIR] [--replay FILE]

Exit 0: property held on everything analysed (known findings printed).
Exit 1: `VIOLATION property=<id> replay=<path>` for an unlisted violation.
Exit 2: `ANALYSIS-ERROR` - the machinery could not decide (never a silent pass).
"""
from __future__ import annotations

import argparse
import importlib
import json
import os
import sys
import time
import traceback

from .model import AnalysisError, Model
from .report import finish

ALL = [f"C{i:02d}" for i in range(1, 21)]


def run_one(pid: str, root: str, tier: str, seed: int, write_evidence: bool = True, quiet: bool = False,
            overlay=None):
    t0 = time.time()
    mod = importlib.import_module(f"sa.props.{pid}")
    model = Model(root, overlay=overlay)
    res = mod.run(model, tier)
    if tier == "thorough" and overlay is None:
        from .selfcheck import selfcheck
        res.selfcheck = selfcheck(pid, model, root, seed, res)
    return finish(res, tier, seed, time.time() - t0, write_evidence=write_evidence, quiet=quiet), res


def main(argv=None) -> int:
    try:
        import signal
        signal.signal(signal.SIGPIPE, signal.SIG_DFL)
    except Exception:  # pragma: no cover
        pass
    ap = argparse.ArgumentParser()
    ap.add_argument("prop")
    ap.add_argument("--tier", default=os.environ.get("VERIF_TIER", "quick"))
    ap.add_argument("--root", default=os.environ.get("DEMETER_ROOT", "/repo"))
    ap.add_argument("--replay", default=None)
    ap.add_argument("--no-evidence", action="store_true")
    a = ap.parse_args(argv)
    tier = a.tier if a.tier in ("quick", "thorough") else "quick"
    try:
        seed = int(os.environ.get("VERIF_SEED", "0"))
    except ValueError:
        seed = 0
    if a.replay:
        with open(a.replay) as fh:
            rep = json.load(fh)
        print(f"replay: re-running {rep['property']} rule {rep['rule']} for {rep['function']}")
        print(json.dumps(rep, indent=1))
        pids = [rep["property"]]
    else:
        pids = ALL if a.prop == "all" else [a.prop]
    rc = 0
    for pid in pids:
        try:
            code, _ = run_one(pid, a.root, tier, seed, write_evidence=not a.no_evidence)
        except AnalysisError as e:
            print(f"ANALYSIS-ERROR property={pid} {e}")
            code = 2
        except Exception:  # noqa
            traceback.print_exc()
            print(f"ANALYSIS-ERROR property={pid} internal exception (see traceback)")
            code = 2
        rc = max(rc, code)
    return rc


if __name__ == "__main__":
    sys.exit(main())
