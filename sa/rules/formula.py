"""R-FORMULA -- formula identity between a repository function and a reference transcribed from the property
statement / the protocol, decided on canonical piecewise rational forms (sa/vn.py, sa/norm.py)."""
from __future__ import annotations

import ast
import textwrap
from typing import Dict, Iterable, Optional

from ..model import AnalysisError, ClassInfo, FuncInfo, Model
from ..norm import srepr
from ..vn import BudgetExceeded, Evaluator, Raise, Unreadable, canon_paths, same_function


def ref_func(model: Model, like: FuncInfo, src: str) -> FuncInfo:
    """Parse a reference `def` and give it the module / class context of `like` (so that self.x, class constants
    and imported helpers resolve exactly as in the code)."""
    node = ast.parse(textwrap.dedent(src)).body[0]
    for n in ast.walk(node):
        for ch in ast.iter_child_nodes(n):
            ch._parent = n  # type: ignore[attr-defined]
    return FuncInfo(like.module, like.cls, node)


def align_params(f: FuncInfo, rf: FuncInfo) -> Dict[str, object]:
    """Bindings for the reference's parameters: parameters whose name also occurs in the code's signature are bound by
    name; the remaining ones, in order, to the code's remaining parameters.  A consistent renaming of a private helper's
    parameters is therefore silent, while a permutation of equally named parameters is still seen."""
    from ..vn import sym
    cp = [p for p in f.params + f.kwonly]
    rp = [p for p in rf.params + rf.kwonly]
    if len(cp) != len(rp):
        return {}
    rest_c = [p for p in cp if p not in rp]
    rest_r = [p for p in rp if p not in cp]
    if len(rest_c) != len(rest_r):
        return {}
    return {r: sym(c) for r, c in zip(rest_r, rest_c)}


def drop_raises(paths):
    return [(c, v) for c, v in paths if not isinstance(v, Raise)]


# ------------------------------------------------------------------------------------------------ input validation
def _syms_of(x, out):
    """All ('sym', name) atoms at any depth of a condition / term / Rat."""
    from ..norm import Rat as _Rat
    if isinstance(x, _Rat):
        for a in x.atoms():
            _syms_of(a, out)
        return
    if isinstance(x, tuple):
        if len(x) == 2 and x[0] == "sym" and isinstance(x[1], str):
            out.add(x[1])
            return
        for y in x:
            _syms_of(y, out)
    elif isinstance(x, (frozenset, set, list)):
        for y in x:
            _syms_of(y, out)
    elif hasattr(x, "x") and hasattr(x, "op"):
        _syms_of(x.x, out)
    elif hasattr(x, "fields") and isinstance(getattr(x, "fields"), dict):
        for y in x.fields.values():
            _syms_of(y, out)
    elif hasattr(x, "items") and isinstance(getattr(x, "items"), (list, tuple)):
        for y in x.items:
            _syms_of(y, out)


def _param_only(cond, params) -> bool:
    syms = set()
    _syms_of(cond, syms)
    return bool(syms) and syms <= set(params)


def strip_extra_validation(p1, p2, params, effects: bool, ctor: bool = False):
    """Input hardening is not a difference.  A path of the CODE that (a) rejects, (b) has performed no effect, and (c) whose
    conditions speak about the parameters only (never about the state) is an input validation: `if amount < 0: raise`
    as the first statements of an operation.  When the reference has no such rejection, the code merely accepts fewer
    garbage inputs than the reference describes; on every input both accept they are compared as before.  So those paths
    are dropped from the code's side and the conditions they test (and their negations) are removed from the remaining
    paths.  A validation that the REFERENCE has must still be in the code (nothing is stripped on the reference's side),
    and a rejection that depends on the state (limits, balances, health factor) is never stripped."""
    def _is_validation_loop(e) -> bool:
        # ('foreach', loop, rows): every row performs nothing and either goes on or rejects, on conditions about the elements only
        if not (isinstance(e, tuple) and len(e) >= 3 and e[0] == "foreach" and isinstance(e[2], tuple)):
            return False
        rows = e[2]
        return bool(rows) and all(isinstance(r, tuple) and len(r) == 3 and all(isinstance(x, tuple) and x and x[0] == "expr" for x in r[1])
                                 and "self" not in repr(r[0]) for r in rows) \
            and any("RAISE" in repr(r[2]) for r in rows)

    def parts(p):
        if not effects:
            return (p[0], p[1], ())
        fx = tuple(e for e in p[1].get("$fx", ()) if not _is_validation_loop(e))
        if ctor:
            # a constructor that rejects leaves no object behind: its stores into self are not observable
            fx = tuple(e for e in fx if not (e[0] == "store" and "('sym', 'self')" in repr(e[1])[:40]))
        return (p[0], p[2], fx)
    ref_keys = set()
    for p in p2:
        conds, ret, _fx = parts(p)
        if isinstance(ret, Raise):
            for c in conds:
                ref_keys.add(c.key())
                ref_keys.add(c.negate().key())
    vocab = set()
    dropped = []
    for p in p1:
        conds, ret, fx = parts(p)
        if isinstance(ret, Raise) and not fx and conds and all(_param_only(c, params) for c in conds):
            extra = [c for c in conds if c.key() not in ref_keys]
            if not extra:
                continue            # the reference rejects the same way: compared normally
            dropped.append(p)
            for c in extra:
                vocab.add(c.key())
                vocab.add(c.negate().key())
    loops = sum(1 for p in p1 if effects for e in p[1].get("$fx", ()) if _is_validation_loop(e))
    if not dropped and not loops:
        return p1, 0
    out = []
    for p in p1:
        if any(p is d for d in dropped):
            continue
        conds = frozenset(c for c in p[0] if c.key() not in vocab)
        if effects and loops:
            env = dict(p[1])
            env["$fx"] = tuple(e for e in env.get("$fx", ()) if not _is_validation_loop(e))
            out.append((conds, env) + tuple(p[2:]))
        else:
            out.append((conds,) + tuple(p[1:]))
    return out, len(dropped) + loops


def compare_defaults(res, model, f, rf, qual, what, rule):
    """A parameter default is part of the function: callers that omit the argument get it.  For every parameter that has a
    default in BOTH the code and the reference the two constants must agree (folded by the evaluator)."""
    from ..vn import _same_value
    ev = Evaluator(model)
    bad = []
    for p_ in f.defaults:
        if p_ not in rf.defaults:
            continue
        try:
            a, b = ev._default(f, p_), ev._default(rf, p_)
        except Exception:  # noqa
            continue
        if a is None or b is None:
            if ast.dump(f.defaults[p_]) != ast.dump(rf.defaults[p_]) and (a is None) != (b is None):
                bad.append((p_, ast.unparse(f.defaults[p_]), ast.unparse(rf.defaults[p_])))
            continue
        if not _same_value(a, b):
            bad.append((p_, ast.unparse(f.defaults[p_]), ast.unparse(rf.defaults[p_])))
    for p_, got, want in bad:
        res.find(rule, f.qualname, f"{what}: default of `{p_}` differs from the reference", f.loc(),
                 f"{qual}: the default `{p_}={got}` is not the reference's `{p_}={want}`: every caller that omits `{p_}` computes with another value "
                 f"although neither the body of {f.name} nor any caller changed")
    return not bad


def formula_check(res, model: Model, qual: str, ref_src: str, what: str, opaque: Iterable[str] = (),
                  ignore_raises: bool = False, extern: Optional[Dict[str, object]] = None, rule: str = "R-FORMULA",
                  int_is_floor: bool = False, selfcls: Optional[str] = None, max_paths: int = 4000, aliases=None):
    """Compare `qual` with the reference.  Equal -> obligation discharged; different -> finding; unreadable ->
    AnalysisError (exit 2, never a violation)."""
    f = qual if isinstance(qual, FuncInfo) else model.func(qual)
    qual = f.qualname if isinstance(qual, FuncInfo) else qual
    rf = ref_func(model, f, ref_src)
    opaque = list(opaque)
    try:
        p1 = None
        for _attempt in range(4):
            try:
                ev1 = Evaluator(model, opaque_funcs=opaque, extern=extern, int_is_floor=int_is_floor, max_paths=max_paths)
                if aliases:
                    ev1.attr_alias = dict(aliases)
                p1 = ev1._function_paths_ctx(f, {}, None, 0, model.cls(selfcls) if selfcls else f.cls)
                break
            except BudgetExceeded as be:
                # a callee with too many paths is summarised as an opaque pure call (on both sides)
                if be.func in opaque or be.func == f.name:
                    raise
                opaque.append(be.func)
        ev2 = Evaluator(model, opaque_funcs=opaque, extern=extern, int_is_floor=int_is_floor, max_paths=max_paths)
        if aliases:
            ev2.attr_alias = dict(aliases)
        sc = model.cls(selfcls) if selfcls else f.cls
        if p1 is None:
            raise Unreadable("path budget exceeded after summarising " + ", ".join(opaque[-3:]))
        p2 = ev2._function_paths_ctx(rf, align_params(f, rf), None, 0, sc)
    except Unreadable as e:
        # nothing is decided about this clause (exit 2 at the end) - but the remaining rules still run, so that a
        # violation they find in the same change is reported and not lost behind the refusal
        res.refusals.append(f"{res.prop}: {qual} is outside the evaluator's language ({str(e)[:300]}); formula clause '{what}' "
                            f"cannot be decided")
        return None
    except ZeroDivisionError as e:
        raise AnalysisError(f"{res.prop}: {qual}: {e}")
    p1, n_val = strip_extra_validation(p1, p2, f.params + f.kwonly + [k for k, v in f.module.imports.items() if v[0] == 'mod'], effects=False)
    if n_val:
        res.notes.append(f"{qual}: {n_val} input-validation path(s) (parameter-only, effect-free rejections the reference does not have) set aside")
    if ignore_raises:
        p1, p2 = drop_raises(p1), drop_raises(p2)
    ok, why = same_function(p1, p2)
    compare_defaults(res, model, f, rf, qual, what, rule)
    n = len(canon_paths(p1))
    res.ob(rule, f"{qual} == reference: {what} ({n} arms, inlined {sorted(set(ev1.inlined))[:6]})", f.loc(), ok=ok,
           detail="" if ok else why[:600])
    if not ok:
        res.find(rule, f.qualname, f"{what}: formula differs from the reference", f.loc(),
                 f"{qual} does not compute the reference formula for '{what}': {why[:900]}",
                 {"target": qual, "what": what, "difference": why[:2000]})
    return ok


def _norm_effect(e, ignore_kinds, ignore_calls, ordered=False, store_fields=None):
    if e[0] == "store":
        _, tgt, how, val = e[:4]
        if "store" in ignore_kinds:
            return None
        if store_fields is not None and not any(repr(w) in repr(tgt) for w in store_fields):
            return None
        from ..vn import as_term
        from ..norm import Rat
        # `x op= v` is `x = x op v`: one text for both spellings (the old value is the location's own atom)
        if isinstance(how, str) and how.startswith("aug:") and isinstance(val, Rat):
            # the value before the store as the evaluator tracked it (a store earlier on the path is seen), else the
            # location's own atom
            cur = e[4] if len(e) > 4 and isinstance(e[4], Rat) else Rat.atom(tgt)
            op = how[4:]
            try:
                nv = {"Add": lambda: cur + val, "Sub": lambda: cur - val, "Mult": lambda: cur * val, "Div": lambda: cur / val}.get(op)
                if nv is not None:
                    return ("store", tgt, "set", as_term(nv()))
            except ZeroDivisionError:
                pass
        return ("store", tgt, how, as_term(val) if val is not None else None)
    if e[0] == "call":
        if e[1] in ignore_calls:
            return None
        if isinstance(e[2], tuple) and e[2] and e[2][0] == "ctx":
            return None  # calls on a context-manager object (progress bar) are not market/strategy effects
        return e
    if e[0] == "on-failure":
        return None      # compensation handlers are judged by the rollback-exactness rule, not by ledger identity
    if e[0] == "expr":
        return None if "expr" in ignore_kinds else e
    if e[0] == "foreach":
        inner = []
        for conds, fx, r in e[2]:
            effs = [x for x in (_norm_effect(y, ignore_kinds, ignore_calls, ordered, store_fields) for y in fx) if x is not None]
            es = tuple(srepr(x) for x in effs)
            inner.append((frozenset(conds), (es if ordered else tuple(sorted(es)), r)))
        # after dropping ignored effects, rows that no longer differ merge over complementary guards
        from ..vn import _merge_rows
        inner = [(tuple(sorted(map(srepr, c))), p[0], p[1]) for c, p in _merge_rows(inner)]
        if all(not es and r is None for _c, es, r in inner):
            return None      # nothing left in any iteration once the ignored effects are dropped
        return ("foreach", e[1], tuple(sorted(inner, key=srepr)))
    return e


_IDEM_CACHE: dict = {}


def idempotent_resets(model: Model) -> frozenset:
    """Pairs (method name, field name): the field's declared class has a method of that name which only assigns literal
    constants / empty containers to fields of its receiver (DictCache.reset): calling it twice in a row on that field
    is calling it once."""
    k = id(model)
    if k in _IDEM_CACHE:
        return _IDEM_CACHE[k][1]
    import ast as _ast

    def lit(v):
        return isinstance(v, _ast.Constant) or (isinstance(v, (_ast.Dict, _ast.List, _ast.Set, _ast.Tuple)) and not (
            getattr(v, "keys", None) or getattr(v, "elts", None)))

    pure = set()          # (class name, method name)
    for f in model.all_functions():
        if f.cls is None or f.name.startswith("__"):
            continue
        body = [st for st in f.node.body if not (isinstance(st, _ast.Expr) and isinstance(st.value, _ast.Constant))]
        ok = bool(body) and len(f.node.args.args) == 1
        for st in body:
            tg = st.targets[0] if isinstance(st, _ast.Assign) and len(st.targets) == 1 else (st.target if isinstance(st, _ast.AnnAssign) else None)
            if not (tg is not None and isinstance(tg, _ast.Attribute) and isinstance(tg.value, _ast.Name) and tg.value.id == "self"
                    and st.value is not None and lit(st.value)):
                ok = False
        if ok:
            pure.add((f.cls.name, f.name))
    pairs = set()
    for c in model.classes.values():
        try:
            fields = model.fields_assigned_in_init(c)
        except Exception:  # noqa
            continue
        for fld in fields:
            t = model.field_type(c, fld)
            tn = getattr(t, "name", None)
            for (cn, mn) in pure:
                if cn == tn:
                    pairs.add((mn, fld))
    _IDEM_CACHE.clear()
    _IDEM_CACHE[k] = (model, frozenset(pairs))
    return _IDEM_CACHE[k][1]


_IDEM_NAMES: frozenset = frozenset()


def _dedupe_idempotent(effs):
    """Drop a repeated idempotent reset of a receiver when nothing in between touches that receiver."""
    if not _IDEM_NAMES:
        return effs
    out = []
    fresh: dict = {}          # receiver text -> True while the receiver is known to be in its reset state
    for e in effs:
        if e[0] == "call" and not e[3] and isinstance(e[2], tuple) and len(e[2]) == 3 and e[2][0] == "attr" \
                and (e[1], e[2][2]) in _IDEM_NAMES:
            rk = srepr(e[2])
            if fresh.get((e[1], rk)):
                continue
            for key in [kk for kk in fresh if kk[1] == rk]:
                fresh.pop(key)
            fresh[(e[1], rk)] = True
            out.append(e)
            continue
        txt = srepr(e)
        for key in [kk for kk in fresh if kk[1] in txt]:
            fresh.pop(key)
        if e[0] == "foreach":
            fresh.clear()
        out.append(e)
    return out


def _sig(paths, ignore_kinds, ignore_calls, keep_raise_effects, ordered=False, store_fields=None):
    from collections import Counter
    out = []
    for conds, env, ret in paths:
        fx = env.get("$fx", ())
        if isinstance(ret, Raise) and not keep_raise_effects:
            fx = ()
        effs = [x for x in (_norm_effect(e, ignore_kinds, ignore_calls, ordered, store_fields) for e in fx) if x is not None]
        effs = _dedupe_idempotent(effs)
        from ..vn import FX_STRUCT
        for x in effs:
            FX_STRUCT.setdefault(srepr(x), x)
        if ordered:
            out.append((frozenset(conds), frozenset((f"{i:03d} " + srepr(x), 1) for i, x in enumerate(effs)), ret))
        else:
            out.append((frozenset(conds), frozenset(Counter(srepr(x) for x in effs).items()), ret))
    return out


def effects_check(res, model: Model, qual: str, ref_src: str, what: str, effect_calls, opaque=(),
                  ignore_kinds=("expr",), ignore_calls=(), rule: str = "R-PAIR", keep_raise_effects=False,
                  selfcls: Optional[str] = None, ordered: bool = False, aliases=None, store_fields=None):
    """Ledger identity: on every path, the multiset of effects (wallet/cash primitives called with which canonical
    amounts, stores into position fields, the recorded action) equals the reference's, and so does the result."""
    f = qual if isinstance(qual, FuncInfo) else model.func(qual)
    qual = f.qualname if isinstance(qual, FuncInfo) else qual
    rf = ref_func(model, f, ref_src)
    sc = model.cls(selfcls) if selfcls else f.cls
    opaque = list(opaque)
    try:
        p1 = None
        for _attempt in range(4):
            try:
                e1 = Evaluator(model, opaque_funcs=opaque)
                if aliases:
                    e1.attr_alias = dict(aliases)
                p1 = e1.effect_paths(f, effect_calls, sc)
                break
            except BudgetExceeded as be:
                if be.func in opaque or be.func == f.name:
                    raise
                opaque.append(be.func)
        e2 = Evaluator(model, opaque_funcs=opaque)
        if aliases:
            e2.attr_alias = dict(aliases)
        if p1 is None:
            raise Unreadable("path budget exceeded after summarising " + ", ".join(opaque[-3:]))
        p2 = e2.effect_paths(rf, effect_calls, sc, args=align_params(f, rf))
    except Unreadable as e:
        res.refusals.append(f"{res.prop}: {qual} is outside the evaluator's language ({str(e)[:300]}); ledger clause '{what}' "
                            f"cannot be decided")
        return None
    p1, n_val = strip_extra_validation(p1, p2, f.params + f.kwonly + [k for k, v in f.module.imports.items() if v[0] == 'mod'], effects=True, ctor=(f.name == '__init__'))
    if n_val:
        res.notes.append(f"{qual}: {n_val} input-validation path(s) (parameter-only, effect-free rejections the reference does not have) set aside")
    global _IDEM_NAMES
    _IDEM_NAMES = idempotent_resets(model)
    s1 = _sig(p1, ignore_kinds, ignore_calls, keep_raise_effects, ordered, store_fields)
    s2 = _sig(p2, ignore_kinds, ignore_calls, keep_raise_effects, ordered, store_fields)
    rest = list(s2)
    un = []
    from ..vn import _val_eq
    for (c, fx, r) in s1:
        hit = None
        for k, (c2, fx2, r2) in enumerate(rest):
            if c == c2 and fx == fx2 and _val_eq(r, r2):
                hit = k
                break
        if hit is None:
            un.append((c, fx, r))
        else:
            rest.pop(hit)
    # duplicates (same signature reached twice) are harmless
    un = [u for u in un if not any(u[0] == x[0] and u[1] == x[1] and _val_eq(u[2], x[2]) for x in s2)]
    rest = [u for u in rest if not any(u[0] == x[0] and u[1] == x[1] and _val_eq(u[2], x[2]) for x in s1)]
    ok = not un and not rest
    why = ""
    if not ok:
        # semantic criterion: guard structure may differ as long as no two simultaneously satisfiable paths disagree
        from ..vn import pairwise_conflict

        def same(o1, o2):
            return o1[0] == o2[0] and _val_eq(o1[1], o2[1])

        conflict = pairwise_conflict([(c, (fx, r)) for c, fx, r in s1], [(c, (fx, r)) for c, fx, r in s2], same)
        if conflict is None:
            ok = True
    if not ok:
        def diff(a, pool):
            # closest path in the pool: most guards in common
            best = None
            for b in pool:
                score = len(a[0] & b[0]) * 2 - len(a[0] ^ b[0])
                if best is None or score > best[0]:
                    best = (score, b)
            if best is None:
                return "reference has no paths"
            b = best[1]
            ga = sorted(repr(x)[:160] for x in a[0] - b[0])
            gb = sorted(repr(x)[:160] for x in b[0] - a[0])
            da = sorted(x[:220] for x in set(dict(a[1])) - set(dict(b[1])))
            db = sorted(x[:220] for x in set(dict(b[1])) - set(dict(a[1])))
            msg = []
            if ga or gb:
                msg.append(f"guards only in code {ga[:3]} / only in reference {gb[:3]}")
            if da or db:
                msg.append(f"effects only in code {da[:2]} / only in reference {db[:2]}")
            if not _val_eq(a[2], b[2]):
                msg.append(f"result code={repr(a[2])[:200]} ref={repr(b[2])[:200]}")
            return "; ".join(msg) or "paths differ"
        parts = [diff(u, s2) for u in un[:2]]
        if not un and rest:
            parts.append(f"reference path missing in code: guards {sorted(map(repr, rest[0][0]))[:4]}")
        why = " | ".join(parts)
    res.ob(rule, f"{qual} ledger == reference: {what} ({len(s1)} paths)", f.loc(), ok=ok, detail=why[:700])
    if not ok:
        res.find(rule, f.qualname, f"{what}: effects differ from the reference ledger", f.loc(),
                 f"{qual}: {what}: {why[:1200]}", {"target": qual, "what": what, "difference": why[:3000]})
    return ok


def nested_func(model: Model, outer_qual: str, name: str) -> FuncInfo:
    """FuncInfo of a function defined inside another function (closure variables stay symbolic)."""
    outer = model.func(outer_qual)
    for n in ast.walk(outer.node):
        if isinstance(n, ast.FunctionDef) and n.name == name and n is not outer.node:
            fi = FuncInfo(outer.module, None, n)
            fi.name = f"{outer.name}.<{name}>"
            return fi
    raise AnalysisError(f"nested function {name} not found in {outer_qual}")
