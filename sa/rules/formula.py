"""R-FORMULA -- formula identity between a repository function and a reference transcribed from the property
statement / the protocol, decided on canonical piecewise rational forms (sa/vn.py, sa/norm.py)."""
from __future__ import annotations

import ast
import textwrap
from typing import Dict, Iterable, Optional

from ..model import AnalysisError, ClassInfo, FuncInfo, Model
from ..vn import Evaluator, Raise, Unreadable, canon_paths, same_function


def ref_func(model: Model, like: FuncInfo, src: str) -> FuncInfo:
    """Parse a reference `def` and give it the module / class context of `like` (so that self.x, class constants
    and imported helpers resolve exactly as in the code)."""
    node = ast.parse(textwrap.dedent(src)).body[0]
    for n in ast.walk(node):
        for ch in ast.iter_child_nodes(n):
            ch._parent = n  # type: ignore[attr-defined]
    return FuncInfo(like.module, like.cls, node)


def drop_raises(paths):
    return [(c, v) for c, v in paths if not isinstance(v, Raise)]


def formula_check(res, model: Model, qual: str, ref_src: str, what: str, opaque: Iterable[str] = (),
                  ignore_raises: bool = False, extern: Optional[Dict[str, object]] = None, rule: str = "R-FORMULA",
                  int_is_floor: bool = False, selfcls: Optional[str] = None, max_paths: int = 4000):
    """Compare `qual` with the reference.  Equal -> obligation discharged; different -> finding; unreadable ->
    AnalysisError (exit 2, never a violation)."""
    f = model.func(qual)
    rf = ref_func(model, f, ref_src)
    try:
        ev1 = Evaluator(model, opaque_funcs=opaque, extern=extern, int_is_floor=int_is_floor, max_paths=max_paths)
        ev2 = Evaluator(model, opaque_funcs=opaque, extern=extern, int_is_floor=int_is_floor, max_paths=max_paths)
        sc = model.cls(selfcls) if selfcls else f.cls
        p1 = ev1._function_paths_ctx(f, {}, None, 0, sc)
        p2 = ev2._function_paths_ctx(rf, {}, None, 0, sc)
    except Unreadable as e:
        raise AnalysisError(f"{res.prop}: {qual} is outside the evaluator's language ({e}); formula clause '{what}' "
                            f"cannot be decided")
    except ZeroDivisionError as e:
        raise AnalysisError(f"{res.prop}: {qual}: {e}")
    if ignore_raises:
        p1, p2 = drop_raises(p1), drop_raises(p2)
    ok, why = same_function(p1, p2)
    n = len(canon_paths(p1))
    res.ob(rule, f"{qual} == reference: {what} ({n} arms, inlined {sorted(set(ev1.inlined))[:6]})", f.loc(), ok=ok,
           detail="" if ok else why[:600])
    if not ok:
        res.find(rule, f.qualname, f"{what}: formula differs from the reference", f.loc(),
                 f"{qual} does not compute the reference formula for '{what}': {why[:900]}",
                 {"target": qual, "what": what, "difference": why[:2000]})
    return ok
