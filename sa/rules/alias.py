"""R-INPUT (S2) -- objects stored INSIDE cells of an input frame (Deribit's ask / bid level lists) are never mutated.

Under copy-on-write a row or a status object taken from a frame is detached from the frame's arrays, but Python objects
held in object-dtype cells are shared by reference: `frame.loc[ts].copy()` still points at the same `[[price, size], ...]`
lists.  Only `copy.deepcopy` detaches them.  This analysis tracks, per function and flow-insensitively, which locals may
denote

    kind 0   the root object itself (the caller's argument / the cell object),
    kind c1  a NEW container whose elements are the root's elements (list(x), x[:], filter, sorted, comprehension of
             the loop variable, x.copy(), copy.copy(x)),
    kind 1   an element of the root (x[i], loop variable over x / over a c1 container),

computes for every function which parameters it may mutate at depth 0 (the container: item store, append, sort, ...) or
depth 1 (an element: `x[i][j] = ...`, `e[1] -= ...`) - to a fixpoint over resolved callees - and reports every mutation
whose root is a cell object read from a market's status / data frame, at the mutating statement or at the call site
that hands the cell object to a mutating callee.  `copy.deepcopy` (and arithmetic / constructors of scalars) yields
fresh objects."""
from __future__ import annotations

import ast
import re
from typing import Dict, List, Optional, Set, Tuple

from ..model import FuncInfo, Model

FRAMEISH = re.compile(r"(^|\.)(_?market_status\.data|_data|data)$")
ROW_ACCESSORS = {"loc", "iloc", "at", "iat", "xs"}
CONTAINER_COPIES = {"list", "tuple", "sorted", "reversed", "filter", "set", "iter"}
MUTATORS0 = {"append", "extend", "insert", "pop", "remove", "clear", "sort", "reverse", "update", "setdefault", "popitem", "add", "discard"}
EXCLUDED = ("demeter/result/", "demeter/indicator/", "demeter/utils/")

Fact = Tuple[Tuple[str, str], str]      # ((root kind, root name), alias kind)


def _frameish(e: ast.AST) -> bool:
    try:
        return bool(FRAMEISH.search(ast.unparse(e)))
    except Exception:  # noqa
        return False


class FuncAliases:
    def __init__(self, f: FuncInfo):
        self.f = f
        # name -> [(kind, value expr, line of the definition, unconditional at function level?)]
        self.defs: Dict[str, List[Tuple[str, ast.AST, int, bool]]] = {}
        self._active: Set[tuple] = set()
        top = set(map(id, f.node.body))
        for n in ast.walk(f.node):
            self._cur = (getattr(n, "lineno", 0), id(n) in top)
            if isinstance(n, ast.Assign):
                for t in n.targets:
                    self._bind(t, n.value)
            elif isinstance(n, ast.AnnAssign) and n.value is not None:
                self._bind(n.target, n.value)
            elif isinstance(n, (ast.For, ast.AsyncFor)):
                self._cur = (n.lineno, False)
                self._bind_elem(n.target, n.iter)
            elif isinstance(n, ast.comprehension):
                self._cur = (getattr(n.iter, "lineno", 0), False)
                self._bind_elem(n.target, n.iter)
            elif isinstance(n, ast.NamedExpr):
                self._cur = (n.lineno, False)
                self._bind(n.target, n.value)
            elif isinstance(n, ast.withitem) and n.optional_vars is not None:
                self._cur = (getattr(n.context_expr, "lineno", 0), False)
                self._bind(n.optional_vars, n.context_expr)

    def reaching(self, name: str, at_line: int):
        """Definitions of `name` that may reach a use at `at_line`: the last unconditional function-level definition
        before the use and every (conditional / loop) definition after it and before the use; all definitions when the
        use precedes them textually (loops)."""
        ds = self.defs.get(name, [])
        before = [d for d in ds if d[2] < at_line or (d[2] == at_line and d[0] == "elem")]
        if not before:
            return ds
        unc = [d for d in before if d[3]]
        if not unc:
            return before
        last = max(unc, key=lambda d: d[2])
        return [d for d in before if d[2] >= last[2]]

    ROW_RETURNS: Dict[str, Set[int]] = {}      # function name -> positions of its result that are frame rows (-1: the result)

    def _bind(self, t, v):
        if isinstance(t, (ast.Tuple, ast.List)) and isinstance(v, ast.Call):
            # a, row, b = self.helper(...): remember which position of which callee each name takes
            for i, a in enumerate(t.elts):
                if isinstance(a, ast.Name):
                    self.defs.setdefault(a.id, []).append(("callret", (v, i), self._cur[0], self._cur[1]))
            return
        if isinstance(t, ast.Name) and isinstance(v, ast.Call) and not isinstance(v.func, ast.Attribute) or (
                isinstance(t, ast.Name) and isinstance(v, ast.Call) and isinstance(v.func, ast.Attribute)
                and isinstance(v.func.value, ast.Name) and v.func.value.id in ("self", "cls")):
            self.defs.setdefault(t.id, []).append(("callret", (v, -1), self._cur[0], self._cur[1]))
        if isinstance(t, ast.Name):
            self.defs.setdefault(t.id, []).append(("val", v, self._cur[0], self._cur[1]))
        elif isinstance(t, (ast.Tuple, ast.List)):
            if isinstance(v, (ast.Tuple, ast.List)) and len(v.elts) == len(t.elts):
                for a, b in zip(t.elts, v.elts):
                    self._bind(a, b)
            else:
                for a in t.elts:
                    self._bind_elem(a, v)

    def _bind_elem(self, t, it):
        if isinstance(t, ast.Name):
            self.defs.setdefault(t.id, []).append(("elem", it, self._cur[0], False))
        elif isinstance(t, (ast.Tuple, ast.List)):
            # for k, v in d.items(): v is an element; enumerate: second is an element
            for a in t.elts:
                self._bind_elem(a, it)

    # ------------------------------------------------------------------ alias facts of an expression
    def is_row(self, e: ast.AST, depth=0) -> bool:
        if depth > 6:
            return False
        if isinstance(e, ast.Subscript) and isinstance(e.value, ast.Attribute) and e.value.attr in ROW_ACCESSORS and _frameish(e.value.value):
            return True
        if isinstance(e, ast.Attribute) and _frameish(e) and ast.unparse(e).endswith("market_status.data"):
            return True     # the status row object itself
        if isinstance(e, ast.Call) and isinstance(e.func, ast.Attribute) and e.func.attr == "copy" and not e.args:
            return self.is_row(e.func.value, depth + 1)     # .copy() of a row keeps the cell objects
        if isinstance(e, ast.Name):
            for d in self.reaching(e.id, getattr(e, "lineno", 10**9)):
                if d[0] == "val" and self.is_row(d[1], depth + 1):
                    return True
                if d[0] == "callret":
                    call, pos = d[1]
                    fn = call.func
                    nm = fn.attr if isinstance(fn, ast.Attribute) else (fn.id if isinstance(fn, ast.Name) else None)
                    if nm is not None and pos in FuncAliases.ROW_RETURNS.get(nm, ()):
                        return True
            return False
        return False

    def facts(self, e: ast.AST, depth=0) -> Set[Fact]:
        if depth > 8:
            return set()
        out: Set[Fact] = set()
        if isinstance(e, ast.Name):
            line = getattr(e, "lineno", 10**9)
            key = (e.id, line)
            if key in self._active:
                return set()
            self._active.add(key)
            try:
                ds = self.reaching(e.id, line)
                if e.id in self.f.params and not any(d[3] for d in ds if d[2] < line):
                    out.add((("param", e.id), "0"))     # still (possibly) the caller's object
                for kind, v, dl, _u in ds:
                    if kind == "callret":
                        continue
                    fs = self.facts(v, depth + 1)
                    if kind == "val":
                        out |= fs
                    else:
                        for r, k in fs:
                            if k in ("0", "c1"):
                                out.add((r, "1"))
            finally:
                self._active.discard(key)
            return out
        if isinstance(e, ast.Attribute):
            if self.is_row(e.value):
                return {(("cell", ast.unparse(e)), "0")}
            return set()
        if isinstance(e, ast.Subscript):
            if isinstance(e.value, ast.Attribute) and e.value.attr in ("at", "iat", "loc") and _frameish(e.value.value) \
                    and isinstance(e.slice, ast.Tuple):
                return {(("cell", ast.unparse(e)), "0")}
            if self.is_row(e.value) and isinstance(e.slice, ast.Constant):
                return {(("cell", ast.unparse(e)), "0")}
            base = self.facts(e.value, depth + 1)
            if isinstance(e.slice, ast.Slice):
                return {(r, "c1") for r, k in base if k in ("0", "c1")} | {(r, k) for r, k in base if k == "1"}
            return {(r, "1") for r, k in base if k in ("0", "c1")}
        if isinstance(e, ast.Call):
            fn = e.func
            name = fn.attr if isinstance(fn, ast.Attribute) else (fn.id if isinstance(fn, ast.Name) else "")
            full = ast.unparse(fn)
            if full in ("copy.deepcopy", "deepcopy"):
                return set()
            if full in ("copy.copy",) or (isinstance(fn, ast.Attribute) and name == "copy" and not e.args):
                src = e.args[0] if e.args else fn.value
                return {(r, "c1") for r, k in self.facts(src, depth + 1) if k in ("0", "c1")}
            if isinstance(fn, ast.Name) and name in CONTAINER_COPIES and e.args:
                src = e.args[-1] if name == "filter" else e.args[0]
                return {(r, "c1") for r, k in self.facts(src, depth + 1) if k in ("0", "c1")}
            if isinstance(fn, ast.Attribute) and name in ("items", "values", "keys"):
                return {(r, "c1") for r, k in self.facts(fn.value, depth + 1) if k in ("0", "c1")}
            if isinstance(fn, ast.Name) and name in ("enumerate", "zip"):
                o = set()
                for a in e.args:
                    o |= {(r, "c1") for r, k in self.facts(a, depth + 1) if k in ("0", "c1")}
                return o
            return set()
        if isinstance(e, (ast.ListComp, ast.GeneratorExp, ast.SetComp)):
            # [x for x in src if ...] shares src's elements when the element is the loop variable itself
            if isinstance(e.elt, ast.Name):
                return {(r, "c1") for r, k in self.facts(e.elt, depth + 1) if k == "1"}
            return set()
        if isinstance(e, ast.IfExp):
            return self.facts(e.body, depth + 1) | self.facts(e.orelse, depth + 1)
        if isinstance(e, ast.BoolOp):
            o = set()
            for v in e.values:
                o |= self.facts(v, depth + 1)
            return o
        if isinstance(e, ast.Starred):
            return self.facts(e.value, depth + 1)
        return set()


def _mutation_depths(fa: FuncAliases, node: ast.AST) -> List[Tuple[ast.AST, Set[Fact], int, str]]:
    """(site, alias facts of the mutated receiver, depth of the mutation relative to the receiver, description)."""
    out = []
    tgts = []
    if isinstance(node, ast.Assign):
        tgts = node.targets
    elif isinstance(node, (ast.AugAssign, ast.AnnAssign)):
        tgts = [node.target]
    elif isinstance(node, ast.Delete):
        tgts = node.targets
    for t in tgts:
        for tt in (t.elts if isinstance(t, (ast.Tuple, ast.List)) else [t]):
            if isinstance(tt, ast.Subscript):
                if isinstance(tt.value, ast.Attribute) and tt.value.attr in ROW_ACCESSORS:
                    continue        # frame / row stores are the S1 rule
                out.append((node, fa.facts(tt.value), 0, f"item store `{ast.unparse(tt)[:50]}`"))
    if isinstance(node, ast.Call) and isinstance(node.func, ast.Attribute) and node.func.attr in MUTATORS0:
        out.append((node, fa.facts(node.func.value), 0, f"`.{node.func.attr}()` on `{ast.unparse(node.func.value)[:40]}`"))
    return out


def _root_depth(alias_kind: str, depth: int) -> Optional[int]:
    """Mutation at `depth` of an object that is alias `alias_kind` of a root -> depth relative to the root (None: fresh)."""
    if alias_kind == "0":
        return depth
    if alias_kind == "c1":
        return None if depth == 0 else depth      # the new container itself is fresh; its elements are the root's
    if alias_kind == "1":
        return depth + 1
    return None


def cell_mutation_rule(model: Model, res, rule: str = "R-INPUT"):
    funcs = [f for f in model.all_functions() if not f.module.relpath.startswith(EXCLUDED)]
    fas = {id(f): FuncAliases(f) for f in funcs}
    by_name: Dict[str, List[FuncInfo]] = {}
    for f in funcs:
        by_name.setdefault(f.name, []).append(f)
    # which functions hand out frame rows (whole result or a position of a returned tuple)?  two rounds for wrappers
    FuncAliases.ROW_RETURNS = {}
    for _ in range(2):
        for f in funcs:
            fa = fas[id(f)]
            for r in ast.walk(f.node):
                if isinstance(r, ast.Return) and r.value is not None:
                    if isinstance(r.value, ast.Tuple):
                        for i, e in enumerate(r.value.elts):
                            if fa.is_row(e):
                                FuncAliases.ROW_RETURNS.setdefault(f.name, set()).add(i)
                    elif fa.is_row(r.value):
                        FuncAliases.ROW_RETURNS.setdefault(f.name, set()).add(-1)
    # summaries: function -> {param: set(depths mutated)}
    summ: Dict[int, Dict[str, Set[int]]] = {id(f): {} for f in funcs}

    def callee_of(call: ast.Call) -> List[FuncInfo]:
        fn = call.func
        nm = fn.attr if isinstance(fn, ast.Attribute) else (fn.id if isinstance(fn, ast.Name) else None)
        if nm is None or nm in MUTATORS0:
            return []
        if nm.startswith("__") and not nm.endswith("__"):
            pass
        return by_name.get(nm, [])[:4]

    def arg_binding(g: FuncInfo, call: ast.Call):
        params = g.params[1:] if g.is_method or g.is_classmethod else list(g.params)
        if isinstance(call.func, ast.Name) and g.is_method:
            params = list(g.params)
        pairs = []
        for i, a in enumerate(call.args):
            if i < len(params):
                pairs.append((params[i], a))
        for k in call.keywords:
            if k.arg in g.params:
                pairs.append((k.arg, k.value))
        return pairs

    findings = []
    n_sites = 0
    for _round in range(6):
        changed = False
        findings = []
        n_sites = 0
        for f in funcs:
            fa = fas[id(f)]
            mine = summ[id(f)]
            for node in ast.walk(f.node):
                events = []     # (site, facts, depth, text)
                events.extend(_mutation_depths(fa, node))
                if isinstance(node, ast.Call):
                    for g in callee_of(node):
                        gs = summ.get(id(g))
                        if not gs:
                            continue
                        for p, a in arg_binding(g, node):
                            for d in gs.get(p, ()):
                                events.append((node, fa.facts(a), d, f"call `{g.qualname}({p}=...)` which mutates its argument"
                                                                     + (" elements" if d else "")))
                for site, facts, depth, text in events:
                    if not facts:
                        continue
                    n_sites += 1
                    for (rk, rn), ak in facts:
                        rd = _root_depth(ak, depth)
                        if rd is None:
                            continue
                        if rk == "param":
                            cur = mine.setdefault(rn, set())
                            if rd not in cur and rd <= 2:
                                cur.add(rd)
                                changed = True
                        elif rk == "cell":
                            findings.append((f, site, rn, rd, text))
        if not changed:
            break
    seen = set()
    for f, site, root, rd, text in findings:
        key = (f.qualname, ast.unparse(site)[:80], root)
        if key in seen:
            continue
        seen.add(key)
        res.ob(rule, f"{f.qualname}: {text} leaves cell objects of the input frame untouched", f.loc(site), ok=False, detail=root)
        res.find(rule, f.qualname, f"cell object `{root[:60]}` of the input frame mutated: {text[:80]}", f.loc(site),
                 f"{f.qualname}: {text} changes `{root}` (an object stored inside a cell of the market's data frame"
                 f"{', at element level' if rd else ''}) in place; copy-on-write does not protect objects inside cells - only "
                 f"copy.deepcopy detaches them - so the supplied market data is altered and a second run (or another strategy in "
                 f"the same process) sees a depleted book")
    mutating = {f.qualname: {p: sorted(d) for p, d in summ[id(f)].items() if d} for f in funcs if any(summ[id(f)].values())}
    res.units["functions_returning_frame_rows"] = len(FuncAliases.ROW_RETURNS)
    res.units["functions_mutating_a_parameter"] = len(mutating)
    res.units["mutation_sites_examined"] = n_sites
    return mutating, len(findings)


# ------------------------------------------------------------------------------------------ objects shared by iterations
def loop_sharing_rule(model: Model, res, rule: str = "R-SHARE", scope=("demeter/core/", "demeter/broker/")):
    """An object constructed BEFORE a loop and handed inside the loop to a callee that keeps it (stores the parameter in an
    attribute / container) or writes its fields is one object shared by all iterations: in the bar loop that means one
    status object for every market, one record for every position.  Value numbering cannot see this (the constructed value
    is the same term inside and outside the loop); it is an identity fact.  Reported at the call site."""
    funcs = [f for f in model.all_functions() if not f.module.relpath.startswith(EXCLUDED)]
    by_name: Dict[str, List[FuncInfo]] = {}
    for f in funcs:
        by_name.setdefault(f.name, []).append(f)

    def keeps_or_writes(g: FuncInfo, p: str) -> Optional[str]:
        for s in ast.walk(g.node):
            tgts = s.targets if isinstance(s, ast.Assign) else ([s.target] if isinstance(s, (ast.AugAssign, ast.AnnAssign)) else [])
            for t in tgts:
                if isinstance(t, ast.Attribute) and isinstance(t.value, ast.Name) and t.value.id == p:
                    return f"writes `{ast.unparse(t)}`"
                if isinstance(s, ast.Assign) and isinstance(s.value, ast.Name) and s.value.id == p and isinstance(t, (ast.Attribute, ast.Subscript)) \
                        and not (isinstance(t.value, ast.Name) and t.value.id == p):
                    return f"keeps it in `{ast.unparse(t)}`"
        return None

    n = 0
    for f in funcs:
        if scope and not f.module.relpath.startswith(tuple(scope)):
            continue
        loops = [x for x in ast.walk(f.node) if isinstance(x, (ast.For, ast.While))]
        if not loops:
            continue
        fa = FuncAliases(f)
        for loop in loops:
            inside = {id(x) for x in ast.walk(loop)}
            stored_inside = {t.id for x in ast.walk(loop) for t in ast.walk(x)
                             if isinstance(t, ast.Name) and isinstance(t.ctx, ast.Store)}
            for c in ast.walk(loop):
                if not isinstance(c, ast.Call):
                    continue
                fn = c.func
                nm = fn.attr if isinstance(fn, ast.Attribute) else (fn.id if isinstance(fn, ast.Name) else None)
                cands = by_name.get(nm, [])[:8] if nm else []
                if not cands:
                    continue
                for i, a in enumerate(c.args):
                    if not isinstance(a, ast.Name) or a.id in stored_inside or a.id in f.params:
                        continue
                    defs = [d for d in fa.defs.get(a.id, []) if d[0] == "val" and d[2] < loop.lineno and id(d[1]) not in inside]
                    if not defs or not all(isinstance(d[1], ast.Call) and isinstance(d[1].func, ast.Name) and d[1].func.id[:1].isupper() for d in defs):
                        continue        # only objects constructed by a class call before the loop
                    n += 1
                    why = None
                    for g in cands:
                        params = g.params[1:] if g.is_method else list(g.params)
                        if i < len(params):
                            why = keeps_or_writes(g, params[i])
                            if why:
                                why = f"{g.qualname} {why}"
                                break
                    res.ob(rule, f"{f.qualname}: `{a.id}` (constructed before the loop) passed to {nm}() inside the loop is not kept or "
                                 f"written by the callee", f.loc(c), ok=why is None)
                    if why:
                        res.find(rule, f.qualname, f"`{a.id}` constructed once, passed to {nm}() per iteration", f.loc(c),
                                 f"{f.qualname}: `{a.id} = {ast.unparse(defs[0][1])[:50]}` is constructed once before the loop and passed to "
                                 f"`{nm}` in every iteration, but {why}: all iterations (markets / positions) share ONE object, and what "
                                 f"one of them writes into it the next one reads")
    return n
