"""R-GUARD -- every decrement of a holding is guarded or clamped by that holding, on every path.

Works on the effect paths of the value-numbering evaluator: a store `H -= D` / `H = H - D` / `H = clamp0(H, D)` on a
holding field H must, on that path, satisfy one of
  G0  D == H (everything) or D == 0, or the new value is a literal 0;
  G1  a path condition `D - H <= 0` (possibly scaled by a positive index/price factor), e.g. the surviving arm of
      `if H - D < 0: raise`, `require(D <= H)`;
  G2  D is min(..., H, ...) or min(..., q*H, ...) with a constant 0 < q <= 1 (also through an inlined callee);
  G3  the new value is the clamp-to-zero helper applied to (H, D)  [payout checked by the ledger identities].
"""
from __future__ import annotations

import ast
from fractions import Fraction
from typing import List, Optional

from ..model import AnalysisError, ClassInfo, FuncInfo, Model
from ..norm import Poly, Rat
from ..vn import Cond, Evaluator, Obj, Raise, Unreadable, as_term

HOLDING_FIELDS = {"liquidity", "pending_amount0", "pending_amount1", "base_amount", "collateral_amount", "osqth_short_amount",
                  "amount", "balance", "glp_amount", "reward"}
POSITIVE_ATOM_WORDS = ("index", "price", "pow", "decimal")

EFFECT_CALLS = ["subtract_from_balance", "add_to_balance", "_record_action", "_subtract_from_balance", "_add_to_balance",
                "__sub_supply_amount", "__sub_borrow_amount", "_check_vault", "_withdraw_collateral", "reset"]
OPAQUE = ["get_borrow", "health_factor", "supplies", "borrows", "close_position", "base_unit_price_to_sqrt_price_x96",
          "get_twap_price", "get_vault_status", "_get_reduce_debt_bounty", "_remove_liquidity", "check_transaction",
          "_deduct_order_amount", "get_trade_fee", "get_average_price", "get_new_order_list", "_get_swap_amount",
          "getTokenAmountsFromGM", "getSwapFees", "supplies_value", "rate_to_apy", "get_sqrt_ratio_at_tick", "tick_to_sqrt_price_x96",
          "sqrt_price_x96_to_tick", "base_unit_price_to_tick", "tick_to_base_unit_price"]

# opt-in configuration branches (one symbol each, with reason)
EXCEPTIONS = {
    ("Asset.sub", "allow_negative_balance"): "opt-in configuration: the wallet may go negative when the broker allows it",
}


def _is_positive_factor(r: Rat) -> bool:
    if len(r.n.t) != 1 or len(r.d.t) != 1:
        return False
    (mn, cn), = r.n.t.items()
    (md, cd), = r.d.t.items()
    if cn / cd <= 0:
        return False
    for m in (mn, md):
        for a, e in m:
            if not any(w in repr(a) for w in POSITIVE_ATOM_WORDS):
                return False
    return True


def _pos_monomial(p: Poly) -> bool:
    if len(p.t) != 1:
        return False
    (m, c), = p.t.items()
    return c > 0 and all(any(w in repr(a) for w in POSITIVE_ATOM_WORDS) for a, e in m)


def _proportional(want: Rat, cx: Rat) -> bool:
    """want = cx * (positive monomial ratio): same numerator polynomial up to a positive monomial, denominators
    positive monomials."""
    if not (_pos_monomial(want.d) and _pos_monomial(cx.d)):
        return False
    A, B = want.n, cx.n
    if A == B:
        return True
    if len(A.t) != len(B.t) or not A.t:
        return False
    # candidate quotient from the first terms
    import itertools
    (ma, ca) = sorted(A.t.items(), key=lambda kv: repr(kv[0]))[0]
    for (mb, cb) in B.t.items():
        q = ca / cb
        if q <= 0:
            continue
        da, db = dict(ma), dict(mb)
        mono = {}
        for a in set(da) | set(db):
            e = da.get(a, 0) - db.get(a, 0)
            if e:
                mono[a] = e
        if not all(any(w in repr(a) for w in POSITIVE_ATOM_WORDS) for a in mono):
            continue
        # A == B * q * mono ?  (allow negative exponents: multiply both sides)
        up = Poly({tuple(sorted(((a, e) for a, e in mono.items() if e > 0), key=lambda x: repr(x[0]))): Fraction(1)})
        dn = Poly({tuple(sorted(((a, -e) for a, e in mono.items() if e < 0), key=lambda x: repr(x[0]))): Fraction(1)})
        if A * dn == (B * up).scale(q):
            return True
    return False


def _holds_guard(conds, D: Rat, H: Rat) -> Optional[str]:
    want = D - H
    if want.n.is_zero():
        return "G0 takes everything"
    if D.is_const() and D.const_value() == 0:
        return "G0 zero"
    for c in conds:
        if c.op in ("<", "<=") and isinstance(c.x, Rat):
            if c.x == want:
                return f"G1 {c!r}"
            if _proportional(want, c.x):
                return f"G1 (scaled by a positive factor) {c!r}"
            diff = c.x - want
            if diff.is_const() and diff.const_value() > 0:
                return f"G1 (stronger by a positive constant) {c!r}"
        if c.op in ("<", "<=") and isinstance(c.x, Rat):
            neg = -c.x
            a = neg.single_atom()
            if isinstance(a, tuple) and a[0] == "round" and isinstance(a[1], Rat) and a[1] == (H - D):
                return f"G1 (rounded) {c!r}"
    a = D.single_atom()
    if isinstance(a, tuple) and a[0] == "min":
        for x in a[1]:
            if x == H:
                return "G2 min(.., H)"
            try:
                q = x / H
            except ZeroDivisionError:
                continue
            if q.is_const() and 0 < q.const_value() <= 1:
                return f"G2 min(.., {q.const_value()}*H)"
    try:
        q = D / H
        if q.is_const() and 0 <= q.const_value() <= 1:
            return f"G2 {q.const_value()}*H"
    except ZeroDivisionError:
        pass
    return None


def _decrement_sites(f: FuncInfo) -> List[ast.AST]:
    out = []
    for n in ast.walk(f.node):
        if isinstance(n, ast.AugAssign) and isinstance(n.op, ast.Sub) and isinstance(n.target, ast.Attribute) \
                and n.target.attr in HOLDING_FIELDS:
            out.append(n)
        if isinstance(n, ast.Assign) and isinstance(n.targets[0], ast.Attribute) and n.targets[0].attr in HOLDING_FIELDS \
                and isinstance(n.value, (ast.BinOp, ast.Call)):
            t = ast.unparse(n.value)
            if " - " in t or "sub_base_amount" in t:
                out.append(n)
    return out


def run_guard(model: Model, res, classes: Optional[List[ClassInfo]] = None):
    classes = classes or ([model.cls("Asset"), model.cls("Broker")] + sorted(model.subclasses("Market"), key=lambda c: c.name))
    n_sites = 0
    n_funcs = 0
    # a private helper whose decrement is not guarded inside the helper itself is analysed again through the methods of
    # its class that call it (the guard of an extracted step may live in the caller)
    def _callers(c, f):
        out = []
        for g in c.methods.values():
            if g is f:
                continue
            for n in ast.walk(g.node):
                if isinstance(n, ast.Call) and isinstance(n.func, ast.Attribute) and n.func.attr == f.name \
                        and isinstance(n.func.value, ast.Name) and n.func.value.id == "self":
                    out.append(g)
                    break
        return out

    work = []
    for c in classes:
        for name, f in c.methods.items():
            sites = _decrement_sites(f)
            if sites:
                work.append((c, f, sites, None))
    while work:
        c, f, sites, helper = work.pop(0)
        if True:
            if helper is None:
                n_funcs += 1
                n_sites += len(sites)
            try:
                paths = Evaluator(model, opaque_funcs=OPAQUE).effect_paths(f, EFFECT_CALLS, c)
            except Unreadable as e:
                raise AnalysisError(f"{res.prop}: {f.qualname} decrements a holding but is outside the evaluator's language ({e})")
            problems = {}
            checked = 0
            for conds, env, ret in paths:
                if isinstance(ret, Raise):
                    continue
                # trial updates: a holding whose last store on this path puts back the value it had on entry
                restored = set()
                for e in env.get("$fx", ()):
                    if e[0] == "store" and isinstance(e[1], tuple):
                        if e[2] == "set" and isinstance(e[3], Rat) and e[3] == Rat.atom(e[1]):
                            restored.add(repr(e[1]))
                        else:
                            restored.discard(repr(e[1]))
                for e in env.get("$fx", ()):
                    if e[0] != "store":
                        continue
                    _, tgt, how, val = e[:4]
                    if not (isinstance(tgt, tuple) and tgt[0] == "attr" and tgt[2] in HOLDING_FIELDS):
                        continue
                    if repr(tgt) in restored:
                        continue
                    cur = e[4] if len(e) > 4 else None
                    H = cur if isinstance(cur, Rat) else Rat.atom(tgt)
                    why = None
                    if how == "aug:Sub" and isinstance(val, Rat):
                        checked += 1
                        why = _holds_guard(conds, val, H)
                    elif how == "set" and isinstance(val, Rat):
                        a = val.single_atom()
                        if isinstance(a, tuple) and a[0] == "call" and "sub_base_amount" in str(a[1]):
                            checked += 1
                            why = "G3 clamp-to-zero helper"
                        elif val.is_const() and val.const_value() == 0:
                            checked += 1
                            why = "G0 literal zero"
                        elif val == Rat.atom(tgt):
                            continue  # restores the value the field had on entry (saved-copy rollback), not a decrement
                        elif any(repr(tgt) in repr(x) for x in val.atoms()):
                            checked += 1
                            D = H - val
                            why = _holds_guard(conds, D, H)
                        else:
                            continue  # plain (re)initialisation, not a decrement
                    else:
                        continue
                    if why is None:
                        # opt-in exceptions
                        exc = None
                        for (fq, word), reason in EXCEPTIONS.items():
                            if f.qualname == fq and any(word in repr(cc) for cc in conds):
                                exc = reason
                        if exc is not None:
                            why = f"exception: {exc}"
                    if why is None:
                        key = (repr(tgt), how)
                        problems.setdefault(key, (tgt, how, val, conds))
            if problems and helper is None and f.name.startswith("_") and not f.name.endswith("__") \
                    and f.name.lstrip("_") not in {e.lstrip("_") for e in EFFECT_CALLS}:
                cs = _callers(c, f)
                try:
                    for g in cs:
                        Evaluator(model, opaque_funcs=OPAQUE).effect_paths(g, EFFECT_CALLS, c)
                except Unreadable:
                    cs = []  # a caller outside the evaluator's language: the helper must then hold on its own
                if cs:
                    for g in cs:
                        work.append((c, g, sites, f))
                    continue
            ok = not problems
            res.ob("R-GUARD", f"{f.qualname}: {len(sites)} decrement site(s), {checked} path instances guarded or clamped by the holding",
                   f.loc(sites[0]), ok=ok)
            for (tgt, how, val, conds) in problems.values():
                field = tgt[2]
                site = [s for s in sites if (s.target.attr if isinstance(s, ast.AugAssign) else s.targets[0].attr) == field]
                node = site[0] if site else sites[0]
                if not (f.node.lineno <= node.lineno <= (f.node.end_lineno or node.lineno)):
                    owner = [g for g in c.methods.values() if g.node.lineno <= node.lineno <= (g.node.end_lineno or 0)]
                    f = owner[0] if owner else f
                res.find("R-GUARD", f.qualname, f"unguarded decrement of {field}: {ast.unparse(node)[:90]}", f.loc(node),
                         f"{f.qualname}: `{ast.unparse(node)[:120]}` reduces the holding `{field}` by an amount that is neither "
                         f"compared with nor clamped to the holding on some path (guards on that path: "
                         f"{sorted(map(repr, conds))[:3]}); the holding can become negative / more than held can be paid out")
    return n_funcs, n_sites
