"""R-ORIENT-X -- (base, quote)-ordered results of the Uniswap market consumed by OTHER markets.

`UniLpMarket._convert_pair(a0, a1)` turns a (token0, token1) pair into (base, quote); which token is `base` depends on
the quote token the user chose for the pool.  A public method of the market whose returned tuple carries such a pair
(collect_fee, remove_liquidity, add_liquidity, ...) hands it to its caller in (base, quote) order.  A caller outside
demeter/uniswap that takes the pair apart and treats the components as amounts of SPECIFIC tokens (Squeeth: weth and
osqth) is right for one choice of quote token and silently swaps the amounts for the other - unless it consults the
pool's orientation (`quote_token` / `base_token` / `is_token0_quote`).

Rule (no names of variables are consulted, only def-use):
  * producers: fixpoint from `_convert_pair`: a function F is a producer at positions (i, i+1) when its return tuple has,
    at those positions, two names bound IN ORDER by one tuple assignment from a producer call at that producer's
    positions.  A function outside the Uniswap package that only forwards the components to its own return (same order)
    is itself a producer (its caller is then the consumer).
  * obligation per call site outside demeter/uniswap of a producer (receiver typed UniLpMarket, by field type or by the
    return annotation of a property) whose result is taken apart (tuple assignment or subscripts) and used other than by
    forwarding: the enclosing function reads the pool's orientation.
A site that does not is reported with the producer, the call and the component uses."""
from __future__ import annotations

import ast
from typing import Dict, List, Optional, Set, Tuple

from ..model import Model

ORIENT_ATTRS = {"quote_token", "base_token", "is_token0_quote", "_is_token0_quote"}
UNI_PKG = "demeter/uniswap/"


def _ret_annotation_class(model: Model, f) -> Optional[str]:
    r = f.node.returns
    if isinstance(r, ast.Name):
        return r.id
    if isinstance(r, ast.Constant) and isinstance(r.value, str):
        return r.value
    return None


def _receiver_is_uni(model: Model, f, recv: ast.expr) -> bool:
    """`self.<field>` / `self.<property>` typed UniLpMarket (or a subclass)."""
    if not (isinstance(recv, ast.Attribute) and isinstance(recv.value, ast.Name) and recv.value.id == "self" and f.cls is not None):
        return False
    t = model.field_type(f.cls, recv.attr)
    if t is not None and getattr(t, "name", None) is not None:
        return model.is_subclass(t, "UniLpMarket")
    for c in model.mro(f.cls):
        g = c.methods.get(recv.attr)
        if g is not None and any(ast.unparse(d) == "property" for d in g.node.decorator_list):
            nm = _ret_annotation_class(model, g)
            if nm:
                try:
                    return model.is_subclass(model.cls(nm), "UniLpMarket")
                except Exception:  # noqa
                    return False
    return False


def _callee(model: Model, f, call: ast.Call):
    """FuncInfo of a producer candidate: self.m(...) inside the Uniswap market, or <uni receiver>.m(...) elsewhere."""
    fn = call.func
    if not isinstance(fn, ast.Attribute):
        return None
    if isinstance(fn.value, ast.Name) and fn.value.id == "self" and f.cls is not None:
        name = fn.attr
        if name.startswith("__") and not name.endswith("__"):
            pass
        for c in model.mro(f.cls):
            if name in c.methods:
                return c.methods[name]
        return None
    if _receiver_is_uni(model, f, fn.value):
        u = model.cls("UniLpMarket")
        for c in model.mro(u):
            if fn.attr in c.methods:
                return c.methods[fn.attr]
    return None


def _tuple_assigns_from_calls(fnode):
    for st in ast.walk(fnode):
        if isinstance(st, ast.Assign) and len(st.targets) == 1 and isinstance(st.targets[0], (ast.Tuple, ast.List)) \
                and isinstance(st.value, ast.Call):
            yield st


def _returns(fnode):
    out = []
    for st in ast.walk(fnode):
        if isinstance(st, ast.Return) and st.value is not None:
            out.append(st)
    return out


def orientation_rule(model: Model, res, floor_sites: int = 1) -> Dict[str, int]:
    funcs = {id(f): f for f in model.all_functions()}
    prod: Dict[str, Set[int]] = {}       # qualname -> set of positions i such that (i, i+1) is a (base, quote) pair
    try:
        cp = model.func("UniLpMarket._convert_pair")
    except Exception:  # noqa
        raise
    prod[cp.qualname] = {0}

    def positions(f, call) -> Set[int]:
        g = _callee(model, f, call)
        return prod.get(g.qualname, set()) if g is not None else set()

    def bound_pairs(f) -> List[Tuple[str, str, ast.Assign, ast.Call]]:
        """(name_i, name_i+1, assignment, call) for every tuple assignment from a producer call."""
        out = []
        for st in _tuple_assigns_from_calls(f.node):
            ps = positions(f, st.value)
            elts = st.targets[0].elts
            for i in ps:
                if i + 1 < len(elts) and isinstance(elts[i], ast.Name) and isinstance(elts[i + 1], ast.Name):
                    out.append((elts[i].id, elts[i + 1].id, st, st.value))
        return out

    changed = True
    while changed:
        changed = False
        for f in funcs.values():
            bp = bound_pairs(f)
            direct = []        # `return self.producer(...)`
            for r in _returns(f.node):
                if isinstance(r.value, ast.Call):
                    for i in positions(f, r.value):
                        direct.append(i)
            if not bp and not direct:
                continue
            new = set(direct)
            for r in _returns(f.node):
                if isinstance(r.value, ast.Tuple):
                    el = r.value.elts
                    for j in range(len(el) - 1):
                        if isinstance(el[j], ast.Name) and isinstance(el[j + 1], ast.Name):
                            if any(a == el[j].id and b == el[j + 1].id for a, b, _s, _c in bp):
                                # only a forwarder when the names are not rebound in between: single definition each
                                new.add(j)
            # inside the Uniswap package a function that reads the orientation and still returns the pair keeps it (base,
            # quote); outside, a function that consults the orientation has converted the pair: not a producer
            outside = not f.module.relpath.startswith(UNI_PKG)
            if outside and _reads_orientation(f.node):
                new = set()
            if new - prod.get(f.qualname, set()):
                prod.setdefault(f.qualname, set()).update(new)
                changed = True

    n_sites = 0
    for f in funcs.values():
        if f.module.relpath.startswith(UNI_PKG):
            continue
        for st in ast.walk(f.node):
            call = None
            names: List[str] = []
            if isinstance(st, ast.Assign) and isinstance(st.value, ast.Call):
                ps = positions(f, st.value)
                if not ps:
                    continue
                call = st.value
                tg = st.targets[0]
                if isinstance(tg, (ast.Tuple, ast.List)):
                    for i in ps:
                        if i + 1 < len(tg.elts):
                            names += [e.id for e in tg.elts[i:i + 2] if isinstance(e, ast.Name)]
                    whole = None
                elif isinstance(tg, ast.Name):
                    whole = tg.id
                else:
                    continue
            else:
                continue
            n_sites += 1
            g = _callee(model, f, call)
            uses = _component_uses(f.node, names, whole, st)
            forwarded_only = all(u == "return" for u in uses)
            ok = forwarded_only or _reads_orientation(f.node) or (whole is not None and _handed_to_converter(model, f, whole, 0))
            res.ob("R-ORIENT", f"{f.qualname}: (base, quote) pair from {g.qualname} is "
                               f"{'forwarded' if forwarded_only else 'taken apart'}"
                               f"{'' if forwarded_only else (' under an orientation test' if ok else ' without consulting the orientation')}",
                   f.loc(st), ok=ok)
            if not ok:
                res.find("R-ORIENT", f.qualname, f"components of {g.qualname}(...) used as fixed tokens", f.loc(st),
                         f"{f.qualname} takes the (base, quote)-ordered result of {g.qualname} apart (`{ast.unparse(st)[:80]}`) and "
                         f"uses the components separately ({', '.join(sorted(set(uses)))}) without reading the pool's quote_token / "
                         f"base_token / is_token0_quote: which component is which token depends on the quote token chosen for the "
                         f"pool, so for one of the two choices the amounts are swapped")
    return {"producers": len(prod), "sites": n_sites}


def _handed_to_converter(model: Model, f, whole: str, depth: int) -> bool:
    """The undivided pair is only passed on (argument of a resolvable method of the same class, or returned): every
    receiving helper reads the orientation itself or hands the pair on the same way."""
    if depth > 3:
        return False
    parents = {}
    for p in ast.walk(f.node):
        for ch in ast.iter_child_nodes(p):
            parents[id(ch)] = p
    any_use = False
    for n in ast.walk(f.node):
        if not (isinstance(n, ast.Name) and isinstance(n.ctx, ast.Load) and n.id == whole):
            continue
        any_use = True
        p = parents.get(id(n))
        if isinstance(p, ast.Return):
            continue
        if isinstance(p, ast.Call) and n in p.args and isinstance(p.func, ast.Attribute) and isinstance(p.func.value, ast.Name) \
                and p.func.value.id == "self" and f.cls is not None:
            g = None
            for c in model.mro(f.cls):
                if p.func.attr in c.methods:
                    g = c.methods[p.func.attr]
                    break
            if g is None:
                return False
            idx = p.args.index(n)
            params = [a.arg for a in g.node.args.args if a.arg not in ("self", "cls")]
            if idx >= len(params):
                return False
            if _reads_orientation(g.node) or _handed_to_converter(model, g, params[idx], depth + 1):
                continue
            return False
        return False
    return any_use


def _reads_orientation(fnode) -> bool:
    return any(isinstance(n, ast.Attribute) and n.attr in ORIENT_ATTRS for n in ast.walk(fnode))


def _component_uses(fnode, names: List[str], whole: Optional[str], at: ast.stmt) -> List[str]:
    """How the components are used after the binding: 'return' (position-preserving forwarding), or a description."""
    uses: List[str] = []
    parents = {}
    for p in ast.walk(fnode):
        for ch in ast.iter_child_nodes(p):
            parents[id(ch)] = p
    for n in ast.walk(fnode):
        if isinstance(n, ast.Name) and isinstance(n.ctx, ast.Load):
            if n.id in names:
                p = parents.get(id(n))
                if isinstance(p, ast.Tuple) and isinstance(parents.get(id(p)), ast.Return):
                    # forwarded in the same relative order?
                    el = [e.id for e in p.elts if isinstance(e, ast.Name)]
                    idx = [el.index(x) for x in names if x in el]
                    uses.append("return" if idx == sorted(idx) and len(idx) == len([x for x in names if x in el]) else "reordered return")
                else:
                    uses.append(f"`{ast.unparse(p)[:50]}`" if p is not None else n.id)
            elif whole is not None and n.id == whole:
                p = parents.get(id(n))
                if isinstance(p, ast.Return):
                    uses.append("return")
                elif isinstance(p, ast.Subscript):
                    uses.append(f"`{ast.unparse(p)[:50]}`")
                else:
                    uses.append(f"`{ast.unparse(p)[:50]}`" if p is not None else n.id)
    return uses
