"""R-ATOM -- failure atomicity of user operations.

On every path of the inlined body of a transaction entry point, track the set of user-state writes done so
far and not rolled back (`dirty`).  An uncaught rejection (raise / require / assert / write_func gate)
reached with dirty != {} is reported as (write construct, rejection construct).
"""
from __future__ import annotations

import ast
from typing import Dict, List, Optional, Tuple

from ..interp import Domain, Frame, Interp, VPath, WriteEvent
from ..model import AnalysisError, ClassInfo, FuncInfo, Model
from ..state import is_user_state_path
from .common import purge_loop_facts, PRIMITIVE_FUNCS, canon_key, is_loop_key, site_of, stmt_of, text_of, key_text

# (helper, callee name) pairs where the callee starts a new constituent transaction
BOUNDARIES = {
    ("UniLpMarket.add_liquidity_by_value", "swap"),
    ("UniLpMarket.add_liquidity_by_value", "add_liquidity_by_tick"),
    ("UniLpMarket.even_rebalance", "buy"),
    ("UniLpMarket.even_rebalance", "sell"),
    ("UniLpMarket.remove_all_liquidity", "remove_liquidity"),
    ("UniLpMarket.remove_liquidity", "collect_fee"),
    ("SqueethMarket.open_deposit_mint_by_collat_rate", "open_deposit_mint"),
    ("SqueethMarket.buy_squeeth", "buy"),
    ("SqueethMarket.sell_squeeth", "sell"),
}

# not user operations (per-bar machinery, wiring, loaders, printing)
NON_OPERATIONS = {
    "set_market_status", "update", "check_market", "load_data", "formatted_str", "load_pkl_data",
    "add_market", "check_backtest", "get_account_status", "set_token_data", "add_token", "add_statistic_column",
    # bar-end market machinery invoked from update(), not operations a strategy issues
    "liquidate", "check_option_exercise",
}

# Alias sets: when every member of one side is known to be a key of a container, so is every member of the
# other side.  UniLpMarket.__init__: `self.base_token, self.quote_token = self._convert_pair(token0, token1)`
# (a permutation), checked structurally by `check_alias_anchor`.
ALIAS_SETS = [
    (
        frozenset({("p", "UniLpMarket", "_pool", "token0"), ("p", "UniLpMarket", "_pool", "token1")}),
        frozenset({("p", "UniLpMarket", "base_token"), ("p", "UniLpMarket", "quote_token")}),
    ),
]


def check_alias_anchor(model: Model) -> bool:
    """base_token/quote_token must be assigned from _convert_pair(token0, token1) (a permutation)."""
    init = model.cls("UniLpMarket").methods.get("__init__")
    cp = model.find_method(model.cls("UniLpMarket"), "_convert_pair")
    if init is None or cp is None:
        return False
    ok = False
    for n in ast.walk(init.node):
        if isinstance(n, ast.Assign) and isinstance(n.targets[0], ast.Tuple) and isinstance(n.value, ast.Call):
            names = [ast.unparse(e) for e in n.targets[0].elts]
            if names == ["self.base_token", "self.quote_token"] and ast.unparse(n.value.func) == "self._convert_pair":
                args = sorted(ast.unparse(a).replace("pool_info", "_pool") for a in n.value.args)
                ok = args == ["self._pool.token0", "self._pool.token1"]
    # _convert_pair returns a permutation of its two arguments
    rets = [r for r in ast.walk(cp.node) if isinstance(r, ast.Return)]
    perm = False
    for r in rets:
        v = r.value
        if isinstance(v, ast.IfExp) and isinstance(v.body, ast.Tuple) and isinstance(v.orelse, ast.Tuple):
            a = sorted(ast.unparse(e) for e in v.body.elts)
            b = sorted(ast.unparse(e) for e in v.orelse.elts)
            perm = a == b == sorted(cp.params[1:])
    return ok and perm


def _toplevel_calls(fnode, name):
    """Calls to `name` that are executed unconditionally at statement level of the function body."""
    out = []
    for st in fnode.body:
        if isinstance(st, (ast.Assign, ast.AnnAssign, ast.Expr, ast.Return)) and st.value is not None:
            for n in ast.walk(st.value):
                if isinstance(n, ast.Call) and isinstance(n.func, (ast.Name, ast.Attribute)):
                    fn = n.func.id if isinstance(n.func, ast.Name) else n.func.attr
                    if fn == name:
                        out.append(n)
        elif isinstance(st, (ast.If, ast.For, ast.While, ast.Try, ast.With)):
            continue
    return out


def _param_reassigned(f: FuncInfo, name: str) -> bool:
    for n in ast.walk(f.node):
        if isinstance(n, ast.Name) and n.id == name and isinstance(n.ctx, (ast.Store, ast.Del)):
            return True
    return False


def check_position_tick_invariant(model: Model) -> bool:
    """Every key of UniLpMarket._positions was validated by get_sqrt_ratio_at_tick on both ticks:
    (1) the only creation site of `_positions[k]` takes k from V3CoreLib.new_position(...)[3];
    (2) new_position calls get_liquidity(_, L, U, ...) unconditionally and returns PositionInfo(lower_tick=L,
        upper_tick=U) built from the same, never reassigned, names;
    (3) get_liquidity calls get_sqrt_ratio_at_tick on its 2nd and 3rd parameter unconditionally."""
    try:
        uni = model.cls("UniLpMarket")
        newp = model.func("V3CoreLib.new_position")
        getl = model.func("uniswap.liquitidy_math.get_liquidity")
    except Exception:
        return False
    from ..vn import Evaluator, Obj, Raise, Tup, Unreadable, as_term, sym
    # (3) on every non-raising path of get_liquidity (helpers inlined) the validator is called on both tick parameters
    pa, pb = getl.params[1], getl.params[2]
    try:
        for conds, env, ret in Evaluator(model).effect_paths(getl, ["get_sqrt_ratio_at_tick"], None):
            if isinstance(ret, Raise):
                continue
            seen = {repr(dict(e[3]).get("0")) for e in env.get("$fx", ()) if e[0] == "call" and e[1] == "get_sqrt_ratio_at_tick"}
            if not {repr(as_term(sym(pa))), repr(as_term(sym(pb)))} <= seen:
                return False
        # (2) new_position passes two of its own parameters L, U to get_liquidity on every path and returns, at a fixed
        # index, the PositionInfo built from the same L, U
        idxs = set()
        for conds, env, ret in Evaluator(model, opaque_funcs=["get_sqrt_ratio_at_tick", "get_amounts", "from_wei"]).effect_paths(
                newp, ["get_liquidity"], newp.cls):
            if isinstance(ret, Raise):
                continue
            calls = [e for e in env.get("$fx", ()) if e[0] == "call" and e[1] == "get_liquidity"]
            if not calls or not isinstance(ret, Tup):
                return False
            args = dict(calls[0][3])
            L, U = args.get("1"), args.get("2")
            if not (isinstance(L, tuple) and L[0] == "sym" and L[1] in newp.params and isinstance(U, tuple) and U[0] == "sym"
                    and U[1] in newp.params):
                return False
            hit = [i for i, x in enumerate(ret.items) if isinstance(x, Obj) and x.cls == "PositionInfo"
                   and repr(as_term(x.fields.get("lower_tick"))) == repr(L) and repr(as_term(x.fields.get("upper_tick"))) == repr(U)]
            if len(hit) != 1:
                return False
            idxs.add((hit[0], len(ret.items)))
    except Unreadable as e:
        raise AnalysisError(f"position-tick invariant: get_liquidity / new_position outside the evaluator's language ({e})")
    if len(idxs) != 1:
        return False
    (pidx, nret), = idxs
    # (1) creation sites
    sites = []
    for f in model.all_functions():
        for n in ast.walk(f.node):
            if isinstance(n, (ast.Assign, ast.AnnAssign)):
                tgts = n.targets if isinstance(n, ast.Assign) else [n.target]
                for t in tgts:
                    if isinstance(t, ast.Subscript) and ast.unparse(t.value) in ("self._positions", "self.positions") \
                            and f.cls is not None and model.is_subclass(f.cls, "UniLpMarket"):
                        sites.append((f, t))
    if not sites:
        return False
    for f, t in sites:
        if not isinstance(t.slice, ast.Name):
            return False
        key = t.slice.id
        ok = False
        for n in ast.walk(f.node):
            if isinstance(n, ast.Assign) and isinstance(n.targets[0], ast.Tuple) and isinstance(n.value, ast.Call) \
                    and ast.unparse(n.value.func).endswith("new_position"):
                names = [e.id if isinstance(e, ast.Name) else None for e in n.targets[0].elts]
                if len(names) == nret and names[pidx] == key:
                    ok = True
        if not ok:
            return False
    return True


def assets_never_removed(model: Model) -> bool:
    for f in model.all_functions():
        for n in ast.walk(f.node):
            if isinstance(n, ast.Delete):
                for t in n.targets:
                    if isinstance(t, ast.Subscript) and ast.unparse(t.value).endswith(("_assets", ".assets")):
                        return False
            if isinstance(n, ast.Call) and isinstance(n.func, ast.Attribute) and n.func.attr in ("pop", "clear", "popitem") \
                    and ast.unparse(n.func.value).endswith(("_assets", ".assets")):
                return False
    return True


TOK0 = ("p", "UniLpMarket", "_pool", "token0")
TOK1 = ("p", "UniLpMarket", "_pool", "token1")
ASSETS = ("Broker", "_assets")
UNIPOS = ("UniLpMarket", "_positions")


def check_position_wallet_invariant(model: Model) -> bool:
    """A key is added to UniLpMarket._positions (or its liquidity raised) only after both wallet debits
    succeeded, hence with both pool tokens present in Broker._assets; assets are never removed."""
    if not assets_never_removed(model):
        return False
    try:
        f = model.func("UniLpMarket._add_liquidity_by_tick")
    except Exception:
        return False
    dom = AtomDomain(model, invariants=False)
    seen = []

    orig = dom.on_write

    def spy(st, ev):
        if ev.path[:2] == UNIPOS and (ev.path == UNIPOS + ("[]",) and ev.how == "set"
                                      or ev.path == UNIPOS + ("[]", "liquidity") and ev.how == "aug"):
            facts = st[1]
            seen.append(("in", ASSETS, TOK0) in facts and ("in", ASSETS, TOK1) in facts)
        return orig(st, ev)

    dom.on_write = spy  # type: ignore[assignment]
    Interp(model, dom).run(f, f.cls)
    return bool(seen) and all(seen)


def _has_rejection(f: FuncInfo) -> bool:
    return any(isinstance(n, (ast.Raise, ast.Assert)) for n in ast.walk(f.node))


def _is_pure_module_func(f: FuncInfo) -> bool:
    if f.cls is not None or f.qualname in PRIMITIVE_FUNCS:
        return False
    for n in ast.walk(f.node):
        if isinstance(n, (ast.Global, ast.Nonlocal)):
            return False
        if isinstance(n, (ast.Assign, ast.AugAssign, ast.AnnAssign, ast.Delete)):
            tg = n.targets if isinstance(n, (ast.Assign, ast.Delete)) else [n.target]
            for t in tg:
                for e in ast.walk(t):
                    if isinstance(e, (ast.Attribute, ast.Subscript)):
                        return False
    return True


_INV_CACHE: Dict[int, dict] = {}


def _invariants(model: Model) -> dict:
    k = id(model)
    if k not in _INV_CACHE:
        _INV_CACHE.clear()
        _INV_CACHE[k] = {"tick": False, "wallet": False}  # guards the recursive use inside the checks
        _INV_CACHE[k] = {"tick": check_position_tick_invariant(model),
                         "wallet": check_position_wallet_invariant(model)}
    return _INV_CACHE[k]


class Site:
    __slots__ = ("func", "text", "loc", "kind", "ktext")

    def __init__(self, func, text, loc, kind, ktext=None):
        self.func, self.text, self.loc, self.kind = func, text, loc, kind
        self.ktext = ktext if ktext is not None else text      # identity text: local names positional


class AtomDomain(Domain):
    name = "R-ATOM"

    def __init__(self, model: Model, boundaries=BOUNDARIES, invariants=True):
        self.model = model
        self.boundaries = boundaries
        self.alias_ok = check_alias_anchor(model)
        inv = _invariants(model) if invariants else {"tick": False, "wallet": False}
        self.tick_inv = inv["tick"]
        self.wallet_inv = inv["wallet"]
        self.inv_used = {"tick": 0, "wallet": 0}
        self.okcall_used = 0
        self._tracked_cache = {}
        self.sites: Dict[tuple, Site] = {}
        self.write_sites_seen: set = set()
        self.rollbacks: List[str] = []
        self.pruned_by_fact = 0

    def initial(self, fr):
        return [(frozenset(), frozenset())]

    # ------------------------------------------------------------------ sites
    def _site(self, node, fr: Frame, kind: str) -> tuple:
        n, f = site_of(node, fr)
        if not isinstance(n, (ast.FunctionDef, ast.AsyncFunctionDef)):
            n = stmt_of(n) if kind == "write" else n
        txt = text_of(n, f)
        key = (f.func.qualname, txt)
        if key not in self.sites:
            self.sites[key] = Site(f.func.qualname, txt, f.loc(n), kind, key_text(n, f))
        return key

    def _tracked(self, cont) -> bool:
        """Membership facts are kept only for containers of user state (positions, debts, wallet, book)."""
        r = self._tracked_cache.get(cont)
        if r is None:
            r = len(cont) == 2 and is_user_state_path(self.model, cont + ("[]",))
            self._tracked_cache[cont] = r
        return r

    def _add_in(self, facts, cont, key):
        if not self._tracked(cont) or is_loop_key(key):
            return facts
        facts = facts | {("in", cont, key)}
        if self.wallet_inv and cont == UNIPOS and ("in", ASSETS, TOK0) not in facts:
            self.inv_used["wallet"] += 1
            facts = self._add_in(self._add_in(facts, ASSETS, TOK0), ASSETS, TOK1)
        if self.alias_ok:
            for a, b in ALIAS_SETS:
                for x, y in ((a, b), (b, a)):
                    if key in x and all(("in", cont, k) in facts for k in x):
                        facts = facts | {("in", cont, k) for k in y}
        return facts

    # ----------------------------------------------------------------- events
    def on_write(self, st, ev: WriteEvent):
        dirty, facts = st
        path = ev.path
        cont = path[:-1] if path[-1] == "[]" else None
        if path[-1] == "is_open":
            facts = frozenset(f for f in facts if f[0] != "open")
        if cont is not None:
            if ev.how == "set" and ev.key is not None:
                facts = self._add_in(facts, cont, canon_key(ev.key, ev.fr))
            elif ev.how != "set":
                facts = frozenset(f for f in facts if not (f[0] == "in" and f[1] == cont))
        if not is_user_state_path(self.model, path):
            return [(dirty, facts)]
        k = self._key_of(ev)
        pstr = ".".join(path)
        # rollback idiom: L = saved, where `saved = L` was taken before the write
        if ev.how == "set" and isinstance(ev.value, ast.Name) and self._is_saved_copy(ev, path, k):
            nd = frozenset(d for d in dirty if not (d[0] == pstr and d[1] == k))
            if nd != dirty:
                self.rollbacks.append(f"{ev.fr.loc(ev.node)} restores {pstr}")
            return [(nd, facts)]
        site = self._site(ev.node, ev.fr, "write")
        self.write_sites_seen.add(site)
        return [(dirty | {(pstr, k, site)}, facts)]

    def _key_of(self, ev: WriteEvent):
        # key of the innermost subscript on the written path (which element of the container)
        n = ev.node
        tgt = None
        if isinstance(n, (ast.Assign,)):
            tgt = n.targets[0]
        elif isinstance(n, (ast.AugAssign, ast.AnnAssign)):
            tgt = n.target
        elif isinstance(n, ast.Delete):
            tgt = n.targets[0]
        while tgt is not None and not isinstance(tgt, ast.Subscript):
            tgt = tgt.value if isinstance(tgt, ast.Attribute) else None
        if isinstance(tgt, ast.Subscript):
            return canon_key(tgt.slice, ev.fr)
        return ("-",)

    def _is_saved_copy(self, ev: WriteEvent, path, k) -> bool:
        fr = ev.fr
        defs = [d for d in fr._defs.get(ev.value.id, []) if d[0] != "decl"]
        if len(defs) != 1 or defs[0][0] != "assign":
            return False
        valnode, idx = defs[0][2]
        if idx != () or valnode is None:
            return False
        v = fr.interp.pure(valnode, fr)
        if not isinstance(v, VPath) or v.path != path:
            return False
        if defs[0][1].lineno >= ev.node.lineno:
            return False
        # same element
        sub = valnode
        while sub is not None and not isinstance(sub, ast.Subscript):
            sub = sub.value if isinstance(sub, ast.Attribute) else None
        k2 = canon_key(sub.slice, fr) if isinstance(sub, ast.Subscript) else ("-",)
        return k2 == k

    def on_read(self, st, path, node, fr):
        if path[-1] == "[]" and isinstance(node, ast.Subscript):
            dirty, facts = st
            return [(dirty, self._add_in(facts, path[:-1], canon_key(node.slice, fr)))]
        return [st]

    def on_call(self, st, callee, node, fr, recv, args):
        name = callee.name if callee is not None else None
        if name is None and isinstance(node, ast.Call):
            f = node.func
            if isinstance(f, ast.Attribute) and f.attr == "_record_action_callback":
                name = "_record_action"
        if name == "_record_action":
            dirty, facts = st
            site = self._site(node, fr, "write")
            self.write_sites_seen.add(site)
            return [(dirty | {("ACTION-LOG", ("-",), site)}, facts)]
        if callee is not None and callee.cls is None and _has_rejection(callee) and _is_pure_module_func(callee):
            fact = self._okcall_fact(callee, node, fr)
            if fact in st[1]:
                self.okcall_used += 1
                return [st]
            if self.tick_inv and callee.name == "get_sqrt_ratio_at_tick" and len(fact[2]) == 1:
                a = fact[2][0]
                if len(a) == 3 and a[0] == "a" and a[2] in ("lower_tick", "upper_tick") \
                        and ("in", UNIPOS, a[1]) in st[1]:
                    self.inv_used["tick"] += 1
                    return [st]
        return None

    def _okcall_fact(self, callee, node, fr):
        args = tuple(canon_key(a, fr) for a in node.args) + tuple(
            (k.arg, canon_key(k.value, fr)) for k in node.keywords)
        return ("okcall", callee.qualname, args)

    def on_call_return(self, st, callee, node, fr):
        if callee.cls is None and isinstance(node, ast.Call) and _has_rejection(callee) and _is_pure_module_func(callee):
            return [(st[0], st[1] | {self._okcall_fact(callee, node, fr)})]
        return [st]

    def pre_call(self, st, callee, node, fr):
        if (fr.func.qualname, callee.name) in self.boundaries:
            return (frozenset(), st[1])
        return st

    def on_loop_edge(self, st, loopnode, fr):
        return (st[0], purge_loop_facts(st[1], loopnode, fr))

    def on_branch(self, st, test, fr, taken):
        dirty, facts = st
        if getattr(test, "_gate", False):
            root = fr.selfv.path[0] if isinstance(fr.selfv, VPath) else "?"
            fact = ("open", root)
            if taken:
                return [(dirty, facts | {fact})]
            if fact in facts:
                self.pruned_by_fact += 1
                return []
            return [st]
        if isinstance(test, ast.Compare) and len(test.ops) == 1 and isinstance(test.ops[0], (ast.In, ast.NotIn)):
            c = test.comparators[0]
            if isinstance(c, ast.Call) and isinstance(c.func, ast.Attribute) and c.func.attr == "keys" and not c.args:
                c = c.func.value
            cv = fr.interp.pure(c, fr)
            if isinstance(cv, VPath):
                fact = ("in", cv.path, canon_key(test.left, fr))
                is_in = taken if isinstance(test.ops[0], ast.In) else (not taken)
                if is_in:
                    return [(dirty, self._add_in(facts, fact[1], fact[2]))]
                if fact in facts:
                    self.pruned_by_fact += 1
                    return []
        return [st]


def entry_points(model: Model) -> List[Tuple[FuncInfo, ClassInfo]]:
    out = []
    classes = [model.cls("Broker")] + sorted(model.subclasses("Market"), key=lambda c: c.name)
    for c in classes:
        seen = set()
        for k in model.mro(c):
            for name, f in k.methods.items():
                if name in seen:
                    continue
                seen.add(name)
                if name.startswith("_") or f.is_property or f.is_static or f.is_abstract:
                    continue
                if name in NON_OPERATIONS or name.startswith("get_") or name.startswith("estimate_"):
                    continue
                out.append((f, c))
    return out


def run_atom(model: Model, res, prop: str = "C04", entries=None, max_depth: int = 8):
    """Run R-ATOM over all transaction entry points; add obligations and findings to `res`."""
    eps = entries if entries is not None else entry_points(model)
    n_ops = 0
    n_paths = 0
    total_unres: Dict[str, int] = {}
    resolved = 0
    cuts: List[str] = []
    seen_pairs = set()
    op_names = []
    for f, c in eps:
        dom = AtomDomain(model)
        it = Interp(model, dom, max_depth=max_depth)
        out, raises = it.run(f, c)
        resolved += it.resolved_calls
        for k, v in it.unresolved.items():
            total_unres[k] = total_unres.get(k, 0) + v
        cuts.extend(it.depth_cuts)
        if not dom.write_sites_seen:
            continue  # not a state-changing operation
        n_ops += 1
        entry = f"{c.name}.{f.name}"
        op_names.append(entry)
        rej_total = 0
        rej_dirty = 0
        for (st, exc, node, rfr, note) in raises:
            rej_total += 1
            dirty, facts = st
            rsite = dom._site(node, rfr, "raise")
            rs = dom.sites[rsite]
            if not dirty:
                continue
            rej_dirty += 1
            for (pstr, k, wsite) in sorted(dirty, key=lambda d: (d[2], d[0])):
                ws = dom.sites[wsite]
                pair = (wsite, rsite)
                if pair in seen_pairs:
                    continue
                seen_pairs.add(pair)
                construct = f"{ws.ktext} >> [{rs.func}] {rs.ktext}"
                res.find(
                    "R-ATOM", ws.func, construct, ws.loc,
                    f"state write `{ws.text}` ({pstr}) is not undone when the operation is rejected at {rs.loc} "
                    f"`{rs.text}` ({exc}); reached from {entry}",
                    {"entry": entry, "write": {"func": ws.func, "loc": ws.loc, "text": ws.text, "key_text": ws.ktext, "path": pstr},
                     "rejection": {"func": rs.func, "loc": rs.loc, "text": rs.text, "key_text": rs.ktext, "exception": exc}},
                )
        n_paths += rej_total
        res.ob("R-ATOM", f"{entry}: {rej_total} reachable rejection exits, {len(dom.write_sites_seen)} write sites",
               f.loc(), ok=(rej_dirty == 0),
               detail=(f"{rej_dirty} rejection exits reached with un-rolled-back writes" if rej_dirty else
                       "no rejection exit is reachable after a state write"))
    res.units["operations_with_state_writes"] = n_ops
    res.units["operations"] = ", ".join(op_names)
    res.units["rejection_exits_examined"] = n_paths
    res.units["calls_resolved"] = resolved
    res.units["calls_unresolved"] = {k: v for k, v in sorted(total_unres.items())}
    if cuts:
        res.units["inlining_depth_cuts"] = sorted(set(cuts))
    return n_ops
