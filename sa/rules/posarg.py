"""R-POS -- an operation never moves a NEGATIVE amount.

C03 quantifies over "all argument values including boundary and oversized amounts" and demands that no wallet balance,
liquidity, supply, debt, vault amount, option amount or pool-share amount ever becomes negative and that no operation
raises the net value.  The wallet primitives do not defend themselves: `Asset.sub(a)` with a < 0 passes the
insufficient-balance test and ADDS |a|, `Asset.add(a)` with a < 0 subtracts without any test.  So every user operation
has to reject a negative amount itself, before it moves anything.

Decided on the effect paths of the value-numbering evaluator (the same paths R-GUARD and the ledgers use): for every
user operation (public methods of Broker and of the Market subclasses that change state), on every path that does not
reject and that performs a value movement -

  * a wallet primitive called with amount A (`subtract_from_balance`, `add_to_balance`, the Deribit cash primitives),
  * a store that adds to / subtracts from a holding field (R-GUARD's table) by D,

- every scalar parameter p of the operation that occurs in A or D must be bounded from below on that path: a path
condition `c - k*p (<|<=) 0` with k > 0 and c >= 0 (the surviving arm of `if p < 0: raise`, `require(p > 0)`, `p >= x`
with x non-negative), or `p == H` for a holding H.  A parameter that only selects (a token, a key, a flag) never occurs
in an amount.  One finding per (operation, parameter); the report names the first movement it reaches.

An operation outside the evaluator's language is listed as not decided (never a violation)."""
from __future__ import annotations

import ast
from typing import Dict, List, Optional, Tuple

from ..model import ClassInfo, FuncInfo, Model
from ..norm import Rat, all_atoms_deep
from ..vn import Cond, Evaluator, Raise, Unreadable, BudgetExceeded
from .atom import entry_points
from .guard import EFFECT_CALLS, HOLDING_FIELDS, OPAQUE
from .sign import derivative, subst

WALLET_CALLS = {"subtract_from_balance": 1, "add_to_balance": 1, "_subtract_from_balance": 0, "_add_to_balance": 0}


def _terms_of(x):
    """Rat / term -> iterable of atoms at any depth."""
    try:
        return list(all_atoms_deep(x if isinstance(x, Rat) else ("t", x)))
    except Exception:  # noqa
        return []


def _mentions(x, p: str) -> bool:
    want = ("sym", p)
    return any(a == want for a in _terms_of(x))


def _nonneg_const_or_state(r: Rat, params) -> bool:
    """c >= 0 in `c - k*p <= 0`: a non-negative constant, or an expression without parameters whose coefficients are all
    non-negative (holdings, prices, indices are non-negative quantities)."""
    if r.is_const():
        return r.const_value() >= 0
    if any(("sym", q) in set(_terms_of(r)) for q in params):
        return False
    return all(c >= 0 for c in r.n.t.values()) and all(c > 0 for c in r.d.t.values())


def lower_bounded(p: str, conds, params) -> Optional[str]:
    atom = ("sym", p)
    for c in conds:
        if not isinstance(c, Cond) or not isinstance(c.x, Rat):
            continue
        if atom not in c.x.atoms():
            continue
        if c.op == "==":
            return f"{c!r}"            # pinned to another quantity of the state (p == holding / p == 0)
        if c.op not in ("<", "<="):
            continue
        d = derivative(c.x, atom)
        if not d.is_const() or d.const_value() >= 0:
            continue
        rest = subst(c.x, {atom: Rat.const(0)})
        if _nonneg_const_or_state(rest, params):
            return f"{c!r}"
    return None


def run_posarg(model: Model, res, rule: str = "R-POS", max_paths: int = 3000):
    n_ops = 0
    n_mov = 0
    undecided: List[str] = []
    for f, c in entry_points(model):
        params = [p for p in f.params[1:] + f.kwonly]
        if not params:
            continue
        try:
            ev = Evaluator(model, opaque_funcs=OPAQUE, max_paths=max_paths)
            paths = ev.effect_paths(f, EFFECT_CALLS, c)
        except (Unreadable, BudgetExceeded) as e:
            undecided.append(f"{c.name}.{f.name} ({str(e)[:60]})")
            continue
        except RecursionError:
            undecided.append(f"{c.name}.{f.name} (recursion)")
            continue
        moves_any = False
        bad: Dict[str, Tuple[str, str, list]] = {}
        okp: Dict[str, str] = {}
        for conds, env, ret in paths:
            if isinstance(ret, Raise):
                continue
            for e in env.get("$fx", ()):
                amt = None
                what = None
                if e[0] == "call" and e[1] in WALLET_CALLS:
                    args = dict(e[3]) if not isinstance(e[3], dict) else e[3]
                    amt = args.get(str(WALLET_CALLS[e[1]]))
                    if amt is None:
                        amt = args.get("amount")
                    what = f"{e[1]}(...)"
                elif e[0] == "store" and isinstance(e[1], tuple) and e[1][0] == "attr" and e[1][2] in HOLDING_FIELDS and e[2] in ("aug:Add", "aug:Sub"):
                    amt = e[3]
                    what = f"{e[1][2]} {'+=' if e[2] == 'aug:Add' else '-='}"
                elif e[0] == "expr" and isinstance(e[1], tuple) and len(e[1]) >= 4 and e[1][0] == "m" and e[1][1] in ("add", "sub"):
                    amt = e[1][3]
                    what = f"Asset.{e[1][1]}(...)"
                if amt is None:
                    continue
                moves_any = True
                n_mov += 1
                for p in params:
                    if not _mentions(amt, p):
                        continue
                    lb = lower_bounded(p, conds, params)
                    if lb is None:
                        bad.setdefault(p, (what, repr(amt)[:120], sorted(map(repr, conds))[:3]))
                    else:
                        okp.setdefault(p, lb)
        if not moves_any:
            continue
        n_ops += 1
        entry = f"{c.name}.{f.name}"
        res.ob(rule, f"{entry}: amount parameters {sorted(set(bad) | set(okp)) or '-'} are rejected when negative before anything moves", f.loc(), ok=not bad,
               detail="; ".join(f"{p}: {okp[p]}" for p in sorted(okp) if p not in bad)[:300])
        for p, (what, amt, cs) in sorted(bad.items()):
            res.find(rule, entry, f"negative `{p}` reaches {what}", f.loc(),
                     f"{entry}: the parameter `{p}` reaches `{what}` as `{amt}` on a path that never requires it to be non-negative "
                     f"(guards on that path: {cs}). The wallet primitives do not reject negative amounts (a negative debit is a credit, a "
                     f"negative credit an unchecked debit), so a negative `{p}` runs the operation backwards: a holding can become negative "
                     f"or value is paid out that nothing was given for",
                     {"entry": entry, "param": p, "sink": what})
    res.units["operations_moving_value"] = n_ops
    res.units["value_movements_examined"] = n_mov
    if undecided:
        res.notes.append("R-POS not decided (outside the evaluator's language): " + ", ".join(undecided))
        res.units["operations_not_decided_by_R-POS"] = len(undecided)
    return n_ops, n_mov
