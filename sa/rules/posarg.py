"""R-POS -- an operation never moves a NEGATIVE amount.

C03 quantifies over "all argument values including boundary and oversized amounts" and demands that no wallet balance,
liquidity, supply, debt, vault amount, option amount or pool-share amount ever becomes negative and that no operation
raises the net value.  The wallet primitives do not defend themselves: `Asset.sub(a)` with a < 0 passes the
insufficient-balance test and ADDS |a|, `Asset.add(a)` with a < 0 subtracts without any test.  So every user operation
has to reject a negative amount itself, before it moves anything.

Decided on the effect paths of the value-numbering evaluator (the same paths R-GUARD and the ledgers use): for every
user operation (public methods of Broker and of the Market subclasses that change state), on every path that does not
reject and that performs a value movement -

  * a wallet primitive called with amount A (`subtract_from_balance`, `add_to_balance`, the Deribit cash primitives),
  * a store that adds to / subtracts from a holding field (R-GUARD's table) by D,

- every scalar parameter p of the operation that occurs in A or D must be bounded from below on that path: a path
condition `c - k*p (<|<=) 0` with k > 0 and c >= 0 (the surviving arm of `if p < 0: raise`, `require(p > 0)`, `p >= x`
with x non-negative), or `p == H` for a holding H.  A parameter that only selects (a token, a key, a flag) never occurs
in an amount.  One finding per (operation, parameter); the report names the first movement it reaches.

An operation outside the evaluator's language is listed as not decided (never a violation)."""
from __future__ import annotations

import ast
from typing import Dict, List, Optional, Tuple

from ..model import ClassInfo, FuncInfo, Model
from ..norm import Rat, all_atoms_deep
from ..vn import Cond, Evaluator, Raise, Unreadable, BudgetExceeded
from .atom import entry_points
from .guard import EFFECT_CALLS, HOLDING_FIELDS, OPAQUE
from .sign import derivative, subst

WALLET_CALLS = {"subtract_from_balance": (1,), "add_to_balance": (1,), "_subtract_from_balance": (0,), "_add_to_balance": (0,),
                # internal primitives of the Uniswap market that move the amounts they are given (analysed on their own below):
                # the public wrappers are checked up to the hand-over
                "_add_liquidity_by_tick": (0, 1), "__remove_liquidity": (1,), "__collect_fee": (1, 2)}
# C03's quantifier excludes "swaps with a caller-chosen execution price": the price argument of the swap family is outside
# the property's domain (one symbol each)
OUT_OF_DOMAIN = {("UniLpMarket.swap", "price"), ("UniLpMarket.buy", "price"), ("UniLpMarket.sell", "price"), ("UniLpMarket.even_rebalance", "price")}
PRIVATE_ENTRIES = ("UniLpMarket._add_liquidity_by_tick", "UniLpMarket.__remove_liquidity", "UniLpMarket.__collect_fee")
MORE_OPAQUE = ["base_unit_price_to_sqrt_price_x96", "sqrt_price_x96_to_tick", "get_sqrt_ratio_at_tick", "get_liquidity_for_amount0",
               "get_liquidity_for_amount1", "get_liquidity", "estimate_amount", "base_unit_price_to_tick", "estimate_ratio",
               "nearest_usable_tick", "price_to_tick", "get_swap_value_with_part_balance_used", "get_token_balance",
               "get_token_balance_with_unit", "tick_to_base_unit_price", "get_token_amounts", "get_mint_amount", "getOutputAmount",
               "new_position", "close_position", "quote_price_pair_to_tick", "tick_to_price", "get_position_amount"]


def _terms_of(x):
    """Rat / term -> iterable of atoms at any depth."""
    try:
        return list(all_atoms_deep(x if isinstance(x, Rat) else ("t", x)))
    except Exception:  # noqa
        return []


def _scalar_syms(x, out, depth=0):
    """Parameters that occur in x AS NUMBERS: as atoms of the polynomial itself or under min / max / floor / int / abs /
    round - not as a selector inside an index, an attribute path or the arguments of an opaque call."""
    if depth > 8:
        return
    if isinstance(x, Rat):
        for a in x.atoms():
            _scalar_syms(a, out, depth + 1)
        return
    if isinstance(x, tuple) and x:
        if len(x) == 2 and x[0] == "sym" and isinstance(x[1], str):
            out.add(x[1])
        elif x[0] in ("min", "max") and len(x) >= 2 and isinstance(x[1], (frozenset, set, tuple, list)):
            if x[0] == "max" and any(isinstance(y, Rat) and y.is_const() and y.const_value() >= 0 for y in x[1]):
                return                      # max(0, p) is non-negative whatever p is
            for y in x[1]:
                _scalar_syms(y, out, depth + 1)
        elif x[0] in ("floor", "int", "round", "expr", "neg") and len(x) >= 2:
            _scalar_syms(x[1], out, depth + 1)   # (abs(p) is non-negative whatever p is: not followed)


def _mentions(x, p: str) -> bool:
    out = set()
    _scalar_syms(x, out)
    return p in out


def _nonneg_const_or_state(r: Rat, params) -> bool:
    """c >= 0 in `c - k*p <= 0`: a non-negative constant, or an expression without parameters whose coefficients are all
    non-negative (holdings, prices, indices are non-negative quantities)."""
    if r.is_const():
        return r.const_value() >= 0
    if any(_mentions(r, q) for q in params):
        return False
    return all(c >= 0 for c in r.n.t.values()) and all(c > 0 for c in r.d.t.values())


def amount_guarded(amt, conds) -> Optional[str]:
    """The moved amount itself is tested on the path: a condition `-A < 0` / `-A <= 0` (the surviving arm of `if A > 0:`)."""
    if not isinstance(amt, Rat):
        if isinstance(amt, tuple) and len(amt) == 2 and amt[0] == "expr" and isinstance(amt[1], Rat):
            amt = amt[1]
        elif isinstance(amt, tuple) and amt and amt[0] in ("sym", "attr", "idx", "call", "prop", "m", "ret", "item"):
            amt = Rat.atom(amt)
        else:
            return None
    for c in conds:
        if isinstance(c, Cond) and c.op in ("<", "<=") and isinstance(c.x, Rat):
            try:
                q = c.x / amt
            except ZeroDivisionError:
                continue
            if q.is_const() and q.const_value() < 0:
                return f"{c!r}"
    return None


def lower_bounded(p: str, conds, params) -> Optional[str]:
    atom = ("sym", p)
    for c in conds:
        if isinstance(c, Cond) and c.op == "false" and c.x == atom:
            return f"{c!r}"            # `if p and ...`: on this path p is zero / None / empty
        if not isinstance(c, Cond) or not isinstance(c.x, Rat):
            continue
        if atom not in c.x.atoms():
            continue
        if c.op == "==":
            return f"{c!r}"            # pinned to another quantity of the state (p == holding / p == 0)
        if c.op not in ("<", "<="):
            continue
        cx = c.x
        if not cx.d.is_const():
            # a condition on p scaled by a positive quantity (an index, a price, a power of ten): same sign as its numerator
            from .guard import _pos_monomial
            from ..norm import Poly
            from fractions import Fraction
            if _pos_monomial(cx.d):
                cx = Rat(cx.n, Poly({(): Fraction(1)}))
        d = derivative(cx, atom)
        if not d.is_const() or d.const_value() >= 0:
            continue
        rest = subst(cx, {atom: Rat.const(0)})
        if _nonneg_const_or_state(rest, params):
            return f"{c!r}"
    return None


_W = {}


def _one(i):
    """Worker (forked: the model is inherited): analyse entry point i, return plain data."""
    model, eps, max_paths = _W["model"], _W["eps"], _W["max_paths"]
    from ..report import Result
    r = Result("C03", "worker")
    out = _analyse(model, r, [eps[i]], "R-POS", max_paths)
    return (out, [(f.rule, f.func, f.construct, f.where, f.message, f.detail) for f in r.findings],
            [(o.rule, o.instance, o.site, o.verdict, o.detail) for o in r.obligations], r.notes)


def run_posarg(model: Model, res, rule: str = "R-POS", max_paths: int = 3000, jobs: int = 8):
    eps = [(f, c) for f, c in entry_points(model) if f.params[1:] + f.kwonly]
    import multiprocessing as mp
    import os
    rows = None
    if jobs > 1 and hasattr(os, "fork"):
        try:
            _W.update(model=model, eps=eps, max_paths=max_paths)
            ctx = mp.get_context("fork")
            with ctx.Pool(min(jobs, os.cpu_count() or 1)) as pool:
                rows = pool.map(_one, range(len(eps)), chunksize=1)
        except Exception:  # noqa - fall back to the sequential pass
            rows = None
    if rows is None:
        n_ops, n_mov, und = _analyse(model, res, eps, rule, max_paths)
    else:
        n_ops = n_mov = 0
        und = []
        for (a_, b_, u_), finds, obs, notes in rows:
            n_ops += a_
            n_mov += b_
            und += u_
            for (rl, inst, site, verdict, detail) in obs:
                res.ob(rl, inst, site, ok=(verdict == "discharged"), detail=detail)
            for (rl, fn, cons, where, msg, detail) in finds:
                res.find(rl, fn, cons, where, msg, detail)
    res.units["operations_moving_value"] = n_ops
    res.units["value_movements_examined"] = n_mov
    if und:
        res.notes.append("R-POS not decided (outside the evaluator's language): " + ", ".join(und))
        res.units["operations_not_decided_by_R-POS"] = len(und)
    return n_ops, n_mov


def _analyse(model: Model, res, eps, rule: str, max_paths: int):
    n_ops = 0
    n_mov = 0
    undecided: List[str] = []
    fxcalls = sorted(set(EFFECT_CALLS) | set(WALLET_CALLS))
    for f, c in eps:
        params = [p for p in f.params[1:] + f.kwonly]
        if not params:
            continue
        try:
            ev = Evaluator(model, opaque_funcs=OPAQUE + MORE_OPAQUE, max_paths=max_paths)
            paths = ev.effect_paths(f, [x for x in fxcalls if x != f.name], c)
        except (Unreadable, BudgetExceeded) as e:
            undecided.append(f"{c.name}.{f.name} ({str(e)[:60]})")
            continue
        except RecursionError:
            undecided.append(f"{c.name}.{f.name} (recursion)")
            continue
        entry_name = f"{c.name}.{f.name}"
        moves_any = False
        bad: Dict[str, Tuple[str, str, list]] = {}
        okp: Dict[str, str] = {}
        for conds, env, ret in paths:
            if isinstance(ret, Raise):
                continue
            for e in env.get("$fx", ()):
                what = None
                amts = []
                if e[0] == "call" and e[1] in WALLET_CALLS:
                    args = dict(e[3]) if not isinstance(e[3], dict) else e[3]
                    amts = [args.get(str(i)) for i in WALLET_CALLS[e[1]] if args.get(str(i)) is not None]
                    if not amts and args.get("amount") is not None:
                        amts = [args.get("amount")]
                    what = f"{e[1]}(...)"
                elif e[0] == "store" and isinstance(e[1], tuple) and e[1][0] == "attr" and e[1][2] in HOLDING_FIELDS and e[2] in ("aug:Add", "aug:Sub"):
                    amts = [e[3]]
                    what = f"{e[1][2]} {'+=' if e[2] == 'aug:Add' else '-='}"
                elif e[0] == "expr" and isinstance(e[1], tuple) and len(e[1]) >= 4 and e[1][0] == "m" and e[1][1] in ("add", "sub"):
                    amts = [e[1][3]]
                    what = f"Asset.{e[1][1]}(...)"
                if not amts:
                    continue
                moves_any = True
                n_mov += 1
                for p in params:
                    if not any(_mentions(a_, p) for a_ in amts):
                        continue
                    amt = next(a_ for a_ in amts if _mentions(a_, p))
                    if (entry_name, p) in OUT_OF_DOMAIN:
                        continue
                    lb = lower_bounded(p, conds, params) or amount_guarded(amt, conds)
                    if lb is None:
                        bad.setdefault(p, (what, repr(amt)[:120], sorted(map(repr, conds))[:3]))
                    else:
                        okp.setdefault(p, lb)
        if not moves_any:
            continue
        n_ops += 1
        entry = f"{c.name}.{f.name}"
        res.ob(rule, f"{entry}: amount parameters {sorted(set(bad) | set(okp)) or '-'} are rejected when negative before anything moves", f.loc(), ok=not bad,
               detail="; ".join(f"{p}: {okp[p]}" for p in sorted(okp) if p not in bad)[:300])
        for p, (what, amt, cs) in sorted(bad.items()):
            res.find(rule, entry, f"negative `{p}` is not rejected", f.loc(),
                     f"{entry}: the parameter `{p}` reaches `{what}` as `{amt}` on a path that never requires it to be non-negative "
                     f"(guards on that path: {cs}). The wallet primitives do not reject negative amounts (a negative debit is a credit, a "
                     f"negative credit an unchecked debit), so a negative `{p}` runs the operation backwards: a holding can become negative "
                     f"or value is paid out that nothing was given for",
                     {"entry": entry, "param": p, "sink": what})
    return n_ops, n_mov, undecided
