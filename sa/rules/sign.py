"""R-SIGN / R-MONO -- signs and monotonicity of canonical rational forms under path guards (no solver, no sampling).

The value-numbering evaluator gives each path of a pure function as (guards, Rat) with Rat = polynomial / polynomial
over atoms.  For the clauses "amounts are non-negative", "token0 amount is non-increasing in price", "proportional to
liquidity", "continuous at the range boundaries" a small exact argument suffices:

* order facts  x <= y / x < y  between atoms come from the path guards (`x - y <= 0`) and from min / max atoms
  (min(S) <= max(S));
* when the facts arrange the atoms involved in a chain  a0 <= a1 <= ... , every atom is rewritten as
  a0 + d1 + ... + dk  with fresh non-negative (or positive) gaps d_i; all remaining atoms are positive by a declared
  table (prices, sqrt prices, powers of ten) or non-negative (liquidity, amounts);
* after the rewrite the sign of a polynomial is read from its coefficients: all >= 0 (resp. <= 0) with every atom
  non-negative means the polynomial is >= 0 (<= 0); the sign of the Rat is the product of the numerator's and the
  denominator's;
* the partial derivative of a Rat with respect to an atom is computed exactly ((n'd - nd')/d^2), so monotonicity is the
  sign of the derivative under the same facts; continuity at a boundary is equality of the two arms after
  substituting the boundary atom.

Anything the argument cannot settle is `None` (unknown) - the caller then reports "not decided", never a violation."""
from __future__ import annotations

from fractions import Fraction
from typing import Dict, Iterable, List, Optional, Tuple

from ..norm import Poly, Rat


def subst(r: Rat, mapping: Dict[object, Rat]) -> Rat:
    def sp(poly: Poly) -> Rat:
        out = Rat.const(0)
        for m, c in poly.t.items():
            term = Rat.const(c)
            for at, e in m:
                base = mapping[at] if at in mapping else Rat.atom(at)
                term = term * (base ** e)
            out = out + term
        return out
    if not any(a in mapping for a in r.atoms()):
        return r
    return sp(r.n) / sp(r.d)


def d_poly(p: Poly, x) -> Poly:
    out: Dict[tuple, Fraction] = {}
    for m, c in p.t.items():
        dm = dict(m)
        if x not in dm:
            continue
        e = dm[x]
        nm = tuple(sorted(((a, (k - 1 if a == x else k)) for a, k in dm.items() if not (a == x and k == 1)), key=lambda t: repr(t[0])))
        out[nm] = out.get(nm, 0) + c * e
    return Poly(out)


def derivative(r: Rat, x) -> Rat:
    n, d = r.n, r.d
    num = d_poly(n, x) * d - n * d_poly(d, x)
    return Rat(num, d * d)


def _coef_sign(p: Poly) -> Optional[int]:
    """+1 / -1 when all coefficients share a sign (0 for the zero polynomial); None when mixed."""
    if p.is_zero():
        return 0
    signs = {1 if c > 0 else -1 for c in p.t.values()}
    return signs.pop() if len(signs) == 1 else None


class Facts:
    """Order facts between atoms and the rewrite into non-negative gaps."""

    def __init__(self):
        self.le: List[Tuple[object, object, bool]] = []      # (x, y, strict): x <= y (x < y)

    def add(self, x, y, strict=False):
        self.le.append((x, y, strict))

    def add_guards(self, conds: Iterable):
        """`x - y < 0` / `x - y <= 0` between two single atoms; min/max atoms bring min <= max and arg facts."""
        for c in conds:
            if getattr(c, "op", None) not in ("<", "<="):
                continue
            e = c.x
            if not isinstance(e, Rat) or not e.d.is_const():
                continue
            terms = list(e.n.t.items())
            if len(terms) != 2:
                continue
            pos = [m for m, k in terms if k > 0]
            neg = [m for m, k in terms if k < 0]
            if len(pos) != 1 or len(neg) != 1:
                continue
            (mp,), (mn,) = pos, neg
            if len(mp) != 1 or len(mn) != 1 or mp[0][1] != 1 or mn[0][1] != 1 or abs(e.n.t[mp]) != abs(e.n.t[mn]):
                continue
            # pos - neg (<|<=) 0  =>  pos (<|<=) neg
            self.add(mp[0][0], mn[0][0], c.op == "<")

    def add_minmax(self, atoms: Iterable):
        mins = [a for a in atoms if isinstance(a, tuple) and a and a[0] == "min"]
        maxs = [a for a in atoms if isinstance(a, tuple) and a and a[0] == "max"]
        for lo in mins:
            for hi in maxs:
                if lo[1] == hi[1]:
                    self.add(lo, hi, False)

    def chain(self, involved: Iterable) -> Optional[List[Tuple[object, bool]]]:
        """Total order of the involved atoms implied by the facts: [(atom, strict gap to the previous one)], or None."""
        nodes = [a for a in involved]
        if len(nodes) <= 1:
            return [(a, False) for a in nodes]
        succ = {a: set() for a in nodes}
        strict = {}
        for x, y, s in self.le:
            if x in succ and y in succ and x != y:
                succ[x].add(y)
                strict[(x, y)] = strict.get((x, y), False) or s
        # transitive closure
        changed = True
        while changed:
            changed = False
            for a in nodes:
                for b in list(succ[a]):
                    for c in succ[b]:
                        if c not in succ[a] and c != a:
                            succ[a].add(c)
                            strict[(a, c)] = strict.get((a, b), False) or strict.get((b, c), False)
                            changed = True
        order = sorted(nodes, key=lambda a: -len(succ[a]))
        for i in range(len(order) - 1):
            if order[i + 1] not in succ[order[i]]:
                return None     # not a chain
        out = [(order[0], False)]
        for i in range(1, len(order)):
            out.append((order[i], strict.get((order[i - 1], order[i]), False)))
        return out


def sign_of(r: Rat, facts: Facts, nonneg_only: Iterable = ()) -> Optional[str]:
    """'+' (> 0), '>=0', '0', '<=0', '-' (< 0) or None.  Every atom is assumed positive, except those in `nonneg_only`
    (assumed >= 0) and the gaps of non-strict order facts."""
    facts.add_minmax(r.atoms())
    involved = set()
    for x, y, s in facts.le:
        if x in r.atoms() or y in r.atoms():
            involved.add(x)
            involved.add(y)
    weak = set(nonneg_only)
    mapping: Dict[object, Rat] = {}
    if involved:
        ch = facts.chain(involved)
        if ch is None:
            return None
        base = Rat.atom(ch[0][0])
        acc = base
        for i, (a, s) in enumerate(ch[1:], start=1):
            gap = ("gap", i, repr(a)[:40])
            if not s:
                weak.add(gap)
            acc = acc + Rat.atom(gap)
            mapping[a] = acc
    q = subst(r, mapping)
    sn, sd = _coef_sign(q.n), _coef_sign(q.d)
    if sn is None or sd is None or sd == 0:
        return None
    if sn == 0:
        return "0"
    s = sn * sd
    strict = not any(a in weak for a in q.n.atoms())
    # a polynomial whose monomials all contain a weak atom can vanish; otherwise it is strictly signed
    if not strict:
        every_term_weak = all(any(a in weak for a, _e in m) for m in q.n.t)
        strict = not every_term_weak
    return ("+" if s > 0 else "-") if strict else (">=0" if s > 0 else "<=0")


def nonneg(sig: Optional[str]) -> bool:
    return sig in ("+", ">=0", "0")


def nonpos(sig: Optional[str]) -> bool:
    return sig in ("-", "<=0", "0")


# ---------------------------------------------------------------------------------------------------------- upper bounds
def upper_bounds(r: Rat, facts_of, nonneg_only=(), depth: int = 0) -> List[Rat]:
    """Expressions U with U >= r obtained by monotone rewriting: where r is non-decreasing in a rounding atom,
    floor(e) -> e and int(e) -> e (for e >= 0: truncation towards zero), and min(S) -> each element of S.  Several
    candidates come back when a min was opened.  An atom in which r is not provably non-decreasing stops the rewrite
    (empty list): a LOWER bound of the atom would be needed, which rounding does not give exactly."""
    if depth > 12:
        return []
    target = None
    from ..norm import all_atoms_deep

    def has_rounding(x) -> bool:
        return any(isinstance(b, tuple) and b and b[0] in ("floor", "int") for b in all_atoms_deep(x))

    for a in sorted(r.atoms(), key=repr):
        if isinstance(a, tuple) and a and len(a) == 2 and (a[0] in ("floor", "int") or (
                a[0] == "min" and isinstance(a[1], frozenset) and any(isinstance(e, Rat) and has_rounding(e) for e in a[1]))):
            target = a       # a min of plain quantities (the range bounds) is left alone: only rounded values are opened
            break
    if target is None:
        return [r]
    sg = sign_of(derivative(r, target), facts_of(), nonneg_only)
    if not nonneg(sg):
        return []
    outs: List[Rat] = []
    if target[0] in ("floor", "int"):
        e = target[1]
        if not isinstance(e, Rat):
            return []
        if target[0] == "int" and not nonneg(sign_of(e, facts_of(), nonneg_only)):
            return []
        for ue in upper_bounds(e, facts_of, nonneg_only, depth + 1):
            outs.extend(upper_bounds(subst(r, {target: ue}), facts_of, nonneg_only, depth + 1))
    else:
        for e in sorted(target[1], key=repr):
            if not isinstance(e, Rat):
                return []
            for ue in upper_bounds(e, facts_of, nonneg_only, depth + 1):
                outs.extend(upper_bounds(subst(r, {target: ue}), facts_of, nonneg_only, depth + 1))
    return outs
