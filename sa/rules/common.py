"""Helpers shared by the rule modules."""
from __future__ import annotations

import ast
from typing import Optional, Tuple

from ..interp import Frame

PRIMITIVE_CLASSES = {"Broker", "Asset", "DictCache"}
PRIMITIVE_FUNCS = {"utils.application.require"}


def site_of(node: ast.AST, fr: Frame) -> Tuple[ast.AST, Frame]:
    """Lift an event inside a wallet/cache primitive (or `require`) to the call statement in the nearest
    non-primitive frame, so that reports and keys name the construct in market code."""
    while fr.parent is not None and (
        (fr.func.cls is not None and fr.func.cls.name in PRIMITIVE_CLASSES) or fr.func.qualname in PRIMITIVE_FUNCS
    ):
        # do not lift out of a primitive that is itself the entry point
        node, fr = fr.callnode, fr.parent
    return node, fr


def stmt_of(node: ast.AST) -> ast.AST:
    n = node
    while n is not None and not isinstance(n, ast.stmt):
        n = getattr(n, "_parent", None)
    return n if n is not None else node


def text_of(node: ast.AST, fr: Frame) -> str:
    if isinstance(node, (ast.FunctionDef, ast.AsyncFunctionDef)):
        return f"@write_func gate of {node.name}"
    try:
        return ast.unparse(node)
    except Exception:  # pragma: no cover
        return "<?>"


_LOCALS_CACHE: dict = {}


def _locals_of(fn: ast.AST) -> frozenset:
    """Names of the function's own scope: parameters (except the receiver) and everything bound inside (assignment, loop,
    with, comprehension targets)."""
    k = id(fn)
    if k not in _LOCALS_CACHE:
        params = set()
        a = fn.args
        for x in list(a.posonlyargs) + list(a.args) + list(a.kwonlyargs) + [y for y in (a.vararg, a.kwarg) if y is not None]:
            params.add(x.arg)
        bound = {n.id for n in ast.walk(fn) if isinstance(n, ast.Name) and isinstance(n.ctx, (ast.Store, ast.Del))}
        # parameters too: a block extracted into a helper turns a parameter of the operation into a local of the helper
        # (and back when inlined); the receiver name stays
        _LOCALS_CACHE[k] = (fn, frozenset((bound | params) - {"self", "cls"}))   # fn kept alive so that id() stays unique
    return _LOCALS_CACHE[k][1]


def key_text(node: ast.AST, fr: Frame) -> str:
    """Identity text of a construct for finding keys: like text_of, but the function's own local variable names are
    replaced by positional placeholders (in order of first occurrence in the construct), so that renaming a local
    does not turn a listed finding into a new one."""
    if isinstance(node, (ast.FunctionDef, ast.AsyncFunctionDef)):
        return text_of(node, fr)
    try:
        fn = fr.func.node
        loc = _locals_of(fn)
        if not loc:
            return ast.unparse(node)
        import copy
        n2 = copy.deepcopy(node)
        order: dict = {}
        names = [x for x in ast.walk(n2) if isinstance(x, ast.Name) and x.id in loc]
        names.sort(key=lambda x: (getattr(x, "lineno", 0), getattr(x, "col_offset", 0)))
        for x in names:
            x.id = order.setdefault(x.id, f"_{len(order) + 1}")
        return ast.unparse(n2)
    except Exception:  # pragma: no cover
        return text_of(node, fr)


COERCIONS = {"int", "float", "Decimal", "str", "to_decimal"}


def _strip_coercion(expr):
    while (isinstance(expr, ast.Call) and isinstance(expr.func, ast.Name) and expr.func.id in COERCIONS
           and len(expr.args) == 1 and not expr.keywords):
        expr = expr.args[0]
    return expr


def real_defs(fr: Frame, name: str):
    """Definitions of a local, ignoring declarations and idempotent self-coercions `x = int(x)`."""
    out = []
    for d in fr._defs.get(name, []):
        if d[0] == "decl":
            continue
        if d[0] == "assign":
            valnode, idx = d[2]
            if idx == () and valnode is not None:
                v = _strip_coercion(valnode)
                if isinstance(v, ast.Name) and v.id == name:
                    continue
        out.append(d)
    return out


def _in_loop(node: ast.AST) -> bool:
    p = getattr(node, "_parent", None)
    while p is not None and not isinstance(p, (ast.FunctionDef, ast.AsyncFunctionDef)):
        if isinstance(p, (ast.For, ast.While, ast.AsyncFor, ast.ListComp, ast.GeneratorExp, ast.DictComp, ast.SetComp)):
            return True
        p = getattr(p, "_parent", None)
    return False


def frame_id(fr: Frame):
    return fr.func.qualname if fr.parent is None else ("f", getattr(fr, "fid", id(fr)))


def canon_key(expr: Optional[ast.AST], fr: Frame, depth: int = 0):
    """Canonical identity of a (key / argument) expression across inlined frames: parameters are replaced
    by the caller's argument expression, copies `a = b` and idempotent coercions are followed, reassigned
    locals carry a definition version (number of definitions textually before the use)."""
    if expr is None:
        return ("?",)
    expr = _strip_coercion(expr)
    if isinstance(expr, ast.Constant):
        return ("k", repr(expr.value))
    if isinstance(expr, ast.Name) and depth < 16 and not (expr.id == "self" and fr.func.is_method):
        name = expr.id
        defs = real_defs(fr, name)
        is_param = name in fr.func.params or name in fr.func.kwonly
        if not defs:
            if name in fr.argnodes:
                n2, f2 = fr.argnodes[name]
                return canon_key(n2, f2, depth + 1)
            if is_param and fr.parent is not None and name in fr.func.defaults:
                return canon_key(fr.func.defaults[name], fr, depth + 1)
            return ("n", frame_id(fr) if not is_param or fr.parent is not None else fr.func.qualname, name)
        if len(defs) == 1 and defs[0][0] == "assign" and not is_param:
            valnode, idx = defs[0][2]
            if idx == () and isinstance(_strip_coercion(valnode), (ast.Name, ast.Attribute)):
                return canon_key(valnode, fr, depth + 1)
        if any(_in_loop(d[1]) for d in defs):
            return ("n", frame_id(fr), name, "loop", id(expr))
        ln = getattr(expr, "lineno", 10**9)
        ver = sum(1 for d in defs if getattr(d[1], "lineno", 0) <= ln)
        return ("n", frame_id(fr), name, ver)
    if isinstance(expr, ast.Attribute) or (isinstance(expr, ast.Name) and expr.id == "self"):
        from ..interp import VPath

        v = fr.interp.pure(expr, fr)
        if isinstance(v, VPath) and not v.fresh and "[]" not in v.path and not v.path[0].startswith("$") \
                and (len(v.path) > 1 or isinstance(expr, ast.Name)):
            return ("p",) + v.path
    if isinstance(expr, ast.Attribute):
        return ("a", canon_key(expr.value, fr, depth + 1), expr.attr)
    if isinstance(expr, ast.Subscript):
        return ("s", canon_key(expr.value, fr, depth + 1), canon_key(expr.slice, fr, depth + 1))
    if isinstance(expr, ast.Call) and not expr.keywords and len(expr.args) <= 2 and isinstance(expr.func, ast.Name):
        return ("c", expr.func.id) + tuple(canon_key(a, fr, depth + 1) for a in expr.args)
    try:
        return ("t", frame_id(fr), ast.unparse(expr))
    except Exception:  # pragma: no cover
        return ("?",)


# ---------------------------------------------------------------- membership facts (k in C)
def target_subscript_key(node: ast.AST, fr: Frame):
    """Canonical key of the innermost subscript on the target of an assignment / delete statement."""
    tgt = None
    if isinstance(node, ast.Assign):
        tgt = node.targets[0]
    elif isinstance(node, (ast.AugAssign, ast.AnnAssign)):
        tgt = node.target
    elif isinstance(node, ast.Delete):
        tgt = node.targets[0]
    while tgt is not None and not isinstance(tgt, ast.Subscript):
        tgt = tgt.value if isinstance(tgt, ast.Attribute) else None
    if isinstance(tgt, ast.Subscript):
        return canon_key(tgt.slice, fr)
    return ("-",)


def is_saved_copy_restore(ev, path, key) -> bool:
    """`L = saved` where `saved = L` (same path, same element) was taken textually before."""
    from ..interp import VPath

    if ev.how != "set" or not isinstance(ev.value, ast.Name):
        return False
    fr = ev.fr
    defs = [d for d in fr._defs.get(ev.value.id, []) if d[0] != "decl"]
    if len(defs) != 1 or defs[0][0] != "assign":
        return False
    valnode, idx = defs[0][2]
    if idx != () or valnode is None:
        return False
    v = fr.interp.pure(valnode, fr)
    if not isinstance(v, VPath) or v.path != path:
        return False
    if defs[0][1].lineno >= ev.node.lineno:
        return False
    sub = valnode
    while sub is not None and not isinstance(sub, ast.Subscript):
        sub = sub.value if isinstance(sub, ast.Attribute) else None
    k2 = canon_key(sub.slice, fr) if isinstance(sub, ast.Subscript) else ("-",)
    return k2 == key


def is_loop_key(k) -> bool:
    """Canonical keys of loop variables are never compared across statements: do not keep facts about them."""
    if isinstance(k, tuple):
        return (len(k) >= 4 and k[0] == "n" and k[3] == "loop") or any(is_loop_key(x) for x in k if isinstance(x, tuple))
    return False


class Membership:
    """`k in C` facts for a fixed set of tracked container paths."""

    def __init__(self, tracked):
        self.tracked = set(tracked)
        self.pruned = 0

    def write(self, facts, ev):
        path = ev.path
        if path and path[-1] == "[]" and path[:-1] in self.tracked:
            cont = path[:-1]
            if ev.how == "set" and ev.key is not None:
                k = canon_key(ev.key, ev.fr)
                return facts if is_loop_key(k) else facts | {("in", cont, k)}
            if ev.how != "set":
                return frozenset(f for f in facts if not (f[0] == "in" and f[1] == cont))
        return facts

    def read(self, facts, path, node, fr):
        if path and path[-1] == "[]" and isinstance(node, ast.Subscript) and path[:-1] in self.tracked:
            k = canon_key(node.slice, fr)
            return facts if is_loop_key(k) else facts | {("in", path[:-1], k)}
        return facts

    def branch(self, facts, test, fr, taken):
        """Returns refined facts, or None when the branch is infeasible."""
        if isinstance(test, ast.Compare) and len(test.ops) == 1 and isinstance(test.ops[0], (ast.In, ast.NotIn)):
            from ..interp import VPath

            c = test.comparators[0]
            if isinstance(c, ast.Call) and isinstance(c.func, ast.Attribute) and c.func.attr == "keys" and not c.args:
                c = c.func.value
            cv = fr.interp.pure(c, fr)
            if isinstance(cv, VPath) and cv.path in self.tracked:
                fact = ("in", cv.path, canon_key(test.left, fr))
                is_in = taken if isinstance(test.ops[0], ast.In) else (not taken)
                if is_loop_key(fact[2]):
                    return facts
                if is_in:
                    return facts | {fact}
                if fact in facts:
                    self.pruned += 1
                    return None
        return facts


# ---------------------------------------------------------------- write_func wrapper shape (name-insensitive)
def write_func_shape(model):
    """Returns dict(gate=bool, order=bool) for broker.market.write_func: the wrapper rejects when the instance is not
    open BEFORE calling the wrapped function and sets has_update only AFTER it returned (names are free)."""
    from ..model import AnalysisError

    wf = model.func("broker.market.write_func")
    inner = [n for n in ast.walk(wf.node) if isinstance(n, ast.FunctionDef) and n is not wf.node]
    if len(inner) != 1:
        raise AnalysisError("write_func: wrapper function not found")
    body = inner[0].body
    wrapped = wf.params[0] if wf.params else "func"
    i_gate = i_call = i_flag = i_ret = None
    inst = retv = None
    for i, st in enumerate(body):
        if isinstance(st, ast.If) and isinstance(st.test, ast.UnaryOp) and isinstance(st.test.op, ast.Not) \
                and isinstance(st.test.operand, ast.Attribute) and st.test.operand.attr == "is_open" \
                and isinstance(st.test.operand.value, ast.Name) and any(isinstance(b, ast.Raise) for b in st.body) and not st.orelse:
            i_gate, inst = i, st.test.operand.value.id
        elif isinstance(st, ast.Assign) and isinstance(st.value, ast.Call) and isinstance(st.value.func, ast.Name) \
                and st.value.func.id == wrapped and isinstance(st.targets[0], ast.Name):
            i_call, retv = i, st.targets[0].id
        elif isinstance(st, ast.Assign) and isinstance(st.targets[0], ast.Attribute) and st.targets[0].attr == "has_update" \
                and isinstance(st.targets[0].value, ast.Name) and isinstance(st.value, ast.Constant) and st.value.value is True:
            i_flag = i
            flag_inst = st.targets[0].value.id
        elif isinstance(st, ast.Return) and isinstance(st.value, ast.Name):
            i_ret = i
    gate = i_gate is not None
    order = None not in (i_gate, i_call, i_flag, i_ret) and i_gate < i_call < i_flag < i_ret and flag_inst == inst \
        and isinstance(body[i_ret].value, ast.Name) and body[i_ret].value.id == retv
    # the instance is the first positional argument
    first_arg = any(isinstance(st, ast.Assign) and isinstance(st.targets[0], ast.Name) and st.targets[0].id == inst
                    and isinstance(st.value, ast.Subscript) and isinstance(st.value.slice, ast.Constant) and st.value.slice.value == 0
                    for st in body) if inst else False
    return {"gate": gate and first_arg, "order": bool(order) and first_arg, "loc": wf.loc()}


def loop_target_names(st) -> set:
    out = set()
    tg = getattr(st, "target", None)
    if tg is not None:
        for n in ast.walk(tg):
            if isinstance(n, ast.Name):
                out.add(n.id)
    return out


def key_mentions(key, fid, names) -> bool:
    """Does a canonical key refer to one of `names` defined in the frame `fid`?"""
    if isinstance(key, tuple):
        if len(key) >= 3 and key[0] == "n" and key[1] == fid and key[2] in names:
            return True
        return any(key_mentions(x, fid, names) for x in key if isinstance(x, tuple))
    return False


def purge_loop_facts(facts, st, fr):
    """Facts about a loop's own variables do not survive the iteration that established them."""
    names = loop_target_names(st)
    if not names:
        return facts
    fid = frame_id(fr)
    keep = frozenset(f for f in facts if not any(key_mentions(x, fid, names) for x in f if isinstance(x, tuple)))
    return keep
