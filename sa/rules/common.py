"""Helpers shared by the rule modules."""
from __future__ import annotations

import ast
from typing import Optional, Tuple

from ..interp import Frame

PRIMITIVE_CLASSES = {"Broker", "Asset", "DictCache"}
PRIMITIVE_FUNCS = {"utils.application.require"}


def site_of(node: ast.AST, fr: Frame) -> Tuple[ast.AST, Frame]:
    """Lift an event inside a wallet/cache primitive (or `require`) to the call statement in the nearest
    non-primitive frame, so that reports and keys name the construct in market code."""
    while fr.parent is not None and (
        (fr.func.cls is not None and fr.func.cls.name in PRIMITIVE_CLASSES) or fr.func.qualname in PRIMITIVE_FUNCS
    ):
        # do not lift out of a primitive that is itself the entry point
        node, fr = fr.callnode, fr.parent
    return node, fr


def stmt_of(node: ast.AST) -> ast.AST:
    n = node
    while n is not None and not isinstance(n, ast.stmt):
        n = getattr(n, "_parent", None)
    return n if n is not None else node


def text_of(node: ast.AST, fr: Frame) -> str:
    if isinstance(node, (ast.FunctionDef, ast.AsyncFunctionDef)):
        return f"@write_func gate of {node.name}"
    try:
        return ast.unparse(node)
    except Exception:  # pragma: no cover
        return "<?>"


COERCIONS = {"int", "float", "Decimal", "str", "to_decimal"}


def _strip_coercion(expr):
    while (isinstance(expr, ast.Call) and isinstance(expr.func, ast.Name) and expr.func.id in COERCIONS
           and len(expr.args) == 1 and not expr.keywords):
        expr = expr.args[0]
    return expr


def real_defs(fr: Frame, name: str):
    """Definitions of a local, ignoring declarations and idempotent self-coercions `x = int(x)`."""
    out = []
    for d in fr._defs.get(name, []):
        if d[0] == "decl":
            continue
        if d[0] == "assign":
            valnode, idx = d[2]
            if idx == () and valnode is not None:
                v = _strip_coercion(valnode)
                if isinstance(v, ast.Name) and v.id == name:
                    continue
        out.append(d)
    return out


def _in_loop(node: ast.AST) -> bool:
    p = getattr(node, "_parent", None)
    while p is not None and not isinstance(p, (ast.FunctionDef, ast.AsyncFunctionDef)):
        if isinstance(p, (ast.For, ast.While, ast.AsyncFor, ast.ListComp, ast.GeneratorExp, ast.DictComp, ast.SetComp)):
            return True
        p = getattr(p, "_parent", None)
    return False


def frame_id(fr: Frame):
    return fr.func.qualname if fr.parent is None else ("f", getattr(fr, "fid", id(fr)))


def canon_key(expr: Optional[ast.AST], fr: Frame, depth: int = 0):
    """Canonical identity of a (key / argument) expression across inlined frames: parameters are replaced
    by the caller's argument expression, copies `a = b` and idempotent coercions are followed, reassigned
    locals carry a definition version (number of definitions textually before the use)."""
    if expr is None:
        return ("?",)
    expr = _strip_coercion(expr)
    if isinstance(expr, ast.Constant):
        return ("k", repr(expr.value))
    if isinstance(expr, ast.Name) and depth < 16 and not (expr.id == "self" and fr.func.is_method):
        name = expr.id
        defs = real_defs(fr, name)
        is_param = name in fr.func.params or name in fr.func.kwonly
        if not defs:
            if name in fr.argnodes:
                n2, f2 = fr.argnodes[name]
                return canon_key(n2, f2, depth + 1)
            if is_param and fr.parent is not None and name in fr.func.defaults:
                return canon_key(fr.func.defaults[name], fr, depth + 1)
            return ("n", frame_id(fr) if not is_param or fr.parent is not None else fr.func.qualname, name)
        if len(defs) == 1 and defs[0][0] == "assign" and not is_param:
            valnode, idx = defs[0][2]
            if idx == () and isinstance(_strip_coercion(valnode), (ast.Name, ast.Attribute)):
                return canon_key(valnode, fr, depth + 1)
        if any(_in_loop(d[1]) for d in defs):
            return ("n", frame_id(fr), name, "loop", id(expr))
        ln = getattr(expr, "lineno", 10**9)
        ver = sum(1 for d in defs if getattr(d[1], "lineno", 0) <= ln)
        return ("n", frame_id(fr), name, ver)
    if isinstance(expr, ast.Attribute) or (isinstance(expr, ast.Name) and expr.id == "self"):
        from ..interp import VPath

        v = fr.interp.pure(expr, fr)
        if isinstance(v, VPath) and not v.fresh and "[]" not in v.path and not v.path[0].startswith("$") \
                and (len(v.path) > 1 or isinstance(expr, ast.Name)):
            return ("p",) + v.path
    if isinstance(expr, ast.Attribute):
        return ("a", canon_key(expr.value, fr, depth + 1), expr.attr)
    if isinstance(expr, ast.Subscript):
        return ("s", canon_key(expr.value, fr, depth + 1), canon_key(expr.slice, fr, depth + 1))
    if isinstance(expr, ast.Call) and not expr.keywords and len(expr.args) <= 2 and isinstance(expr.func, ast.Name):
        return ("c", expr.func.id) + tuple(canon_key(a, fr, depth + 1) for a in expr.args)
    try:
        return ("t", frame_id(fr), ast.unparse(expr))
    except Exception:  # pragma: no cover
        return ("?",)
