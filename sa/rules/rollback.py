"""R-PAIR (rollback exactness) -- a compensation handler undoes exactly what was done.

An `except` handler that performs wallet effects and re-raises is a rollback: the operation is rejected and the handler
must restore the state of before the call.  The value-numbering evaluator records such handlers as `on-failure` effects
(sa/vn.py).  Rule: every wallet credit in a handler equals - same token, same canonical amount - a wallet debit performed
earlier on the same path of the operation, and vice versa; each earlier effect is compensated at most once.  A refund of
the requested maximum instead of the amount actually debited creates value on a rejected call (C03) and leaves the wallet
changed (C04)."""
from __future__ import annotations

import ast

from ..model import AnalysisError
from ..norm import srepr
from ..vn import Evaluator, Unreadable

CREDIT = {"add_to_balance", "_add_to_balance", "add"}
DEBIT = {"subtract_from_balance", "_subtract_from_balance", "sub"}
WALLET = sorted(CREDIT | DEBIT)


def rollback_rule(model, res, rule: str = "R-PAIR"):
    n = 0
    classes = [model.cls("Market")] + sorted(model.subclasses("Market"), key=lambda c: c.name) + [model.cls("Broker")]
    for c in classes:
        for name, f in sorted(c.methods.items()):
            handlers = [h for t in ast.walk(f.node) if isinstance(t, ast.Try) for h in t.handlers
                        if any(isinstance(x, ast.Call) and isinstance(x.func, ast.Attribute) and x.func.attr in CREDIT | DEBIT
                               for b in h.body for x in ast.walk(b))]
            if not handlers:
                continue
            try:
                paths = Evaluator(model, opaque_funcs=["get_sqrt_ratio_at_tick"]).effect_paths(f, WALLET + ["_record_action"], c)
            except Unreadable as e:
                raise AnalysisError(f"{res.prop}: {f.qualname} has a compensation handler but is outside the evaluator's language ({e})")
            bad = []
            for conds, env, ret in paths:
                done = []
                for e in env.get("$fx", ()):
                    if e[0] == "call" and e[1] in CREDIT | DEBIT:
                        done.append(e)
                    elif e[0] == "on-failure":
                        if e[1] == ("unreadable",):
                            raise AnalysisError(f"{res.prop}: compensation handler of {f.qualname} is outside the evaluator's language")
                        for hconds, hfx in e[1]:
                            pool = list(done)
                            for he in hfx:
                                if not (he[0] == "call" and he[1] in CREDIT | DEBIT):
                                    continue
                                want = DEBIT if he[1] in CREDIT else CREDIT
                                hit = next((d for d in pool if d[1] in want and srepr(d[2]) == srepr(he[2]) and srepr(d[3]) == srepr(he[3])), None)
                                if hit is None:
                                    bad.append((he, [d for d in pool if d[1] in want]))
                                else:
                                    pool.remove(hit)
            n += 1
            ok = not bad
            res.ob(rule, f"{f.qualname}: compensation handler undoes exactly the earlier wallet effects", f.loc(handlers[0]), ok=ok)
            if not ok:
                he, cands = bad[0]
                res.find(rule, f.qualname, f"compensation `{he[1]}{srepr(he[3])[:80]}` has no matching earlier effect", f.loc(handlers[0]),
                         f"{f.qualname}: the except handler performs `{he[1]}` with arguments {srepr(he[3])[:200]} but no earlier "
                         f"opposite wallet effect on this path has the same token and amount (earlier: "
                         f"{[srepr(d[3])[:120] for d in cands][:2]}): a rejected call does not restore the wallet exactly")
    return n
