"""R-CACHE -- typestate of memo caches (Aave's five DictCache fields).

Per cache: E (empty => valid), F (maybe filled, consistent), S(causes) (maybe filled and stale because of the
listed dependency writes).  A write to a dependency moves F->S; reset() -> E; a fill under `if cache.empty`
moves E->F.  Violations: a read of the cached value in S ("stale read") and leaving a method in S ("stale at
exit").  Dependencies are derived from the fill sites (what the fill expressions read, transitively).
"""
from __future__ import annotations

import ast
from typing import Dict, List, Optional, Set, Tuple

from ..interp import Domain, Frame, Interp, VPath, WriteEvent
from ..model import AnalysisError, ClassInfo, FuncInfo, Model
from .common import purge_loop_facts, Membership, canon_key, is_saved_copy_restore, site_of, stmt_of, target_subscript_key, text_of


def discover_caches(model: Model, cls: ClassInfo, cache_cls: str = "DictCache") -> List[str]:
    import ast as _ast
    out = []
    for f in model.fields_assigned_in_init(cls):
        t = model.field_type(cls, f)
        if isinstance(t, ClassInfo) and t.name == cache_cls:
            out.append(f)
    # memo containers bound in the class body (shared by all instances - R-FRESH reports that; the typestate is the same)
    for k in model.mro(cls):
        for st in k.node.body:
            if isinstance(st, (_ast.Assign, _ast.AnnAssign)) and st.value is not None:
                tg = st.targets[0] if isinstance(st, _ast.Assign) else st.target
                if isinstance(tg, _ast.Name) and isinstance(st.value, _ast.Call) and _ast.unparse(st.value.func).split(".")[-1] == cache_cls \
                        and tg.id not in out:
                    out.append(tg.id)
    return sorted(out)


def dep_kind(path: tuple, root: str) -> Optional[str]:
    """Abstract dependency touched by an access path under the market object."""
    if len(path) < 2 or path[0] != root:
        return None
    f = path[1]
    if f in ("_market_status", "_price_status"):
        return f
    if f in ("_supplies", "_borrows"):
        rest = path[2:]
        if rest == ("[]",):
            return f + ".keys"
        if len(rest) >= 2 and rest[0] == "[]":
            return f + "." + rest[1]
        if rest == ():
            return f + ".keys"
    return None


class DepCollector(Domain):
    """Collect what a fill getter reads (transitively): dependency kinds and other caches consulted."""

    def __init__(self, root: str, caches: List[str]):
        self.root = root
        self.caches = caches
        self.deps: Set[str] = set()
        self.consulted: Set[str] = set()

    def on_read(self, st, path, node, fr):
        k = dep_kind(path, self.root)
        if k:
            self.deps.add(k)
        if len(path) >= 2 and path[0] == self.root and path[1] in self.caches:
            self.consulted.add(path[1])
        return [st]

    def on_call(self, st, callee, node, fr, recv, args):
        # `for k, v in self._supplies.items()` iterates the keys
        if callee is None and isinstance(node.func, ast.Attribute) and node.func.attr in ("items", "keys", "values"):
            v = fr.interp.pure(node.func.value, fr)
            if isinstance(v, VPath):
                k = dep_kind(v.path, self.root)
                if k:
                    self.deps.add(k)
        return None


def derive_dependencies(model: Model, cls: ClassInfo, caches: List[str]) -> Tuple[Dict[str, Set[str]], Dict[str, str]]:
    """cache -> set of dependency kinds; cache -> name of the getter that fills it."""
    # a fill site is a `self.<cache>.set(k, expr)` call, whatever guards it (`if cache.empty`, `if k not in cache.value`, ...);
    # a cache may be filled by several getters
    fill_methods: Dict[str, List[str]] = {}
    for name, f in cls.methods.items():
        for n in ast.walk(f.node):
            if isinstance(n, ast.Call) and isinstance(n.func, ast.Attribute) and n.func.attr == "set":
                v = n.func.value
                if isinstance(v, ast.Attribute) and isinstance(v.value, ast.Name) and v.value.id == "self" and v.attr in caches \
                        and name not in fill_methods.get(v.attr, []):
                    fill_methods.setdefault(v.attr, []).append(name)
    fillers: Dict[str, str] = {c: ", ".join(sorted(g)) for c, g in fill_methods.items()}
    deps: Dict[str, Set[str]] = {}
    direct: Dict[str, Tuple[Set[str], Set[str]]] = {}
    for c, gs in fill_methods.items():
        d_all, c_all = set(), set()
        for g in gs:
            col = DepCollector(cls.name, caches)
            it = Interp(model, col)
            it.run(cls.methods[g], cls)
            d_all |= col.deps
            c_all |= col.consulted
        direct[c] = (d_all, c_all - {c})
    for c in fillers:
        seen = set()
        todo = [c]
        acc: Set[str] = set()
        while todo:
            x = todo.pop()
            if x in seen or x not in direct:
                continue
            seen.add(x)
            acc |= direct[x][0]
            todo.extend(direct[x][1])
        deps[c] = acc
    return deps, fillers


E = ("E",)
F = ("F",)


class CacheDomain(Domain):
    name = "R-CACHE"

    def __init__(self, model: Model, cls: ClassInfo, caches: List[str], deps: Dict[str, Set[str]],
                 coll_cache: Optional[str] = "_collaterals_amount_cache"):
        self.model = model
        self.cls = cls
        self.root = cls.name
        self.caches = caches
        self.deps = deps
        self.coll_cache = coll_cache if coll_cache in caches else None
        self.stale_reads: List[tuple] = []
        self.writes_seen: List[str] = []
        self.resets_seen = 0
        self.discharged_noncoll = 0
        self.restores = 0
        self.mem = Membership([(self.root, "_supplies"), (self.root, "_borrows")])

    # state: (tuple of cache states aligned with self.caches, frozenset of facts)
    def initial(self, fr):
        return [(tuple(F for _ in self.caches), frozenset())]

    def _set(self, cs, i, v):
        l = list(cs)
        l[i] = v
        return tuple(l)

    def _cache_of(self, path) -> Optional[int]:
        if len(path) >= 2 and path[0] == self.root and path[1] in self.caches:
            return self.caches.index(path[1])
        return None

    def on_write(self, st, ev: WriteEvent):
        cs, facts = st
        path = ev.path
        ci = self._cache_of(path)
        if ci is not None:
            # direct writes into a cache object (DictCache internals) are handled through reset()/set() summaries
            return [st]
        facts = self.mem.write(facts, ev)
        k = dep_kind(path, self.root)
        if k is None:
            return [(cs, facts)]
        key = self._key_of(ev)
        self.writes_seen.append(f"{ev.fr.loc(ev.node)} {k}")
        restore = is_saved_copy_restore(ev, path, key)
        if restore:
            self.restores += 1
        if k == "_supplies.collateral":
            facts = frozenset(f for f in facts if not (f[0] == "noncoll" and f[1] == key))
        site = (ev.fr.loc(ev.node), text_of(stmt_of(ev.node), ev.fr), ev.fr.func.qualname)
        for i, c in enumerate(self.caches):
            if k not in self.deps.get(c, ()):
                continue
            if c == self.coll_cache and k in ("_supplies.base_amount", "_supplies.keys") and ("noncoll", key) in facts:
                self.discharged_noncoll += 1
                continue  # a non-collateral supply is not part of the collateral view
            cur = cs[i]
            if cur == E:
                continue
            causes = cur[1] if cur[0] == "S" else frozenset()
            if restore:
                # restoring the saved original: a cache that was (possibly) filled BEFORE the trial write and not
                # reset since then agrees with the restored value again
                mine = frozenset(c2 for c2 in causes if c2[0] == k and c2[1] == key)
                if mine:
                    left = causes - mine
                    cs = self._set(cs, i, ("S", left) if left else F)
                    continue
            cs = self._set(cs, i, ("S", causes | {(k, key, site)}))
        return [(cs, facts)]

    def _key_of(self, ev: WriteEvent):
        return target_subscript_key(ev.node, ev.fr)

    def on_call(self, st, callee, node, fr, recv, args):
        if callee is not None and callee.cls is not None and callee.cls.name == "DictCache" and isinstance(recv, VPath):
            ci = self._cache_of(recv.path)
            if ci is None:
                return None
            cs, facts = st
            if callee.name == "reset":
                self.resets_seen += 1
                return [(self._set(cs, ci, E), facts)]
            if callee.name == "set":
                if cs[ci] == E:
                    return [(self._set(cs, ci, F), facts)]
                return [st]
            if callee.name == "get":
                return self._read(st, ci, node, fr)
        return None

    def _read(self, st, ci, node, fr):
        cs, facts = st
        cur = cs[ci]
        if cur[0] == "S" and cur[1]:
            n, f = site_of(node, fr)
            self.stale_reads.append((self.caches[ci], f.loc(n), f.func.qualname, text_of(stmt_of(n), f), cur[1],
                                     fr.entry().func.qualname, fr.chain()))
        return [st]

    def on_read(self, st, path, node, fr):
        st = (st[0], self.mem.read(st[1], path, node, fr))
        ci = self._cache_of(path)
        if ci is not None and len(path) >= 3 and path[2] in ("_value", "value"):
            return self._read(st, ci, node, fr)
        return [st]

    def on_loop_edge(self, st, loopnode, fr):
        return (st[0], purge_loop_facts(st[1], loopnode, fr))

    def on_branch(self, st, test, fr, taken):
        cs, facts = st
        facts = self.mem.branch(facts, test, fr, taken)
        if facts is None:
            return []
        st = (cs, facts)
        # `if self.<cache>.empty`
        if isinstance(test, ast.Attribute) and test.attr == "empty":
            v = fr.interp.pure(test.value, fr)
            if isinstance(v, VPath):
                ci = self._cache_of(v.path)
                if ci is not None:
                    cur = cs[ci]
                    if cur == E:
                        return [st] if taken else []
                    if taken:
                        return [(self._set(cs, ci, E), facts)]
                    return [st]
        # collateral-conditional idiom: `if self._supplies[k].collateral:`
        if isinstance(test, ast.Attribute) and test.attr == "collateral" and isinstance(test.value, ast.Subscript):
            v = fr.interp.pure(test.value.value, fr)
            if isinstance(v, VPath) and v.path == (self.root, "_supplies"):
                key = canon_key(test.value.slice, fr)
                if not taken:
                    facts = facts | {("noncoll", key)}
                    if self.coll_cache is not None:
                        i = self.caches.index(self.coll_cache)
                        cur = cs[i]
                        if cur[0] == "S":
                            left = frozenset(c for c in cur[1] if not (
                                c[0] in ("_supplies.base_amount", "_supplies.keys") and c[1] == key))
                            if left != cur[1]:
                                self.discharged_noncoll += 1
                            cs = self._set(cs, i, ("S", left) if left else F)
                    return [(cs, facts)]
        return [st]


USER_OPS_ONLY_RAISE_EXITS = True


def run_cache(model: Model, res, cls_name: str = "AaveV3Market", prop: str = "C13", user_ops=None):
    cls = model.cls(cls_name)
    caches = discover_caches(model, cls)
    deps, fillers = derive_dependencies(model, cls, caches)
    res.units["caches"] = {c: sorted(deps.get(c, [])) for c in caches}
    res.units["fill_getters"] = fillers
    if len(caches) < 1:
        raise AnalysisError(f"{prop}: no DictCache fields found in {cls_name}")
    missing = [c for c in caches if c not in fillers]
    if missing:
        raise AnalysisError(f"{prop}: no fill site found for caches {missing}")
    n_methods = 0
    n_writers = 0
    total_resets = 0
    machinery = {"_liquidate", "_do_liquidate", "update"}
    # entry points: public methods, and private methods that no other method of the class calls.  A private helper that
    # is only reached through other methods of the class may hand a stale cache back to its caller; it is covered, with
    # its callers' resets, by inlining.
    called_inside = set()
    for name, f in cls.methods.items():
        for n in ast.walk(f.node):
            if isinstance(n, ast.Call) and isinstance(n.func, ast.Attribute) and isinstance(n.func.value, ast.Name) \
                    and n.func.value.id == "self" and n.func.attr in cls.methods and n.func.attr != name:
                called_inside.add(n.func.attr)
    for name, f in sorted(cls.methods.items()):
        if name == "__init__":
            continue
        if name.startswith("_") and not name.endswith("__") and name in called_inside:
            continue
        dom = CacheDomain(model, cls, caches, deps)
        it = Interp(model, dom)
        out, raises = it.run(f, cls)
        n_methods += 1
        total_resets += dom.resets_seen
        writer = bool(dom.writes_seen)
        if writer:
            n_writers += 1
        bad = 0
        # stale reads
        seen = set()
        for (c, loc, fq, txt, causes, entry, chain) in dom.stale_reads:
            for (k, key, wsite) in sorted(causes, key=lambda x: (x[2], x[0])):
                kk = (c, fq, txt, wsite[1])
                if kk in seen:
                    continue
                seen.add(kk)
                bad += 1
                res.find("R-CACHE", wsite[2], f"stale read of {c}: write `{wsite[1]}` then read `{txt}` in {fq}",
                         wsite[0],
                         f"`{wsite[1]}` changes {k} on which {c} depends, and the cached value is read at {loc} "
                         f"(`{txt}`) before the cache is reset; reached from {cls_name}.{name}",
                         {"cache": c, "dependency": k, "write": wsite[1], "write_loc": wsite[0], "read": txt,
                          "read_loc": loc, "entry": f"{cls_name}.{name}"})
        # stale at exit
        exits = [("return", s, None, None) for s in out]
        if name not in machinery:
            exits += [("raise", s, node, rfr) for (s, exc, node, rfr, note) in raises]
        seen = set()
        for kind, s, node, rfr in exits:
            cs, facts = s
            for i, c in enumerate(caches):
                cur = cs[i]
                if cur[0] != "S" or not cur[1]:
                    continue
                for (k, key, wsite) in sorted(cur[1], key=lambda x: (x[2], x[0])):
                    if kind == "raise":
                        n2, f2 = site_of(node, rfr)
                        where = f"rejection `{text_of(n2, f2)}` in {f2.func.qualname}"
                        ekey = f"raise:{text_of(n2, f2)}"
                    else:
                        where = "normal return"
                        ekey = "return"
                    kk = (c, wsite[1], ekey)
                    if kk in seen:
                        continue
                    seen.add(kk)
                    bad += 1
                    res.find("R-CACHE", wsite[2], f"{c} stale at exit ({ekey}) after `{wsite[1]}`", wsite[0],
                             f"`{wsite[1]}` changes {k} on which {c} depends, and {cls_name}.{name} can leave through "
                             f"{where} without resetting {c}",
                             {"cache": c, "dependency": k, "write": wsite[1], "write_loc": wsite[0], "exit": ekey,
                              "entry": f"{cls_name}.{name}"})
        if writer or dom.stale_reads:
            res.ob("R-CACHE", f"{cls_name}.{name}: {len(set(dom.writes_seen))} dependency writes, "
                              f"{dom.resets_seen} reset events, {len(out)} return states, {len(raises)} raise exits",
                   f.loc(), ok=(bad == 0),
                   detail="every cache is reset before any read and before every exit" if bad == 0 else f"{bad} stale uses")
    res.units["methods_analysed"] = n_methods
    res.units["dependency_writer_methods"] = n_writers
    res.units["reset_events"] = total_resets
    return n_writers, caches


def who_writes(model: Model, res, cls_name: str, fields: List[str], allowed_modules: List[str], rule="R-EFFECT"):
    """No function outside the allowed modules stores into the given fields (syntactic who-writes check)."""
    n = 0
    for f in model.all_functions():
        if f.module.relpath in allowed_modules:
            continue
        for node in ast.walk(f.node):
            tgts = []
            if isinstance(node, ast.Assign):
                tgts = node.targets
            elif isinstance(node, (ast.AugAssign, ast.AnnAssign)):
                tgts = [node.target]
            elif isinstance(node, ast.Delete):
                tgts = node.targets
            for t in tgts:
                for sub in ast.walk(t):
                    if isinstance(sub, ast.Attribute) and sub.attr in fields:
                        n += 1
                        res.find(rule, f.qualname, f"outside writer of {sub.attr}: {ast.unparse(node)}", f.loc(node),
                                 f"{f.qualname} writes field {sub.attr} of {cls_name} from outside {allowed_modules}")
    res.ob(rule, f"no module outside {allowed_modules} writes {fields}", allowed_modules[0], ok=(n == 0))


def cache_escape_rule(model: Model, res, cls_name: str, caches, rule: str = "R-CACHE"):
    """A memo getter hands out the memo's OWN container (`return self._x_cache.value`).  Whoever receives it may read it;
    a callee that mutates the parameter it is bound to, or a statement that mutates it in place, changes the memo without
    going through set()/reset(): the view stays 'filled' and is no longer the recomputation.  Parameter-mutation
    summaries come from the alias analysis (fixpoint over resolved callees)."""
    import ast as _ast
    from ..report import Result
    from .alias import cell_mutation_rule, MUTATORS0
    c = model.cls(cls_name)
    getters = {}
    for k in model.mro(c):
        for name, f in k.methods.items():
            if not f.is_property or name in getters:
                continue
            for r in _ast.walk(f.node):
                if isinstance(r, _ast.Return) and isinstance(r.value, _ast.Attribute) and isinstance(r.value.value, _ast.Attribute) \
                        and isinstance(r.value.value.value, _ast.Name) and r.value.value.value.id == "self" and r.value.value.attr in caches:
                    getters[name] = r.value.value.attr
    mutating, _ = cell_mutation_rule(model, Result(res.prop, "scratch"))
    by_name = {}
    for f in model.all_functions():
        by_name.setdefault(f.name, []).append(f)
    n = 0
    bad = []
    for f in model.all_functions():
        if not f.module.relpath.startswith("demeter/aave/"):
            continue
        me = f.params[0] if f.is_method and f.params else None
        # locals bound to a handed-out container
        held = {}
        for s in _ast.walk(f.node):
            if isinstance(s, _ast.Assign) and len(s.targets) == 1 and isinstance(s.targets[0], _ast.Name) and isinstance(s.value, _ast.Attribute) \
                    and isinstance(s.value.value, _ast.Name) and s.value.value.id == me and s.value.attr in getters:
                held[s.targets[0].id] = s.value.attr

        def view_of(e):
            if isinstance(e, _ast.Attribute) and isinstance(e.value, _ast.Name) and e.value.id == me and e.attr in getters:
                return e.attr
            if isinstance(e, _ast.Name) and e.id in held:
                return held[e.id]
            return None

        for s in _ast.walk(f.node):
            if isinstance(s, _ast.Call):
                # in-place mutation of the view
                if isinstance(s.func, _ast.Attribute) and s.func.attr in MUTATORS0 and view_of(s.func.value):
                    n += 1
                    bad.append((f, s, view_of(s.func.value), f"`.{s.func.attr}()` on the view"))
                    continue
                nm = s.func.attr if isinstance(s.func, _ast.Attribute) else (s.func.id if isinstance(s.func, _ast.Name) else None)
                for g in by_name.get(nm, [])[:4]:
                    summ = mutating.get(g.qualname)
                    params = g.params[1:] if (g.is_method or g.is_classmethod) else list(g.params)
                    pairs = list(zip(params, s.args)) + [(k.arg, k.value) for k in s.keywords if k.arg]
                    for p, a in pairs:
                        v = view_of(a)
                        if v is None:
                            continue
                        n += 1
                        if summ and p in summ:
                            bad.append((f, s, v, f"passed as `{p}` to {g.qualname}, which mutates that argument"))
            tg = s.targets if isinstance(s, (_ast.Assign, _ast.Delete)) else ([s.target] if isinstance(s, _ast.AugAssign) else [])
            for t in tg:
                if isinstance(t, _ast.Subscript) and view_of(t.value):
                    n += 1
                    bad.append((f, s, view_of(t.value), "item store / delete on the view"))
    res.ob(rule, f"containers handed out by the memo getters {sorted(getters)} are never mutated by their receivers ({n} hand-over sites)",
           c.module.relpath, ok=not bad)
    for f, s, v, how in bad:
        res.find(rule, f.qualname, f"memo container of {v} mutated outside the cache: {how}", f.loc(s),
                 f"{f.qualname}: `{_ast.unparse(s)[:90]}` - the dict returned by `{v}` IS the memo ({getters[v]}); it is {how}, so the cached view "
                 f"changes without a reset and every later read of `{v}` (and of the views derived from it) differs from a recomputation")
    res.units["memo_getters_handing_out_their_container"] = len(getters)
    return len(getters), n
