"""R-FRESH -- state lives in the instance (or the call), never in a place that other instances / other calls share.

Several properties silently rely on it: views equal a recomputation (C13), mirrored pools / several markets do not
influence each other (C01, C09, C10), strategies run by the manager are independent (C19: `copy.deepcopy` and pickling
copy INSTANCE state, not class attributes, default-argument objects, module globals or closure cells), metrics are
functions of their arguments (C20), TickMath is a function of the tick (C06, C07).  The rule enumerates the four places
where Python shares a mutable object behind the programmer's back and reports each one that is actually written to:

  S1  a mutable default argument (display / constructor call) that the function stores into an attribute, returns, or
      mutates;
  S2  a class-level attribute bound to a mutable object (display, constructor call) that some method mutates through
      `self.X...` / `cls.X...` without rebinding `self.X` in `__init__` first;
  S3  a module-level mutable object (or a name declared `global`) that a function writes;
  S4  a closure cell (`nonlocal`, or a captured mutable object) written by an inner function that outlives the call
      (decorator / memo idiom).

Immutable constants, dataclass `field(default_factory=...)`, rebinding in `__init__`, and pure reads are not reports.
Exceptions are listed by symbol with a reason."""
from __future__ import annotations

import ast
from typing import Dict, List, Optional, Set, Tuple

from ..model import FuncInfo, Model

MUTATING_METHODS = {"append", "extend", "insert", "pop", "remove", "clear", "sort", "reverse", "update", "setdefault", "popitem",
                    "add", "discard", "set", "reset", "appendleft"}
IMMUTABLE_CALLS = {"Decimal", "int", "float", "str", "bool", "tuple", "frozenset", "bytes", "complex", "Fraction", "TokenInfo",
                   "timedelta", "Timedelta", "Timestamp", "datetime", "date", "time", "UnitDecimal", "MarketInfo", "Enum", "Rule",
                   "getLogger", "field", "TypeVar", "namedtuple", "compile"}
EXCLUDED = ("demeter/utils/console_text.py",)


def _is_mutable_value(v: Optional[ast.AST]) -> bool:
    if v is None:
        return False
    if isinstance(v, (ast.Dict, ast.List, ast.Set, ast.ListComp, ast.DictComp, ast.SetComp)):
        return True
    if isinstance(v, ast.Call):
        nm = v.func.attr if isinstance(v.func, ast.Attribute) else (v.func.id if isinstance(v.func, ast.Name) else "")
        if nm in ("dict", "list", "set", "defaultdict", "OrderedDict", "deque", "Counter", "DataFrame", "Series"):
            return True
        if nm in IMMUTABLE_CALLS or nm == "":
            return False
        return nm[:1].isupper()      # a constructor call of a (repository) class: an object with fields
    return False


def _is_empty_container(v) -> bool:
    if isinstance(v, (ast.List, ast.Set)) and not v.elts:
        return True
    if isinstance(v, ast.Dict) and not v.keys:
        return True
    if isinstance(v, ast.Call) and not v.args and not v.keywords:
        nm = v.func.attr if isinstance(v.func, ast.Attribute) else (v.func.id if isinstance(v.func, ast.Name) else "")
        return nm in ("dict", "list", "set", "defaultdict", "OrderedDict", "deque", "MarketDict", "AssetDict")
    return False


def _writes_through(node: ast.AST, root_test) -> List[ast.AST]:
    """Statements / calls inside `node` that mutate an object reached through an expression accepted by root_test."""
    out = []
    for n in ast.walk(node):
        tgts = []
        if isinstance(n, ast.Assign):
            tgts = n.targets
        elif isinstance(n, (ast.AugAssign, ast.AnnAssign)):
            tgts = [n.target]
        elif isinstance(n, ast.Delete):
            tgts = n.targets
        for t in tgts:
            for tt in (t.elts if isinstance(t, (ast.Tuple, ast.List)) else [t]):
                if isinstance(tt, (ast.Subscript, ast.Attribute)):
                    b = tt.value
                    while isinstance(b, (ast.Subscript, ast.Attribute)) and not root_test(b):
                        b = b.value
                    if root_test(b):
                        out.append(n)
        if isinstance(n, ast.Call) and isinstance(n.func, ast.Attribute) and n.func.attr in MUTATING_METHODS:
            b = n.func.value
            while isinstance(b, (ast.Subscript, ast.Attribute)) and not root_test(b):
                b = b.value
            if root_test(b):
                out.append(n)
    return out


DEFAULT_ALLOW = {"BacktestManager.run": "global_data hands the read-only data frames to forked workers (R-INPUT guards the frames)"}
COMMON = ("demeter/broker/", "demeter/_typing.py", "demeter/utils/")


def fresh_rule(model: Model, res, rule: str = "R-FRESH", allow: Optional[Dict[str, str]] = None, scope: Tuple[str, ...] = ()):
    """`scope`: path prefixes whose findings belong to the calling property (empty = whole repository)."""
    allow = dict(DEFAULT_ALLOW, **(allow or {}))
    n = 0
    findings = []

    def report(kind, where, func, construct, msg):
        key = f"{func}:{construct}"
        if any(key.startswith(a) or func == a for a in allow):
            res.notes.append(f"{kind} exception `{func}`: {allow.get(func, '')}")
            return
        findings.append((kind, where, func, construct, msg))

    for m in sorted(model.modules.values(), key=lambda x: x.relpath):
        if m.relpath in EXCLUDED:
            continue
        # ---- S3 module-level mutable objects written by functions
        mod_mut = {}
        for st in m.tree.body:
            if isinstance(st, (ast.Assign, ast.AnnAssign)):
                tg = st.targets[0] if isinstance(st, ast.Assign) else st.target
                if isinstance(tg, ast.Name) and _is_mutable_value(st.value):
                    mod_mut[tg.id] = st
        funcs: List[FuncInfo] = list(m.funcs.values())
        for c in m.classes.values():
            funcs += list(c.methods.values()) + list(c.setters.values())
        for f in funcs:
            n += 1
            declared = {g for s in ast.walk(f.node) if isinstance(s, ast.Global) for g in s.names}
            local_names = {a.arg for a in f.node.args.args + f.node.args.kwonlyargs} | {
                t.id for s in ast.walk(f.node) if isinstance(s, (ast.Assign, ast.AnnAssign, ast.For, ast.With, ast.AugAssign))
                for t in ast.walk(s) if isinstance(t, ast.Name) and isinstance(t.ctx, ast.Store)} - declared
            for s in ast.walk(f.node):
                if isinstance(s, (ast.Assign, ast.AugAssign, ast.AnnAssign)) and declared:
                    tgs = s.targets if isinstance(s, ast.Assign) else [s.target]
                    for t in tgs:
                        if isinstance(t, ast.Name) and t.id in declared:
                            report("S3", f.loc(s), f.qualname, f"global {t.id}",
                                   f"{f.qualname} rebinds the module global `{t.id}`: state shared by every caller in the process")
            for nm in mod_mut:
                if nm in local_names:
                    continue
                # the object itself, or a local bound to it without a copy (`m = TEMPLATE; m[k] = v` / `m |= {...}` write the
                # module's one object)
                roots = {nm} | {t.id for s in ast.walk(f.node) if isinstance(s, ast.Assign) and isinstance(s.value, ast.Name) and s.value.id == nm
                                for t in s.targets if isinstance(t, ast.Name)}
                ws = _writes_through(f.node, lambda b, roots=roots: isinstance(b, ast.Name) and b.id in roots)
                ws += [s for s in ast.walk(f.node) if isinstance(s, ast.AugAssign) and isinstance(s.target, ast.Name)
                       and s.target.id in (roots - {nm})]
                if ws:
                    report("S3", f.loc(ws[0]), f.qualname, f"module object {nm}",
                           f"{f.qualname} mutates the module-level object `{nm}` (`{ast.unparse(ws[0])[:60]}`): its result depends on "
                           f"earlier calls and is shared by every instance / strategy in the process")
            # ---- S1 mutable default arguments that escape or are mutated
            a = f.node.args
            pos = a.posonlyargs + a.args
            pairs = list(zip(pos[len(pos) - len(a.defaults):], a.defaults)) + [(p, d) for p, d in zip(a.kwonlyargs, a.kw_defaults) if d is not None]
            for p, d in pairs:
                if not _is_mutable_value(d):
                    continue
                name = p.arg
                escapes = [s for s in ast.walk(f.node) if isinstance(s, ast.Assign) and isinstance(s.value, ast.Name) and s.value.id == name
                           and any(isinstance(t, (ast.Attribute, ast.Subscript)) for t in s.targets)]
                escapes += [s for s in ast.walk(f.node) if isinstance(s, ast.AnnAssign) and isinstance(s.value, ast.Name) and s.value.id == name
                            and isinstance(s.target, (ast.Attribute, ast.Subscript))]
                escapes += [s for s in ast.walk(f.node) if isinstance(s, ast.Return) and isinstance(s.value, ast.Name) and s.value.id == name]
                muts = _writes_through(f.node, lambda b, name=name: isinstance(b, ast.Name) and b.id == name)
                if escapes or muts:
                    site = (escapes or muts)[0]
                    report("S1", f.loc(site), f.qualname, f"default {name}={ast.unparse(d)[:30]}",
                           f"{f.qualname}: the default `{name}={ast.unparse(d)}` is ONE object created at definition time; it is "
                           f"{'stored / returned' if escapes else 'mutated'} here (`{ast.unparse(site)[:60]}`), so every call that relies on the "
                           f"default shares it")
            # ---- S4 closure cells written by inner functions
            for inner in ast.walk(f.node):
                if not isinstance(inner, (ast.FunctionDef, ast.AsyncFunctionDef, ast.Lambda)) or inner is f.node:
                    continue
                nl = {g for s in ast.walk(inner) if isinstance(s, ast.Nonlocal) for g in s.names}
                returned = any(isinstance(s, ast.Return) and isinstance(s.value, ast.Name) and s.value.id == getattr(inner, "name", None)
                               for s in ast.walk(f.node)) or any(
                    isinstance(d, ast.Name) and d.id == f.name for g in funcs for d in g.node.decorator_list) or \
                    any(isinstance(s, ast.Return) and isinstance(s.value, ast.Call) and any(
                        isinstance(x, ast.Name) and x.id == getattr(inner, "name", None) for x in ast.walk(s.value)) for s in ast.walk(f.node))
                if not returned:
                    continue        # the inner function dies with the call: its captured state is per call
                outer_mut = {t.targets[0].id for t in f.node.body if isinstance(t, ast.Assign) and isinstance(t.targets[0], ast.Name)
                             and _is_mutable_value(t.value)} | {
                    t.target.id for t in f.node.body if isinstance(t, ast.AnnAssign) and isinstance(t.target, ast.Name) and _is_mutable_value(t.value)}
                inner_locals = {x.arg for x in inner.args.args} if hasattr(inner, "args") else set()
                ws = []
                for nm in outer_mut - inner_locals:
                    ws += _writes_through(inner, lambda b, nm=nm: isinstance(b, ast.Name) and b.id == nm)
                if nl:
                    ws += [s for s in ast.walk(inner) if isinstance(s, (ast.Assign, ast.AugAssign)) and any(
                        isinstance(t, ast.Name) and t.id in nl for t in (s.targets if isinstance(s, ast.Assign) else [s.target]))]
                if ws:
                    report("S4", f.loc(ws[0]), f.qualname, f"closure state in {getattr(inner, 'name', 'lambda')}",
                           f"{f.qualname}: the returned inner function keeps state between calls in a closure cell "
                           f"(`{ast.unparse(ws[0])[:60]}`): results depend on the call history (memo / decorator state)")
        # ---- S5 process-wide interpreter settings changed inside a function (module-level configuration at import time is
        #         one fixed setting; a function that changes it changes the arithmetic of everything that runs afterwards)
        for f in funcs:
            ctx_names = {s.targets[0].id for s in ast.walk(f.node) if isinstance(s, ast.Assign) and isinstance(s.targets[0], ast.Name)
                         and isinstance(s.value, ast.Call) and ast.unparse(s.value.func).split(".")[-1] == "getcontext"}
            def _is_ctx_attr(t):
                return isinstance(t, ast.Attribute) and ((isinstance(t.value, ast.Call) and ast.unparse(t.value.func).split(".")[-1] == "getcontext")
                                                         or (isinstance(t.value, ast.Name) and t.value.id in ctx_names))

            # a change that a `finally` clause undoes is scoped: the write inside the try body, the write just before the
            # try statement and the restoring write itself are not reports
            scoped = set()
            for blk in ast.walk(f.node):
                for fld in ("body", "orelse", "finalbody"):
                    stmts = getattr(blk, fld, None)
                    if not isinstance(stmts, list):
                        continue
                    for i, st in enumerate(stmts):
                        if isinstance(st, ast.Try) and st.finalbody:
                            restored = {t.attr for x in st.finalbody for y in ast.walk(x) if isinstance(y, ast.Assign)
                                        for t in y.targets if _is_ctx_attr(t)}
                            if not restored:
                                continue
                            inside = [y for x in st.body + st.finalbody + st.orelse + [h for hh in st.handlers for h in hh.body] for y in ast.walk(x)]
                            before = [y for y in ast.walk(stmts[i - 1])] if i > 0 else []
                            for y in inside + before:
                                if isinstance(y, (ast.Assign, ast.AugAssign)):
                                    for t in (y.targets if isinstance(y, ast.Assign) else [y.target]):
                                        if _is_ctx_attr(t) and t.attr in restored:
                                            scoped.add(id(y))
            for s in ast.walk(f.node):
                tgts = s.targets if isinstance(s, ast.Assign) else ([s.target] if isinstance(s, ast.AugAssign) else [])
                if id(s) in scoped:
                    continue
                for t in tgts:
                    if _is_ctx_attr(t):
                        report("S5", f.loc(s), f.qualname, f"decimal context {t.attr}",
                               f"{f.qualname} changes the process-wide decimal context (`{ast.unparse(s)[:60]}`): every computation that "
                               f"runs afterwards in this process - other markets, other strategies - uses the changed {t.attr} unless "
                               f"every path restores it")
                if isinstance(s, ast.Call) and ast.unparse(s.func).split(".")[-1] in ("setcontext", "set_option", "seterr", "setlocale",
                                                                                      "setrecursionlimit", "seed"):
                    report("S5", f.loc(s), f.qualname, f"process setting {ast.unparse(s.func)}",
                           f"{f.qualname} changes a process-wide setting (`{ast.unparse(s)[:60]}`)")
        # ---- S2 class-level mutable attributes mutated through self / cls
        for c in m.classes.values():
            if c.is_dataclass:
                cand = {}
                for st in c.node.body:
                    if isinstance(st, ast.AnnAssign) and isinstance(st.target, ast.Name) and _is_mutable_value(st.value):
                        cand[st.target.id] = st
            else:
                cand = {}
                for st in c.node.body:
                    if isinstance(st, (ast.Assign, ast.AnnAssign)):
                        tg = st.targets[0] if isinstance(st, ast.Assign) else st.target
                        if isinstance(tg, ast.Name) and _is_mutable_value(st.value):
                            cand[tg.id] = st
            if not cand:
                continue
            init = c.methods.get("__init__")
            empties = {nm for nm, st in cand.items() if not c.is_dataclass and _is_empty_container(st.value)}
            rebound = set()
            if init is not None:
                for s in ast.walk(init.node):
                    if isinstance(s, (ast.Assign, ast.AnnAssign)):
                        for t in (s.targets if isinstance(s, ast.Assign) else [s.target]):
                            if isinstance(t, ast.Attribute) and isinstance(t.value, ast.Name) and t.value.id == "self":
                                rebound.add(t.attr)
            for nm, st in cand.items():
                if nm in rebound:
                    continue
                n += 1

                def root(b, nm=nm):
                    return isinstance(b, ast.Attribute) and b.attr == nm and isinstance(b.value, ast.Name) and b.value.id in ("self", "cls", c.name)

                ws = []
                who = None
                for f in model.all_functions():
                    w = _writes_through(f.node, root)
                    if w and (f.cls is None or c in model.mro(f.cls) or f.cls is c):
                        ws += w
                        who = who or f
                # dataclass defaults are also mutated through instances created elsewhere: x = C(...); x.nm[...] = ...
                if c.is_dataclass and not ws:
                    for f in model.all_functions():
                        for s in ast.walk(f.node):
                            if isinstance(s, ast.Assign) and isinstance(s.value, ast.Call) and isinstance(s.value.func, ast.Name) \
                                    and s.value.func.id == c.name and isinstance(s.targets[0], ast.Name) \
                                    and not any(k.arg == nm for k in s.value.keywords):
                                fields = [x.target.id for x in c.node.body if isinstance(x, ast.AnnAssign) and isinstance(x.target, ast.Name)]
                                if nm in fields and len(s.value.args) > fields.index(nm):
                                    continue
                                var = s.targets[0].id
                                w = _writes_through(f.node, lambda b, var=var, nm=nm: isinstance(b, ast.Attribute) and b.attr == nm
                                                    and isinstance(b.value, ast.Name) and b.value.id == var)
                                if w:
                                    ws += w
                                    who = who or f
                if not ws and nm in empties:
                    # an EMPTY container on the class is only useful by being filled - through instances (the repository's own
                    # code or the user's subclass: `self.triggers.append(...)`), all of which share the one object
                    report("S2", f"{m.relpath}:{st.lineno}", f"{c.name}.{nm}", f"class attribute {nm}={ast.unparse(st.value)[:30]}",
                           f"{c.name}.{nm} is an empty mutable container bound ONCE in the class body and never rebound per instance in "
                           f"__init__: whatever is put into it through one instance (by the library or by a user's subclass) is seen by "
                           f"every other instance in the process")
                if ws:
                    report("S2", (who.loc(ws[0]) if who else f"{m.relpath}:{st.lineno}"), f"{c.name}.{nm}", f"class attribute {nm}={ast.unparse(st.value)[:30]}",
                           f"{c.name}.{nm} is bound ONCE in the class body to a mutable object (`{ast.unparse(st.value)[:40]}`) and is mutated "
                           f"through instances (`{ast.unparse(ws[0])[:60]}` in {who.qualname if who else '?'}): every instance - every market, "
                           f"every strategy in the process - shares it")
    if scope:
        findings = [x for x in findings if x[1].startswith(tuple(scope) + COMMON)]
    for kind, where, func, construct, msg in findings:
        res.ob(rule, f"{kind}: {func} {construct}", where, ok=False)
        res.find(rule, func, construct, where, msg)
    res.ob(rule, f"no shared mutable state is written in {list(scope) or 'the repository'} (+ shared plumbing): default arguments, class "
                 f"attributes, module objects, closure cells ({n} sites examined)", "demeter/", ok=not findings)
    res.units["fresh_state_sites_examined"] = n
    from .world import world_rule
    if "R-WORLD" not in res.rules:
        res.rules.append("R-WORLD")
    world_rule(model, res, scope=scope)
    return n, len(findings)
