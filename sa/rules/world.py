"""R-WORLD -- the program is what its definitions say.

Every other rule decides a property from the *definitions* of the functions involved: it resolves a call to a `def`, a
field to what `__init__` stores, an operator on a repository class to plain arithmetic.  Python lets a program change
all of that from somewhere else.  This rule makes the assumptions explicit and checks them on every run:

  W1  a name bound by `def` / `class` is bound again later in the same namespace (module or class body);
  W2  an attribute of a class or module object is assigned from outside (`Cls.m = f`, `setattr(Cls, "m", f)`);
      -> where the new value is a function of the repository, the model FOLLOWS it (last binding wins, exactly as the
         interpreter does) and every formula / ledger / path rule analyses the function that will really run; the
         evidence lists what was followed.  What cannot be followed is refused (exit 2: nothing is decided);
         a class / module attribute changed at run time (inside a function) is shared state and a violation.
  W3  a decorator outside the modelled set {property, X.setter, staticmethod, classmethod, abstractmethod, dataclass,
      wraps, write_func, float_param_formatter}:
        * a memoising decorator (lru_cache / cache / cached_property) on a function that reads instance, class or module
          state keeps returning the value of the FIRST call although the state moves on: violation;  on a function of
          its arguments alone it is the identity (silent) unless the function hands out a mutable object, which all
          callers would then share: violation;
        * a decorator defined in the repository must be a transparent wrapper (returns `func(*args, **kwargs)`);
        * anything else is refused.
  W4  a class defines an operator / protocol method the evaluator does not model (arithmetic, ordering, `__bool__`,
      `__getattr__`, `__setattr__`, descriptors, `__init_subclass__`, metaclasses ...): refused, because expressions
      over instances of that class no longer mean what the evaluator assumes.  The modelled ones are listed with the
      reference that covers them.

Findings are scoped like R-FRESH: by the path of the *affected* definition."""
from __future__ import annotations

import ast
from typing import Dict, Optional, Tuple

from ..model import AnalysisError, FuncInfo, Model
from .fresh import _is_mutable_value

MODELLED_DECORATORS = {"property", "staticmethod", "classmethod", "abstractmethod", "abc.abstractmethod", "dataclass", "dataclasses.dataclass",
                       "wraps", "functools.wraps", "write_func", "float_param_formatter", "overload", "typing.overload", "final", "typing.final"}
MEMO_DECORATORS = {"lru_cache", "cache", "cached_property", "functools.lru_cache", "functools.cache", "functools.cached_property", "memoize", "memoized"}
# operator / protocol methods the evaluator gives a meaning to, and where that meaning is checked
MODELLED_DUNDERS: Dict[Tuple[str, str], str] = {
    ("TokenInfo", "__eq__"): "token_identity reference (props/base_refs.py)",
    ("TokenInfo", "__hash__"): "token_identity reference (props/base_refs.py)",
    ("UnitDecimal", "__new__"): "constructor arguments are kept by the evaluator; arithmetic is Decimal's",
}
CONTAINER_CLASSES = {"MarketDict", "AssetDict"}        # mapping protocol compared with the container references (base_refs)
CONTAINER_DUNDERS = {"__getitem__", "__setitem__", "__contains__", "__len__", "__iter__", "__delitem__"}
NEUTRAL_DUNDERS = {"__init__", "__str__", "__repr__", "__post_init__",   # __post_init__ is executed by the evaluator on construction
                   "__format__", "__doc__", "__slots__", "__annotations__", "__module__",
                   "__enter__", "__exit__", "__del__", "__sizeof__", "__dir__", "__class_getitem__"}
COMMON = ("demeter/broker/", "demeter/_typing.py", "demeter/utils/", "demeter/__init__.py")
# methods of Market that the ledgers treat as opaque sinks (confirmed by reading)
LEDGER_SINKS = ("_record_action",)
# exception classes of the repository and their bases (confirmed by reading)
EXCEPTION_BASES = {"DemeterError": ("RuntimeError",), "DemeterWarning": ("RuntimeWarning",), "InsufficientBalanceError": ("DemeterError",)}
# constants whose name states their value (confirmed by reading)
from fractions import Fraction as _F
# grid constants: the option data is hourly, everything else is minutely (confirmed by reading)
TIME_CONSTANTS = {("deribit.market", "BASIC_INTERVAL"): 3600, ("deribit._typing", "DERIBIT_OPTION_FREQ"): 3600,
                  ("core.actuator", "BASIC_INTERVAL"): 60, ("broker._typing", "BASE_FREQ"): 60}
NAMED_CONSTANTS = {("_typing", "DECIMAL_0"): _F(0), ("_typing", "DECIMAL_1"): _F(1), ("result.metrics.core", "DECIMAL_1"): _F(1),
                   ("uniswap.helper", "Q96"): _F(2) ** 96, ("gmx._typing", "PRICE_PRECISION"): _F(10) ** 30}


def _dec_name(d: ast.expr) -> str:
    if isinstance(d, ast.Call):
        d = d.func
    if isinstance(d, ast.Name):
        return d.id
    if isinstance(d, ast.Attribute):
        return _dec_name(d.value) + "." + d.attr
    return "?"


def _reads_state(model: Model, f: FuncInfo) -> Optional[str]:
    """Text of the first read of instance / class / module state in f (None if f is a function of its arguments)."""
    me = f.params[0] if (f.cls is not None and not f.is_static and f.params) else None
    m = f.module
    local = set(f.params) | set(f.kwonly) | {t.id for s in ast.walk(f.node) for t in ast.walk(s) if isinstance(t, ast.Name) and isinstance(t.ctx, ast.Store)}
    for n in ast.walk(f.node):
        if me and isinstance(n, ast.Attribute) and isinstance(n.value, ast.Name) and n.value.id == me:
            return ast.unparse(n)
        if me and isinstance(n, ast.Name) and n.id == me and not isinstance(getattr(n, "_parent", None), ast.Attribute) and isinstance(n.ctx, ast.Load):
            return ast.unparse(getattr(n, "_parent", n))[:60]
        if isinstance(n, ast.Name) and isinstance(n.ctx, ast.Load) and n.id not in local and n.id in m.consts and _is_mutable_value(m.consts[n.id]):
            return n.id
    return None


def _returns_mutable(f: FuncInfo) -> Optional[str]:
    mut_locals = {t.id for s in ast.walk(f.node) if isinstance(s, ast.Assign) and _is_mutable_value(s.value) for t in s.targets if isinstance(t, ast.Name)}
    for s in ast.walk(f.node):
        if isinstance(s, ast.Return) and s.value is not None:
            if _is_mutable_value(s.value) or (isinstance(s.value, ast.Name) and s.value.id in mut_locals):
                return ast.unparse(s.value)[:60]
    return None


OBSERVER_CALLS = ("debug", "info", "warning", "warn", "error", "exception", "log", "perf_counter", "time", "monotonic", "now", "getLogger",
                  "print", "process_time", "format")


def _transparent_decorator(dec: FuncInfo) -> bool:
    """def dec(func): [@wraps(func)] def w(*a, **k): <observers>; return func(*a, **k); return w

    The wrapper is transparent when, on every path, it calls the wrapped function exactly once with the arguments it was
    given and returns that result (an exception passes through), and everything else it does only OBSERVES: calls of
    logging / clock functions, assignments to its own locals, `try ... finally` around the call.  No stores into
    attributes / subscripts / globals / closure cells, no other return value, no swallowed exception."""
    if not dec.params:
        return False
    fn = dec.params[0]
    inners = [s for s in dec.node.body if isinstance(s, (ast.FunctionDef, ast.AsyncFunctionDef))]
    rets = [s for s in dec.node.body if isinstance(s, ast.Return)]
    others = [s for s in dec.node.body if s not in inners and s not in rets and not (isinstance(s, ast.Expr) and isinstance(s.value, ast.Constant))]
    if others or len(rets) != 1:
        return False
    if isinstance(rets[0].value, ast.Name) and rets[0].value.id == fn and not inners:
        return True                                 # registration-free identity decorator
    if len(inners) != 1 or not (isinstance(rets[0].value, ast.Name) and rets[0].value.id == inners[0].name):
        return False
    w = inners[0]
    a = w.args
    if a.kwonlyargs or a.defaults:
        return False
    names = [x.arg for x in a.posonlyargs + a.args]
    want_pos = names + ([a.vararg.arg] if a.vararg else [])
    want_kw = [a.kwarg.arg] if a.kwarg else []

    def is_passthrough(call) -> bool:
        if not (isinstance(call, ast.Call) and isinstance(call.func, ast.Name) and call.func.id == fn):
            return False
        passed = []
        for x in call.args:
            if isinstance(x, ast.Name):
                passed.append(x.id)
            elif isinstance(x, ast.Starred) and isinstance(x.value, ast.Name):
                passed.append(x.value.id)
            else:
                return False
        kw = [k.value.id for k in call.keywords if k.arg is None and isinstance(k.value, ast.Name)]
        return passed == want_pos and kw == want_kw and all(k.arg is None for k in call.keywords)

    calls = [n for n in ast.walk(w) if isinstance(n, ast.Call) and isinstance(n.func, ast.Name) and n.func.id == fn]
    if len(calls) != 1 or not is_passthrough(calls[0]):
        return False
    locals_ = set()
    result_names = set()

    def observer_expr(e) -> bool:
        """An expression that only reads: no call of anything but observers / attribute reads / formatting."""
        for n in ast.walk(e):
            if isinstance(n, ast.Call):
                if n is calls[0]:
                    return False
                nm = n.func.attr if isinstance(n.func, ast.Attribute) else (n.func.id if isinstance(n.func, ast.Name) else "")
                if nm not in OBSERVER_CALLS:
                    return False
            if isinstance(n, (ast.Yield, ast.YieldFrom, ast.Await, ast.NamedExpr, ast.Lambda)):
                return False
        return True

    def ok_block(stmts, in_loop=False) -> bool:
        for st in stmts:
            if isinstance(st, ast.Expr):
                if isinstance(st.value, ast.Constant) or observer_expr(st.value):
                    continue
                return False
            if isinstance(st, ast.Assign):
                if not all(isinstance(t, ast.Name) for t in st.targets):
                    return False
                if st.value is calls[0]:
                    result_names.update(t.id for t in st.targets)
                elif not observer_expr(st.value):
                    return False
                locals_.update(t.id for t in st.targets)
                continue
            if isinstance(st, ast.Return):
                if st.value is calls[0] or (isinstance(st.value, ast.Name) and st.value.id in result_names):
                    continue
                return False
            if isinstance(st, ast.Try):
                if st.handlers or st.orelse:
                    return False            # a handler could swallow or replace the exception
                if not ok_block(st.body) or not ok_block(st.finalbody):
                    return False
                if any(isinstance(n, ast.Return) for x in st.finalbody for n in ast.walk(x)):
                    return False
                continue
            if isinstance(st, ast.If):
                if not observer_expr(st.test) or not ok_block(st.body) or not ok_block(st.orelse):
                    return False
                # the call must happen on every path: it may not sit under a condition
                if any(n is calls[0] for x in st.body + st.orelse for n in ast.walk(x)):
                    return False
                continue
            return False
        return True

    if not ok_block(w.body):
        return False
    # the last statement on the normal path returns the result
    def returns_result(stmts) -> bool:
        if not stmts:
            return False
        last = stmts[-1]
        if isinstance(last, ast.Return):
            return True
        if isinstance(last, ast.Try):
            return returns_result(last.body)
        return False
    return returns_result(w.body) and not any(isinstance(n, (ast.Global, ast.Nonlocal)) for n in ast.walk(w))


def _may_skip_call(dec: FuncInfo) -> Optional[str]:
    """A repository decorator whose wrapper has a path that returns something other than the result of calling the wrapped
    function (a stored value, a default): description of that path, or None."""
    if not dec.params:
        return None
    fn = dec.params[0]
    inners = [s for s in dec.node.body if isinstance(s, (ast.FunctionDef, ast.AsyncFunctionDef))]
    if len(inners) != 1:
        return None
    w = inners[0]
    calls = [n for n in ast.walk(w) if isinstance(n, ast.Call) and isinstance(n.func, ast.Name) and n.func.id == fn]
    if not calls:
        return "never calls the wrapped function"
    result_names = {t.id for s in ast.walk(w) if isinstance(s, ast.Assign) and any(s.value is c for c in calls) for t in s.targets if isinstance(t, ast.Name)}
    for r in ast.walk(w):
        if isinstance(r, ast.Return) and r.value is not None and not any(r.value is c for c in calls) \
                and not (isinstance(r.value, ast.Name) and r.value.id in result_names):
            return f"has a path that returns `{ast.unparse(r.value)[:50]}` instead of the function's result (line {r.lineno})"
    return None


def world_rule(model: Model, res, scope: Tuple[str, ...] = (), rule: str = "R-WORLD"):
    prefixes = tuple(scope) + COMMON if scope else ()

    def in_scope(path: str) -> bool:
        return not prefixes or path.startswith(prefixes)

    refuse = []
    findings = []
    n = 0
    for w in model.world:
        if not in_scope(w["target_path"]) and not in_scope(w["where"]):
            continue
        (refuse if w["severity"] == "refuse" else findings).append((w["kind"], w["where"], w["symbol"], w["symbol"], w["msg"]))
    for m in sorted(model.modules.values(), key=lambda x: x.relpath):
        if not in_scope(m.relpath):
            continue
        funcs = list(m.funcs.values())
        for c in m.classes.values():
            own = [f for f in list(c.methods.values()) + list(c.setters.values()) if f.cls is c and f.module is m]
            funcs += own
            # ---- W4 protocol methods and class machinery outside the modelled language
            n += 1
            for kw in c.node.keywords:
                if kw.arg == "metaclass" and ast.unparse(kw.value).split(".")[-1] not in ("ABCMeta", "EnumMeta"):
                    refuse.append(("W4", f"{m.relpath}:{c.node.lineno}", c.name, "metaclass",
                                   f"class {c.name} has metaclass {ast.unparse(kw.value)}: attribute access and construction are outside the modelled language"))
            for d in c.node.decorator_list:
                dn = _dec_name(d)
                if dn.split(".")[-1] not in ("dataclass", "unique", "total_ordering_DISABLED") and dn not in MODELLED_DECORATORS:
                    refuse.append(("W3", f"{m.relpath}:{c.node.lineno}", c.name, f"class decorator {dn}",
                                   f"class {c.name} is decorated with `{dn}`, which the analysis does not model"))
                if isinstance(d, ast.Call) and dn.split(".")[-1] == "dataclass":
                    for k in d.keywords:
                        if k.arg in ("eq", "order", "unsafe_hash") and not (k.arg == "eq" and isinstance(k.value, ast.Constant) and k.value.value is True):
                            refuse.append(("W4", f"{m.relpath}:{c.node.lineno}", c.name, f"dataclass({k.arg}=...)",
                                           f"@dataclass({k.arg}={ast.unparse(k.value)}) on {c.name} changes equality / ordering / hashing of its instances; "
                                           f"the evaluator assumes field-wise equality"))
            for f in own:
                nm = f.name
                if nm in ("__init_subclass__", "__set_name__", "__new__") and (c.name, nm) not in MODELLED_DUNDERS:
                    # a class-creation hook that assigns attributes of the (sub)class replaces methods behind every definition
                    me = f.params[0] if f.params else "cls"
                    hits = [x for x in ast.walk(f.node) if (isinstance(x, ast.Assign) and any(isinstance(t, ast.Attribute) and isinstance(t.value, ast.Name)
                                                                                            and t.value.id in (me, "owner") for t in x.targets))
                            or (isinstance(x, ast.Call) and isinstance(x.func, ast.Name) and x.func.id == "setattr" and x.args
                                and isinstance(x.args[0], ast.Name) and x.args[0].id in (me, "owner"))]
                    if hits:
                        findings.append(("W4", f.loc(hits[0]), f.qualname, f"{nm} rewrites attributes of the class",
                                         f"{c.name}.{nm} assigns attributes of every (sub)class at class-creation time (`{ast.unparse(hits[0])[:70]}`): "
                                         f"the methods of the subclasses of {c.name} are no longer the functions their `def` statements define"))
                        continue
                if not (nm.startswith("__") and nm.endswith("__")) or nm in NEUTRAL_DUNDERS:
                    continue
                if (c.name, nm) in MODELLED_DUNDERS or (c.name in CONTAINER_CLASSES and nm in CONTAINER_DUNDERS):
                    continue
                if nm == "__deepcopy__" and not any(
                        isinstance(x, ast.Call) and ((isinstance(x.func, ast.Attribute) and x.func.attr == "deepcopy")
                                                     or (isinstance(x.func, ast.Name) and x.func.id == "deepcopy"))
                        for x in ast.walk(f.node)):
                    # the per-strategy / per-run isolation (BacktestManager, Actuator.reset, snapshots) rests on copy.deepcopy giving
                    # independent state; a __deepcopy__ that never deep-copies anything hands the same mutable state to every copy
                    findings.append(("W4", f.loc(), f.qualname, "__deepcopy__ without any deep copy",
                                     f"{c.name}.__deepcopy__ never calls deepcopy on anything: every `copy.deepcopy` of a {c.name} (the copies "
                                     f"BacktestManager gives each strategy, snapshots) shares the original's mutable state"))
                    continue
                refuse.append(("W4", f.loc(), f.qualname, nm,
                               f"{c.name} defines `{nm}`: expressions over its instances (operators, comparisons, truth value, attribute access, "
                               f"copying, pickling) no longer mean what the evaluator assumes, so nothing that touches {c.name} can be decided"))
        # ---- W5 a record class stores what it is given: __post_init__ may check, not transform (the ledgers compare records
        #         by the arguments of their construction; a field rewritten behind the constructor is read by every user)
        for c in m.classes.values():
            post = c.methods.get("__post_init__")
            if post is None or not c.is_dataclass or post.cls is not c:
                continue
            from ..vn import Evaluator, Ctx, Obj, Unreadable, sym, _same_value
            names = []
            for k in reversed(model.mro(c)):
                names += [x for x in k.field_ann if x not in names]
            try:
                ev = Evaluator(model)
                got = ev.construct(c, [], {x: sym(x) for x in names}, Ctx(post, 0, c))
            except Unreadable as e:
                refuse.append(("W5", post.loc(), post.qualname, "__post_init__", f"{c.name}.__post_init__ is outside the evaluator's language ({e})"))
                continue
            except Exception as e:  # noqa
                refuse.append(("W5", post.loc(), post.qualname, "__post_init__", f"{c.name}.__post_init__ could not be evaluated ({type(e).__name__})"))
                continue
            changed = [x for x in names if isinstance(got, Obj) and x in got.fields and not _same_value(got.fields[x], sym(x))]
            n += 1
            for x in changed:
                findings.append(("W5", post.loc(), post.qualname, f"field {x} rewritten on construction",
                                 f"{c.name}.__post_init__ replaces the field `{x}` given to the constructor by `{got.fields[x]!r}`"[:300] +
                                 f": every reader of {c.name}.{x} (comparisons, keys, settlement / valuation formulas) sees the rewritten "
                                 f"value, not the one the operation stored"))
        # ---- W3 decorators
        for f in funcs:
            n += 1
            for d in f.node.decorator_list:
                dn = _dec_name(d)
                if dn in MODELLED_DECORATORS or dn.endswith(".setter") or dn.endswith(".getter") or dn.endswith(".deleter"):
                    continue
                if dn in MEMO_DECORATORS or dn.split(".")[-1] in {x.split(".")[-1] for x in MEMO_DECORATORS}:
                    rd = _reads_state(model, f)
                    if rd is not None:
                        findings.append(("W3", f.loc(), f.qualname, f"@{dn}",
                                         f"{f.qualname} is memoised by `@{dn}` but reads state (`{rd}`): after the first call it keeps returning the value "
                                         f"computed from the state as it was then, whatever happens to the state afterwards "
                                         f"(the memo is keyed by the identity of the arguments, never invalidated)"))
                        continue
                    rm = _returns_mutable(f)
                    if rm is not None:
                        findings.append(("W3", f.loc(), f.qualname, f"@{dn} returns mutable",
                                         f"{f.qualname} is memoised by `@{dn}` and returns a mutable object (`{rm}`): every caller gets the SAME object, "
                                         f"a change made by one is seen by all"))
                    continue
                tgt = model.resolve_expr_symbol(m, d.func if isinstance(d, ast.Call) else d)
                if isinstance(tgt, FuncInfo) and not isinstance(d, ast.Call) and _transparent_decorator(tgt):
                    continue
                if isinstance(tgt, FuncInfo) and not isinstance(d, ast.Call):
                    skip = _may_skip_call(tgt)
                    if skip is not None:
                        findings.append(("W3", f.loc(), f.qualname, f"@{dn} can return without running the function",
                                         f"{f.qualname} is wrapped by `@{dn}` whose wrapper {skip}: the result of a call is then not what "
                                         f"the body of {f.name} computes from the current arguments and state (a memo / short-circuit kept "
                                         f"outside the function)"))
                        continue
                refuse.append(("W3", f.loc(), f.qualname, f"@{dn}",
                               f"{f.qualname} is wrapped by `@{dn}`, which is neither a modelled decorator nor a transparent wrapper: what a call of "
                               f"{f.name} does is no longer what its body says"))
    # ---- W8 the sinks the ledgers end in are the base class's: every ledger treats `self._record_action(...)` (the action
    #         log) as an opaque sink defined once in `Market`; a subclass that overrides it changes what "recorded" means for
    #         all of its operations without changing any operation
    base = model.classes.get("Market")
    if base is not None:
        for sink in LEDGER_SINKS:
            bf = base.methods.get(sink)
            if bf is None:
                continue
            want = ast.dump(ast.Module(body=bf.node.body, type_ignores=[]))
            for c in model.subclasses("Market"):
                f = c.methods.get(sink)
                if f is None or f.cls is not c or not in_scope(c.module.relpath):
                    continue
                n += 1
                body = [st for st in f.node.body if not (isinstance(st, ast.Expr) and isinstance(st.value, ast.Constant))]
                # an override that only delegates (`super()._record_action(action)`) is the base's sink
                if len(body) == 1 and isinstance(body[0], (ast.Expr, ast.Return)) and isinstance(body[0].value, ast.Call) \
                        and ast.unparse(body[0].value.func) in (f"super().{sink}", f"Market.{sink}") \
                        and [ast.unparse(x) for x in body[0].value.args][-len(f.params[1:]) or None:] == f.params[1:]:
                    continue
                if ast.dump(ast.Module(body=body, type_ignores=[])) != want:
                    findings.append(("W8", f.loc(), f.qualname, f"override of the ledger sink {sink}",
                                     f"{c.name} overrides `{sink}`, the sink in which every operation's ledger ends (defined once in Market): "
                                     f"what the operations of {c.name} record / deliver is no longer what their ledgers say"))
    # ---- W7 the exception hierarchy decides which `except` clause catches a rejection (the bar-end liquidation survives
    #         AssertionError only, the run loop handles RuntimeError): the repository's exception classes keep their bases
    for cname, want in EXCEPTION_BASES.items():
        c = model.classes.get(cname)
        if c is None or not in_scope(c.module.relpath):
            continue
        n += 1
        got = tuple(ast.unparse(b).split(".")[-1] for b in c.base_exprs)
        if got != want:
            findings.append(("W7", f"{c.module.relpath}:{c.node.lineno}", cname, f"bases of {cname}",
                             f"class {cname}{got} no longer derives from {want}: `except` clauses of the library (and the analysis' own exception "
                             f"matching) decide by this hierarchy which rejections are survived, rolled back or let through"))
    # ---- W6 a constant whose NAME states its value means that value (code and references both read it by name, so a changed
    #         value would be invisible to every identity check)
    from fractions import Fraction

    def fold(e):
        if isinstance(e, ast.Constant) and isinstance(e.value, (int, float)) and not isinstance(e.value, bool):
            return Fraction(str(e.value))
        if isinstance(e, ast.Constant) and isinstance(e.value, str):
            return Fraction(e.value)
        if isinstance(e, ast.Call) and ast.unparse(e.func).split(".")[-1] in ("Decimal", "int", "float") and len(e.args) == 1:
            return fold(e.args[0])
        if isinstance(e, ast.BinOp) and isinstance(e.op, ast.Pow):
            return fold(e.left) ** int(fold(e.right))
        if isinstance(e, ast.BinOp) and isinstance(e.op, (ast.Mult, ast.Add, ast.Sub)):
            l, r = fold(e.left), fold(e.right)
            return {ast.Mult: l * r, ast.Add: l + r, ast.Sub: l - r}[type(e.op)]
        if isinstance(e, ast.UnaryOp) and isinstance(e.op, ast.USub):
            return -fold(e.operand)
        raise ValueError(ast.unparse(e))

    def seconds(e):
        """pd.Timedelta("1h") / Timedelta(hours=1) / "1min" -> seconds"""
        import re as _re
        unit = {"d": 86400, "day": 86400, "days": 86400, "h": 3600, "hour": 3600, "hours": 3600, "min": 60, "t": 60, "minute": 60, "minutes": 60,
                "s": 1, "sec": 1, "second": 1, "seconds": 1}
        if isinstance(e, ast.Call) and ast.unparse(e.func).split(".")[-1] in ("Timedelta", "timedelta"):
            if len(e.args) == 1 and not e.keywords:
                return seconds(e.args[0])
            tot = 0
            for k in e.keywords:
                if k.arg not in unit or not isinstance(k.value, ast.Constant):
                    raise ValueError(ast.unparse(e))
                tot += unit[k.arg] * k.value.value
            if e.args:
                raise ValueError(ast.unparse(e))
            return tot
        if isinstance(e, ast.Constant) and isinstance(e.value, str):
            mm = _re.fullmatch(r"\s*(\d+)\s*([A-Za-z]+)\s*", e.value)
            if mm and mm.group(2).lower() in unit:
                return int(mm.group(1)) * unit[mm.group(2).lower()]
        if isinstance(e, ast.Name):
            tgt = model.resolve_name(cur_mod[0], e.id)
            if isinstance(tgt, tuple) and tgt and tgt[0] == "const":
                return seconds(tgt[2])
        raise ValueError(ast.unparse(e))

    cur_mod = [None]
    for (modname, cname), want in TIME_CONSTANTS.items():
        m = model.modules.get(model.pkg + "." + modname)
        if m is None or cname not in m.consts or not in_scope(m.relpath):
            continue
        n += 1
        cur_mod[0] = m
        try:
            got = seconds(m.consts[cname])
        except (ValueError, TypeError):
            refuse.append(("W6", f"{m.relpath}:{getattr(m.consts[cname], 'lineno', 0)}", f"{modname}.{cname}", cname,
                           f"the time constant {cname} = {ast.unparse(m.consts[cname])[:60]} cannot be folded"))
            continue
        if got != want:
            findings.append(("W6", f"{m.relpath}:{getattr(m.consts[cname], 'lineno', 0)}", f"{modname}.{cname}", f"{cname} is not {want} s",
                             f"the grid constant `{cname} = {ast.unparse(m.consts[cname])[:50]}` is {got} s, not {want} s: the code and the references "
                             f"both read it by name (resampling, open / closed bars, settlement grid), so every identity check stays silent"))
    for (modname, cname), want in NAMED_CONSTANTS.items():
        m = model.modules.get(model.pkg + "." + modname)
        if m is None or cname not in m.consts:
            continue
        if not in_scope(m.relpath):
            continue
        n += 1
        try:
            got = fold(m.consts[cname])
        except (ValueError, ZeroDivisionError, ArithmeticError):
            refuse.append(("W6", f"{m.relpath}:{getattr(m.consts[cname], 'lineno', 0)}", f"{modname}.{cname}", cname,
                           f"the constant {cname} = {ast.unparse(m.consts[cname])[:60]} cannot be folded"))
            continue
        if got != want:
            findings.append(("W6", f"{m.relpath}:{getattr(m.consts[cname], 'lineno', 0)}", f"{modname}.{cname}", f"{cname} is not {want}",
                             f"the shared constant `{cname} = {ast.unparse(m.consts[cname])[:50]}` no longer has the value its name states ({want}): every "
                             f"formula that uses it by name - in the library and in the references alike - silently computes with {got}"))
    for kind, where, func, construct, msg in findings:
        res.ob(rule, f"{kind}: {func} {construct}", where, ok=False)
        res.find(rule, func, construct, where, msg)
    foll = [x for x in model.followed if in_scope(x.split(":", 1)[0])]
    for x in foll:
        res.notes.append("R-WORLD followed: " + x)
    res.ob(rule, f"definitions are what runs in {list(scope) or 'the repository'} (+ shared plumbing): no def rebound / class patched beyond what the model "
                 f"follows ({len(foll)} followed), decorators modelled or transparent, memoised functions are functions of their arguments, "
                 f"operator methods within the modelled set ({n} definitions examined)", "demeter/", ok=not findings and not refuse)
    res.units["world_definitions_examined"] = n
    # ---- W9 the decorator that coerces the arguments of every public operation (shape rule in props/base_refs.py)
    if (model.pkg + ".utils.application") in model.modules and "float_param_formatter" in model.modules[model.pkg + ".utils.application"].funcs \
            and not any(o.instance.startswith("float_param_formatter: one call") for o in res.obligations):
        from ..props.base_refs import param_formatter
        param_formatter(res, model)
    for k, where, func, construct, msg in refuse:
        res.refusals.append(f"R-WORLD {k} at {where}: {msg}")
    return n, len(findings)
