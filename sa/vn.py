"""Value-numbering evaluator: pure function (AST) -> piecewise canonical expression.

Purely syntactic (no execution of repository code, no solver): walks the function's statements, keeps an
environment of canonical values, forks at conditionals, inlines resolved pure callees, and returns a list of
paths (guards, result).  Two functions are compared through their canonical path sets (`same_function`).

Anything outside the supported language raises `Unreadable` -> the caller reports ANALYSIS-ERROR (exit 2),
never a violation.
"""
from __future__ import annotations

import ast
from decimal import Decimal
from fractions import Fraction
from typing import Dict, List, Optional, Tuple

from .model import ClassInfo, FuncInfo, Model, Module
from .norm import Poly, Rat, srepr

MAX_PATHS = 4000
MAX_DEPTH = 7


from . import cover as _cover


class Unreadable(Exception):
    pass


class BudgetExceeded(Unreadable):
    """The path budget ran out inside `func` (a function with very many paths, e.g. TickMath's 20 mask tests).  The
    comparison rules retry with that function summarised as an opaque pure call on both sides."""

    def __init__(self, msg, func):
        super().__init__(msg)
        self.func = func


class ElemRaises(Exception):
    """Under the current assumptions some element of a comprehension rejects: the enclosing statement raises."""

    def __init__(self, exc):
        super().__init__(exc)
        self.exc = exc


class PathRaises(Exception):
    """A value that is needed by an operator (operand, receiver, argument) is a rejection on this alternative: the
    enclosing STATEMENT raises under the alternative's conditions (a validating helper used inside an expression)."""

    def __init__(self, conds, exc):
        super().__init__(exc)
        self.conds = conds
        self.exc = exc


class NeedSplit(Exception):
    """A loop body is piecewise in a loop-invariant condition: the whole loop is re-run under each assumption."""

    def __init__(self, cond):
        self.cond = cond


class Tup:
    __slots__ = ("items", "lit")

    def __init__(self, items, lit=None):
        self.items = tuple(items)
        self.lit = lit          # "list" for a list display (only used to decide isinstance(<display>, list))

    def __eq__(self, o):
        return isinstance(o, Tup) and self.items == o.items

    def __hash__(self):
        return hash(("tup", self.items))

    def __repr__(self):
        return "(" + ", ".join(map(repr, self.items)) + ")"


class SortedTup(Tup):
    """A list literal after .sort() / sorted(): element k is the k-th smallest of the items."""
    __slots__ = ()

    def __eq__(self, o):
        return isinstance(o, SortedTup) and frozenset(self.items) == frozenset(o.items) and len(self.items) == len(o.items)

    def __hash__(self):
        return hash(("sorted", frozenset(self.items)))


class Raise:
    __slots__ = ("exc",)

    def __init__(self, exc):
        self.exc = exc

    def __eq__(self, o):
        return isinstance(o, Raise)

    def __hash__(self):
        return hash("raise")

    def __repr__(self):
        return f"RAISE({self.exc})"


class Cond:
    """Atomic condition `diff op 0`, op in {'<','<=','==','!='} or an opaque boolean term ('true', term)."""
    __slots__ = ("op", "x")

    def __init__(self, op: str, x):
        self.op = op
        self.x = x

    def negate(self) -> "Cond":
        if self.op == "<":      # x < 0  -> -x <= 0
            return Cond("<=", -self.x)
        if self.op == "<=":     # x <= 0 -> -x < 0
            return Cond("<", -self.x)
        if self.op == "==":
            return Cond("!=", self.x)
        if self.op == "!=":
            return Cond("==", self.x)
        if self.op == "true":
            return Cond("false", self.x)
        if self.op == "false":
            return Cond("true", self.x)
        raise Unreadable("negate")

    def key(self):
        if self.op in ("==", "!="):
            x = self.x
            if isinstance(x, Rat):
                # sign-normalise
                k1, k2 = x.key(), (-x).key()
                return (self.op, min(k1, k2, key=repr))
        if isinstance(self.x, Rat):
            return (self.op, self.x.key())
        return (self.op, srepr(self.x))

    def __eq__(self, o):
        return isinstance(o, Cond) and self.key() == o.key()

    def __hash__(self):
        return hash(self.key())

    def __repr__(self):
        if self.op in ("==", "!=") and isinstance(self.x, Rat):
            a, b = repr(self.x), repr(-self.x)        # x == 0 and -x == 0 are the same condition: one text
            return f"[{min(a, b)} {self.op} 0]"
        return f"[{self.x!r} {self.op} 0]" if self.op in ("<", "<=", "==", "!=") else f"[{self.op} {srepr(self.x)}]"


def cmp_cond(op, a: Rat, b: Rat) -> Cond:
    if isinstance(op, ast.Lt):
        return Cond("<", a - b)
    if isinstance(op, ast.LtE):
        return Cond("<=", a - b)
    if isinstance(op, ast.Gt):
        return Cond("<", b - a)
    if isinstance(op, ast.GtE):
        return Cond("<=", b - a)
    if isinstance(op, ast.Eq):
        return Cond("==", a - b)
    if isinstance(op, ast.NotEq):
        return Cond("!=", a - b)
    raise Unreadable("comparison operator")


def const_truth(c: Cond) -> Optional[bool]:
    if c.op in ("<", "<=", "==", "!=") and isinstance(c.x, Rat) and c.x.is_const():
        v = c.x.const_value()
        return {"<": v < 0, "<=": v <= 0, "==": v == 0, "!=": v != 0}[c.op]
    return None


def sym(name: str) -> Rat:
    return Rat.atom(("sym", name))


def as_term(v):
    """A canonical term for use inside a structured atom."""
    if isinstance(v, Rat):
        a = v.single_atom()
        return a if a is not None else ("expr", v)
    if isinstance(v, Tup):
        return ("tuple",) + tuple(as_term(i) for i in v.items)
    if isinstance(v, (str, int, bool, type(None), Fraction)):
        return ("lit", v)
    return ("obj", srepr(v))


BUILTIN_IDENTITY = {"Decimal", "float", "to_decimal", "UnitDecimal", "object_to_decimal", "Fraction"}


class Evaluator:
    def __init__(self, model: Model, opaque_funcs=(), param_atoms: Optional[Dict[str, Rat]] = None,
                 max_paths: int = MAX_PATHS, int_is_floor: bool = False, extern=None):
        self.model = model
        self.opaque = set(opaque_funcs)
        self.max_paths = max_paths
        self.int_is_floor = int_is_floor
        self.inlined: List[str] = []
        self._carried_lists = set()
        self._loop_depth = 0
        self.unknown_calls: Dict[str, int] = {}
        self.extern = extern or {}
        self.assume: frozenset = frozenset()   # conditions assumed true (loop-invariant splits)
        self.attr_alias: Dict[str, str] = {}   # self.<field> -> expression text it is an alias of
        self.effect_calls: set = set()   # short names of calls recorded as effects (effects mode)
        self.effects_mode = False

    # ------------------------------------------------------------------ API
    def function_paths(self, f: FuncInfo, args: Optional[Dict[str, object]] = None, selfv=None, depth: int = 0):
        """List of (frozenset(conds), result) for all paths of f.  Unbound parameters become symbols."""
        env: Dict[str, object] = {}
        for p in f.params + f.kwonly + [x for x in (f.vararg, f.kwarg) if x]:
            if p == "self" and f.is_method:
                env[p] = selfv if selfv is not None else sym("self")
            elif args is not None and p in args:
                env[p] = args[p]
            elif p in f.defaults and args is not None and depth > 0:
                dv = self._default(f, p)
                env[p] = dv if dv is not None else sym(p)
            else:
                env[p] = sym(p)
        ctx = Ctx(f, depth)
        _cover.deep(f)
        outs = []
        for (conds, env2, ret) in self.exec_block(f.node.body, [(frozenset(), env, None)], ctx):
            outs.append((conds, ret if ret is not None else NONE))
        return outs

    def effect_paths(self, f: FuncInfo, effect_calls, selfcls=None, args=None):
        """Paths of a state-changing function: [(conds, env, ret)], env['$fx'] = tuple of effects in order.
        Effects: ('call', name, receiver term, {param/pos: term}) for calls in `effect_calls` made at statement
        level, and ('store', target term, op, value) for stores into attributes / subscripts."""
        self.effect_calls = set(effect_calls)
        self.effects_mode = True
        env: Dict[str, object] = {"$fx": ()}
        for p in f.params + f.kwonly + [x for x in (f.vararg, f.kwarg) if x]:
            if p == "self" and f.is_method:
                env[p] = sym("self")
            elif args and p in args:
                env[p] = args[p]
            else:
                env[p] = sym(p)
        ctx = Ctx(f, 0, selfcls or f.cls)
        _cover.deep(f)
        try:
            out = self.exec_block(f.node.body, [(frozenset(), env, None)], ctx)
            return [(c, e, r if r is not None else NONE) for c, e, r in out]
        finally:
            self.effects_mode = False

    def _has_effects(self, stmts) -> bool:
        for st in stmts:
            for n in ast.walk(st):
                if isinstance(n, ast.Call) and _callname(n).split(".")[-1] in self.effect_calls:
                    return True
                if isinstance(n, (ast.Assign, ast.AugAssign)):
                    tg = n.targets if isinstance(n, ast.Assign) else [n.target]
                    if any(isinstance(t, (ast.Attribute, ast.Subscript)) for t in tg):
                        return True
                if isinstance(n, ast.Delete):
                    return True
        return False

    def _fx(self, env, eff):
        env["$fx"] = env.get("$fx", ()) + (eff,)

    def _effect_call(self, call: ast.Call, env, ctx):
        """If `call` is an effect call return (conds, effect, value-atom) alternatives else None."""
        if not self.effects_mode or not ctx.fx:
            return None
        nm = _callname(call)
        short = nm.split(".")[-1]
        if short not in self.effect_calls:
            return None
        recv = ("none",)
        if isinstance(call.func, ast.Attribute):
            ra = self.ev(call.func.value, env, ctx)
            if len(ra) != 1 or ra[0][0]:
                raise Unreadable("piecewise effect receiver")
            recv = as_term(ra[0][1])
        alts = [(frozenset(), {})]
        for i, a in enumerate(call.args):
            nxt = []
            star = isinstance(a, ast.Starred)
            for c, d in alts:
                for c2, v in self.ev(a.value if star else a, env, ctx):
                    if isinstance(v, Raise):
                        raise PathRaises(c | c2, v.exc)
                    dd = dict(d)
                    dd[i] = Rat.atom(("star", as_term(v))) if star else v
                    nxt.append((c | c2, dd))
            alts = nxt
        for k in call.keywords:
            nxt = []
            for c, d in alts:
                for c2, v in self.ev(k.value, env, ctx):
                    if isinstance(v, Raise):
                        raise PathRaises(c | c2, v.exc)
                    dd = dict(d)
                    dd[k.arg if k.arg is not None else "**"] = v
                    nxt.append((c | c2, dd))
            alts = nxt
        n = len(env.get("$fx", ()))
        # bind positional arguments to parameter names when the callee is a method of the analysed class
        pnames = None
        if recv == ("sym", "self") and (ctx.selfcls or ctx.f.cls) is not None:
            cal = self.model.find_method(ctx.selfcls or ctx.f.cls, short)
            if cal is not None:
                pnames = cal.params[1:]
        out = []
        for c, d in alts:
            if pnames is not None:
                d = {(pnames.index(k) if (not isinstance(k, int)) and k in pnames else k): v for k, v in d.items()}
            out.append((c, ("call", short, recv, tuple(sorted(((str(k), as_term(v)) for k, v in d.items()), key=repr))),
                        Rat.atom(("ret", short, n))))
        return out


    # --------------------------------------------------- statement-level calls into helpers that have effects
    def _stmt_helper_call(self, call: ast.Call, env, ctx):
        """`helper(...)` / `x = self._helper(...)` / `return self._helper(...)` where the resolved helper itself performs
        effects: execute its body with effect recording on, threading the effect list.  Returns None when not applicable,
        else a list of (conds, env_after, value)."""
        if not self.effects_mode or not ctx.fx or ctx.depth >= MAX_DEPTH:
            return None
        fv = None
        try:
            if isinstance(call.func, ast.Name):
                fv = env[call.func.id] if call.func.id in env else self.global_name(call.func.id, ctx)
            elif isinstance(call.func, ast.Attribute):
                ra = self.ev(call.func.value, env, ctx)
                if len(ra) != 1 or ra[0][0]:
                    return None
                fv = self.attr(ra[0][1], call.func.attr, ctx, call)
        except Unreadable:
            return None
        if not isinstance(fv, FuncRef):
            return None
        f = fv.func
        if f.qualname in self.extern or f.qualname in self.opaque or f.name in self.opaque or f.name in self.effect_calls:
            return None
        if not self._has_effects(f.node.body):
            return None
        # arguments
        alts = [(frozenset(), [], {})]
        def _vals(node_, c_):
            for c2, v in self.ev(node_, env, ctx):
                if isinstance(v, Raise):
                    raise PathRaises(c_ | c2, v.exc)
                yield c2, v
        for a in call.args:
            alts = [(c | c2, pos + [v], kw) for c, pos, kw in alts for c2, v in _vals(a, c)]
        for k in call.keywords:
            alts = [(c | c2, pos, dict(kw, **{k.arg: v})) for c, pos, kw in alts for c2, v in _vals(k.value, c)]
        params = f.params[1:] if (f.is_method or f.is_classmethod) else list(f.params)
        out = []
        for c, pos, kw in alts:
            fenv: Dict[str, object] = {"$fx": env.get("$fx", ())}
            same_self = f.is_method and (fv.selfv is None or _same_value(fv.selfv, sym("self"))) \
                and (("self" not in env) or _same_value(env["self"], sym("self")))
            if same_self:
                # state remembered under a `self.<...>` text denotes the same location in a method of the same object
                for k_, v_ in env.items():
                    if _self_only_key(k_):
                        fenv[k_] = v_
            for p_ in f.params + f.kwonly:
                if p_ == "self" and f.is_method:
                    fenv[p_] = fv.selfv if fv.selfv is not None else sym("self")
            for p_, v in zip(params, pos):
                fenv[p_] = v
            fenv.update(kw)
            for p_ in params + f.kwonly:
                if p_ not in fenv:
                    dv = self._default(f, p_) if p_ in f.defaults else None
                    fenv[p_] = dv if dv is not None else sym(p_)
            self.inlined.append(f.qualname)
            _cover.deep(f)
            sub = Ctx(f, ctx.depth + 1, fv.selfcls or ctx.selfcls, fx=True)
            for (c2, e2, r) in self.exec_block(f.node.body, [(c, fenv, None)], sub):
                env_after = dict(env)
                env_after["$fx"] = e2.get("$fx", ())
                # state remembered by source text inside the helper is visible by the same text in the caller only
                # for `self.<...>` locations of the same object
                if same_self:
                    for k_ in [k_ for k_ in env_after if _self_only_key(k_)]:
                        del env_after[k_]
                    for k_, v_ in e2.items():
                        if _self_only_key(k_):
                            env_after[k_] = v_
                out.append((c2, env_after, r if r is not None else NONE))
        return out

    def _default(self, f: FuncInfo, p: str):
        try:
            alts = self.ev(f.defaults[p], {}, Ctx(f, 0))
        except Unreadable:
            return None
        if len(alts) == 1 and not alts[0][0]:
            return alts[0][1]
        return None

    # --------------------------------------------------------------- blocks
    def exec_block(self, stmts, states, ctx):
        """states: list of (conds, env, ret).  Paths with ret != None are finished and passed through."""
        for st in stmts:
            new = []
            for (conds, env, ret) in states:
                if ret is not None:
                    new.append((conds, env, ret))
                    continue
                new.extend(self.exec_stmt(st, conds, env, ctx))
            states = new
            if len(states) > self.max_paths:
                raise BudgetExceeded(f"path budget exceeded in {ctx.f.qualname}", ctx.f.name)
        return states

    def exec_stmt(self, st, conds, env, ctx):
        """One statement; a case distinction that an expression needs but cannot express as a value (an element of a
        comprehension that rejects: the statement raises iff ANY element does) splits the state here."""
        try:
            return self._exec_stmt(st, conds, env, ctx)
        except ElemRaises as er:
            return [(conds, env, Raise(er.exc))]
        except PathRaises as pr:
            todo = sorted((k for k in pr.conds if k not in self.assume and k not in conds), key=repr)
            if not todo:
                return [(conds, env, Raise(pr.exc))]
            out = []
            saved = self.assume
            for cc in (todo[0], todo[0].negate()):
                if _contradict(conds | {cc}):
                    continue
                self.assume = saved | {cc}
                try:
                    out.extend(self.exec_stmt(st, conds | {cc}, env, ctx))
                finally:
                    self.assume = saved
            return out
        except NeedSplit as ns:
            closed = isinstance(ns.cond.x, tuple) and len(ns.cond.x) == 3 and ns.cond.x[0] == "any"
            if isinstance(st, (ast.For, ast.While)) or ("loopvar" in repr(ns.cond.x) and not closed):
                raise
            out = []
            saved = self.assume
            for cc in (ns.cond, ns.cond.negate()):
                if _contradict(conds | {cc}):
                    continue
                self.assume = saved | {cc}
                try:
                    out.extend(self.exec_stmt(st, conds | {cc}, env, ctx))
                finally:
                    self.assume = saved
            return out

    def _exec_stmt(self, st, conds, env, ctx):
        if isinstance(st, ast.Expr):
            if isinstance(st.value, ast.Constant):
                return [(conds, env, None)]
            # in-place sort of a local list: the list becomes its sorted version
            if isinstance(st.value, ast.Call) and isinstance(st.value.func, ast.Attribute) and st.value.func.attr == "sort" \
                    and not st.value.args and not st.value.keywords and isinstance(st.value.func.value, ast.Name) \
                    and isinstance(env.get(st.value.func.value.id), Tup):
                e2 = dict(env)
                e2[st.value.func.value.id] = SortedTup(env[st.value.func.value.id].items)
                return [(conds, e2, None)]
            # append to a local list literal: the list becomes the longer list (functional update; inside an effectful
            # loop this makes the list a loop-carried local, so a later loop over it is tied to what was appended)
            if isinstance(st.value, ast.Call) and isinstance(st.value.func, ast.Attribute) and st.value.func.attr == "append" \
                    and len(st.value.args) == 1 and not st.value.keywords and isinstance(st.value.func.value, ast.Name) \
                    and (type(env.get(st.value.func.value.id)) is Tup or self._is_carried_list(env.get(st.value.func.value.id))):
                lname = st.value.func.value.id
                cur = env[lname]
                if any(v is cur for k, v in env.items() if k != lname):
                    raise Unreadable("append to an aliased list")
                out = []
                for c2, v in self.ev(st.value.args[0], env, ctx):
                    e2 = dict(env)
                    if type(cur) is Tup:
                        e2[lname] = Tup(list(cur.items) + [v])
                    else:
                        nv = Rat.atom(("appended", as_term(cur), as_term(v)))
                        self._carried_lists.add(nv.key())
                        e2[lname] = nv
                    out.append((conds | c2, e2, None))
                return out
            # side-effect-free expression statements (calls to require are handled)
            if isinstance(st.value, ast.Call):
                ec = self._effect_call(st.value, env, ctx)
                if ec is not None:
                    out = []
                    for c2, eff, val in ec:
                        e2 = dict(env)
                        self._fx(e2, eff)
                        out.append((conds | c2, e2, None))
                    return out
                hc = self._stmt_helper_call(st.value, env, ctx)
                if hc is not None:
                    out = []
                    for c2, e2, val in hc:
                        if isinstance(val, Raise):
                            out.append((conds | c2, e2, val))
                        else:
                            out.append((conds | c2, e2, None))
                    return out
                nm = _callname(st.value)
                if nm == "require":
                    out = []
                    for c2, cv in self.cond_alts(st.value.args[0], env, ctx):
                        for ok, cc in cv:
                            if _contradict(conds | c2 | cc):
                                continue
                            out.append((conds | c2 | cc, env, None if ok else Raise("AssertionError")))
                    return out
                if nm in ("print", "logging.warning", "logging.info", "self.logger.info"):
                    return [(conds, env, None)]
                if self.effects_mode and ctx.fx:
                    # other statement-level call: evaluate (pure helpers are inlined), record as an effect
                    out = []
                    for c2, v in self.ev(st.value, env, ctx):
                        if isinstance(v, Raise):
                            out.append((conds | c2, env, v))        # a validating helper rejected: no effect, the path ends
                            continue
                        if v is NONE:
                            out.append((conds | c2, env, None))     # an inlined pure helper that returns nothing did nothing
                            continue
                        e2 = dict(env)
                        self._fx(e2, ("expr", as_term(v)))
                        out.append((conds | c2, e2, None))
                    return out
            if isinstance(st.value, ast.Call):
                # a validating helper called for its rejection only (`_check(x)` as a statement): the paths on which it
                # rejects end here, the others go on (its value is discarded)
                try:
                    vs = self.ev(st.value, env, ctx)
                except Unreadable:
                    vs = None
                if vs is not None and any(isinstance(v, Raise) for _c, v in vs):
                    return [(conds | c2, env, v if isinstance(v, Raise) else None) for c2, v in vs if not _contradict(conds | c2)]
            raise Unreadable(f"expression statement {ast.unparse(st)[:60]} in {ctx.f.qualname}")
        if isinstance(st, (ast.Assign, ast.AnnAssign, ast.Return, ast.Expr)) and self.effects_mode and ctx.fx \
                and isinstance(getattr(st, "value", None), ast.IfExp) and self._has_effects([ast.Expr(value=st.value)]):
            import copy as _copy
            a, b = _copy.copy(st), _copy.copy(st)
            a.value, b.value = st.value.body, st.value.orelse
            lowered = ast.If(test=st.value.test, body=[a], orelse=[b])
            ast.copy_location(lowered, st)
            return self.exec_stmt(lowered, conds, env, ctx)
        if isinstance(st, (ast.Assign, ast.AnnAssign)):
            if isinstance(st, ast.AnnAssign):
                if st.value is None:
                    return [(conds, env, None)]
                targets = [st.target]
            else:
                targets = st.targets
            out = []
            if isinstance(st.value, ast.Call):
                ec = self._effect_call(st.value, env, ctx)
                if ec is not None:
                    for c2, eff, val in ec:
                        e2 = dict(env)
                        self._fx(e2, eff)
                        for t in targets:
                            self.bind(t, val, e2, ctx)
                        out.append((conds | c2, e2, None))
                    return out
                hc = self._stmt_helper_call(st.value, env, ctx)
                if hc is not None:
                    for c2, e2, val in hc:
                        if isinstance(val, Raise):
                            out.append((conds | c2, e2, val))
                            continue
                        for t in targets:
                            self.bind(t, val, e2, ctx)
                        out.append((conds | c2, e2, None))
                    return out
            for c2, v in self.ev(st.value, env, ctx):
                if _contradict(conds | c2):
                    continue
                if isinstance(v, Raise):
                    out.append((conds | c2, env, v))      # `x = checked(v)`: the helper rejected, nothing is bound
                    continue
                e2 = dict(env)
                for t in targets:
                    self.bind(t, v, e2, ctx, "set")
                out.append((conds | c2, e2, None))
            return out
        if isinstance(st, ast.Delete):
            e2 = dict(env)
            for t in st.targets:
                if self.effects_mode and ctx.fx:
                    self._fx(e2, ("store", self._target_term(t, env, ctx), "del", None, None))
            return [(conds, e2, None)]
        if isinstance(st, ast.AugAssign):
            fake = ast.BinOp(left=_load(st.target), op=st.op, right=st.value)
            ast.copy_location(fake, st)
            out = []
            for c2, v in self.ev(fake, env, ctx):
                e2 = dict(env)
                self.bind(st.target, v, e2, ctx, "aug:" + type(st.op).__name__, st)
                out.append((conds | c2, e2, None))
            return out
        if isinstance(st, ast.Return):
            if st.value is None:
                return [(conds, env, NONE)]
            if isinstance(st.value, ast.Call):
                ec = self._effect_call(st.value, env, ctx)
                if ec is not None:
                    out = []
                    for c2, eff, val in ec:
                        e2 = dict(env)
                        self._fx(e2, eff)
                        out.append((conds | c2, e2, val))
                    return out
                hc = self._stmt_helper_call(st.value, env, ctx)
                if hc is not None:
                    return [(conds | c2, e2, val) for c2, e2, val in hc]
            return [(conds | c2, env, v) for c2, v in self.ev(st.value, env, ctx) if not _contradict(conds | c2)]
        if isinstance(st, ast.If):
            clamp = self._clamp_idiom(st, env, ctx)
            if clamp is not None:
                name, v = clamp
                e2 = dict(env)
                e2[name] = v
                return [(conds, e2, None)]
            swap = self._swap_idiom(st, env, ctx)
            if swap is not None:
                e2 = dict(env)
                e2.update(swap)
                return [(conds, e2, None)]
            out = []
            for c2, cv in self.cond_alts(st.test, env, ctx):
                for truth, cc in cv:
                    allc = conds | c2 | cc
                    if _contradict(allc):
                        continue
                    body = st.body if truth else st.orelse
                    out.extend(self.exec_block(body, [(allc, env, None)], ctx))
            return out
        if isinstance(st, ast.Raise):
            exc = "?"
            e = st.exc.func if isinstance(st.exc, ast.Call) else st.exc
            if isinstance(e, ast.Name):
                exc = e.id
            return [(conds, env, Raise(exc))]
        if isinstance(st, ast.Assert):
            out = []
            for c2, cv in self.cond_alts(st.test, env, ctx):
                for ok, cc in cv:
                    if _contradict(conds | c2 | cc):
                        continue
                    out.append((conds | c2 | cc, env, None if ok else Raise("AssertionError")))
            return out
        if isinstance(st, ast.Pass):
            return [(conds, env, None)]
        if isinstance(st, ast.Break) and self.effects_mode:
            return [(conds, env, Lit("<break>"))]
        if isinstance(st, ast.Continue) and self.effects_mode:
            return [(conds, env, Lit("<continue>"))]
        if isinstance(st, ast.For):
            return self.exec_for(st, conds, env, ctx)
        if isinstance(st, ast.While):
            if st.orelse:
                raise Unreadable("while-else")
            return self._generic_loop(("while",), st.body, conds, env, dict(env), [], ctx, test=st.test)
        if isinstance(st, (ast.Import, ast.ImportFrom)):
            return [(conds, env, None)]
        if isinstance(st, (ast.With,)) and self.effects_mode:
            e2 = dict(env)
            for it in st.items:
                alts = self.ev(it.context_expr, e2, ctx)
                if len(alts) != 1 or alts[0][0]:
                    raise Unreadable("piecewise context manager")
                if it.optional_vars is not None:
                    self.bind(it.optional_vars, Rat.atom(("ctx", as_term(alts[0][1]))), e2, ctx)
            return self.exec_block(st.body, [(conds, e2, None)], ctx)
        if isinstance(st, ast.Try) and self.effects_mode:
            # normal flow only: handlers run on exceptions, which are not modelled in effect traces; WHICH exceptions the
            # block survives is part of the ledger (a marker effect naming the swallowed / re-raised exception classes)
            if ctx.fx and st.handlers:
                hs = []
                for h in st.handlers:
                    names = [ast.unparse(e) for e in (h.type.elts if isinstance(h.type, ast.Tuple) else [h.type])] if h.type is not None else ["BaseException"]
                    swallow = not any(isinstance(x, ast.Raise) for b in h.body for x in ast.walk(b))
                    if swallow:      # a handler that re-raises is transparent for the normal flow
                        hs.append(tuple(sorted(names)))
                if hs:
                    env = dict(env)
                    self._fx(env, ("try-survives", tuple(sorted(hs))))
                # compensation handlers (effects, then re-raise): what they do is recorded as an `on-failure` effect,
                # evaluated in the state at the entry of the block (exact when the block's first effectful statement is
                # the one that fails).  The ledger comparisons ignore it; the rollback-exactness rule reads it.
                for h in st.handlers:
                    if self._has_effects(h.body):
                        he = dict(env)
                        he["$fx"] = ()
                        if h.name:
                            he[h.name] = Rat.atom(("exc", h.name))
                        try:
                            houts = self.exec_block(list(h.body), [(frozenset(), he, None)], ctx)
                            rec = tuple(sorted(((tuple(sorted(map(srepr, hc))), henv.get("$fx", ())) for hc, henv, hr in houts), key=srepr))
                        except Unreadable:
                            rec = ("unreadable",)
                        env = dict(env)
                        self._fx(env, ("on-failure", rec))
            out = self.exec_block(st.body, [(conds, env, None)], ctx)
            if st.orelse:
                out = self.exec_block(st.orelse, out, ctx)
            if st.finalbody:
                out = self.exec_block(st.finalbody, out, ctx)
            return out
        if isinstance(st, ast.FunctionDef):
            e2 = dict(env)
            e2[st.name] = FuncRef(FuncInfo(ctx.f.module, None, st), None, None)
            return [(conds, e2, None)]
        raise Unreadable(f"statement {type(st).__name__} in {ctx.f.qualname}:{st.lineno}")

    def _clamp_idiom(self, st: ast.If, env, ctx):
        """`if x > y: x = y` -> x = min(x, y);  `if x < y: x = y` -> x = max(x, y)."""
        if st.orelse or len(st.body) != 1 or not isinstance(st.body[0], ast.Assign):
            return None
        a = st.body[0]
        if len(a.targets) != 1 or not isinstance(a.targets[0], ast.Name):
            return None
        t = st.test
        if not (isinstance(t, ast.Compare) and len(t.ops) == 1 and isinstance(t.left, ast.Name)
                and t.left.id == a.targets[0].id and isinstance(t.ops[0], (ast.Gt, ast.GtE, ast.Lt, ast.LtE))):
            return None
        if ast.dump(t.comparators[0]) != ast.dump(a.value):
            return None
        xs = self.ev(t.left, env, ctx)
        ys = self.ev(a.value, env, ctx)
        if len(xs) != 1 or len(ys) != 1 or xs[0][0] or ys[0][0]:
            return None
        x, y = xs[0][1], ys[0][1]
        if not isinstance(x, Rat) or not isinstance(y, Rat):
            return None
        kind = "min" if isinstance(t.ops[0], (ast.Gt, ast.GtE)) else "max"
        return a.targets[0].id, minmax(kind, [x, y])


    # ---------------------------------------------------------------- canonical iteration
    def iter_binding(self, iter_node, target, env, ctx, body=None, snapshot_ok=False):
        """Canonical loop binding.  `for k, v in d.items()`, `for k in d` / `d.keys()` + `d[k]`, `for v in d.values()`,
        `for i, x in enumerate(s)`, `for i in range(len(s))` all iterate the container `d` / `s`: the key (or index)
        variable is loopvar(iter(d)) and the element is d[key].  Returns (it_term, bindings dict)."""
        n = iter_node
        form = "plain"
        cont = n
        if isinstance(n, ast.Call) and isinstance(n.func, ast.Attribute) and n.func.attr in ("items", "keys", "values") and not n.args:
            form = n.func.attr
            cont = n.func.value
        elif isinstance(n, ast.Call) and isinstance(n.func, ast.Name) and n.func.id == "enumerate" and len(n.args) == 1:
            form = "items"
            cont = n.args[0]
        elif isinstance(n, ast.Call) and isinstance(n.func, ast.Name) and n.func.id == "range" and len(n.args) == 1 \
                and isinstance(n.args[0], ast.Call) and isinstance(n.args[0].func, ast.Name) and n.args[0].func.id == "len" \
                and len(n.args[0].args) == 1:
            form = "keys"
            cont = n.args[0].args[0]
        alts = self.ev(cont, env, ctx)
        if len(alts) != 1 or alts[0][0]:
            raise Unreadable("conditional iterable")
        cv = alts[0][1]
        if snapshot_ok and form == "plain" and isinstance(cv, Rat) and isinstance(cv.single_atom(), tuple) and len(cv.single_atom()) == 2 \
                and cv.single_atom()[0] in ("list", "tuple") and isinstance(cv.single_atom()[1], tuple):
            # a comprehension over list(X) visits the elements of X (nothing can change X while the comprehension runs)
            cv = Rat.atom(cv.single_atom()[1])
        if form == "plain" and isinstance(cv, Rat) and isinstance(cv.single_atom(), tuple) and len(cv.single_atom()) == 2 \
                and cv.single_atom()[0] in ("keys", "items", "values") and not isinstance(cv.single_atom()[1], str):
            # `ks = d.keys(); for k in ks` is `for k in d.keys()`
            inner = cv.single_atom()[1]
            form = cv.single_atom()[0]
            cv = inner[1] if isinstance(inner, tuple) and inner and inner[0] == "objdict" else Rat.atom(inner)
        if isinstance(cv, Seq) or isinstance(cv, Tup):
            # iterating a literal / comprehension: elements are the loop variable itself
            form = "plain" if form == "plain" else form
        cterm = as_term(cv)
        it_term = ("iter", cterm)
        key = Rat.atom(("loopvar", it_term))
        elem = Rat.atom(("idx", cterm, ("loopvar", it_term)))
        binds = {}

        def names_of(t):
            return [x.id for x in ast.walk(t) if isinstance(x, ast.Name)]

        if form == "items":
            if isinstance(target, ast.Tuple) and len(target.elts) == 2 and isinstance(target.elts[0], ast.Name):
                binds[target.elts[0].id] = key
                self._bind_pattern(target.elts[1], elem, binds)
            else:
                raise Unreadable("loop target for items()/enumerate()")
        elif form == "values":
            self._bind_pattern(target, elem, binds)
        elif form == "keys":
            if not isinstance(target, ast.Name):
                raise Unreadable("loop target for keys()")
            binds[target.id] = key
        else:
            # plain `for x in c`: x is the key if c is used as a mapping (c[x]) in the body, else the element; both
            # readings are represented by the same atom so that `c[x]` and the element stay distinct but canonical
            # A sequence iterated directly yields its ELEMENTS: `for x in s` is `for i in range(len(s)): x = s[i]`, so x
            # is s[loopvar] - unless s is a mapping (declared type, or the body subscripts s with x), whose plain
            # iteration yields keys, or a literal / comprehension, whose elements are the loop variable itself.
            as_key = isinstance(cv, (Seq, Tup))
            if not as_key and isinstance(cv, Rat) and cv.single_atom() is not None:
                t = self._atom_type(cv.single_atom(), ctx)
                if isinstance(t, tuple) and t and t[0] == "map":
                    as_key = True
            if not as_key and isinstance(target, ast.Name) and body is not None:
                ctext = ast.unparse(cont)
                for b in body:
                    for x in ast.walk(b):
                        if isinstance(x, ast.Subscript) and isinstance(x.slice, ast.Name) and x.slice.id == target.id \
                                and ast.unparse(x.value) == ctext:
                            as_key = True
            if not as_key and isinstance(cv, Rat) and cv.single_atom() is not None and isinstance(cv.single_atom(), tuple) \
                    and cv.single_atom()[0] in ("sym", "attr", "idx", "afterloop", "m", "call", "prop"):
                self._bind_pattern(target, elem, binds)
            elif isinstance(target, ast.Name):
                binds[target.id] = Rat.atom(("loopvar", it_term))
            else:
                self._bind_pattern(target, Rat.atom(("loopvar", it_term)), binds)
        return it_term, binds

    def _bind_pattern(self, t, v, binds):
        if isinstance(t, ast.Name):
            binds[t.id] = v
        elif isinstance(t, (ast.Tuple, ast.List)):
            term = as_term(v)
            for i, e in enumerate(t.elts):
                self._bind_pattern(e, Rat.atom(("item", term, i)), binds)
        else:
            raise Unreadable("loop target")

    def _swap_idiom(self, st: ast.If, env, ctx):
        """`if a > b: (a, b) = (b, a)` -> a = min(a, b), b = max(a, b) (and the `<` mirror)."""
        if st.orelse or len(st.body) != 1 or not isinstance(st.body[0], ast.Assign):
            return None
        a = st.body[0]
        t = st.test
        if not (isinstance(a.targets[0], ast.Tuple) and isinstance(a.value, ast.Tuple) and len(a.targets[0].elts) == 2
                and len(a.value.elts) == 2 and all(isinstance(e, ast.Name) for e in a.targets[0].elts + a.value.elts)):
            return None
        x, y = a.targets[0].elts[0].id, a.targets[0].elts[1].id
        if [e.id for e in a.value.elts] != [y, x]:
            return None
        if not (isinstance(t, ast.Compare) and len(t.ops) == 1 and isinstance(t.left, ast.Name)
                and isinstance(t.comparators[0], ast.Name) and isinstance(t.ops[0], (ast.Gt, ast.GtE, ast.Lt, ast.LtE))):
            return None
        l, r = t.left.id, t.comparators[0].id
        if {l, r} != {x, y}:
            return None
        vx, vy = env.get(x), env.get(y)
        if not isinstance(vx, Rat) or not isinstance(vy, Rat):
            return None
        # after the statement: is `l` the smaller one?
        gt = isinstance(t.ops[0], (ast.Gt, ast.GtE))
        small, big = (l, r) if gt else (r, l)
        return {small: minmax("min", [vx, vy]), big: minmax("max", [vx, vy])}

    def exec_for(self, st: ast.For, conds, env, ctx):
        # a loop over an empty display runs zero times
        if not st.orelse:
            try:
                ia = self.ev(st.iter, env, ctx)
                if len(ia) == 1 and not ia[0][0] and type(ia[0][1]) is Tup and not ia[0][1].items:
                    return [(conds, env, None)]
                # a loop over a short display of known items is its body once per item, in order
                if len(ia) == 1 and not ia[0][0] and type(ia[0][1]) is Tup and len(ia[0][1].items) <= 3 \
                        and isinstance(st.iter, (ast.List, ast.Tuple, ast.Name)) \
                        and not any(isinstance(n, (ast.Break, ast.Continue)) for b in st.body for n in ast.walk(b)):
                    states = [(conds, dict(env), None)]
                    for item in ia[0][1].items:
                        nxt = []
                        for (c0, e0, r0) in states:
                            if r0 is not None:
                                nxt.append((c0, e0, r0))
                                continue
                            e1 = dict(e0)
                            self.bind(st.target, item, e1, ctx)
                            nxt.extend(self.exec_block(st.body, [(c0, e1, None)], ctx))
                        states = nxt
                    return states
            except Unreadable:
                pass
        try:
            try:
                return self._exec_for(st, conds, env, ctx)
            except BudgetExceeded:
                raise
            except Unreadable as e:
                # a body the accumulation idioms do not cover (e.g. a statement-level method call on state): in effect
                # mode the generic loop records what each iteration does
                if "loop body statement" in str(e) and (not self.effects_mode or ctx.fx):
                    it_term, binds = self.iter_binding(st.iter, st.target, env, ctx, body=st.body)
                    lv_env = dict(env)
                    lv_env.update(binds)
                    return self._generic_loop(it_term, st.body, conds, env, lv_env, list(binds), ctx)
                raise
        except NeedSplit as ns:
            c = ns.cond
            from .norm import all_atoms_deep
            if any(isinstance(a, tuple) and a and a[0] == "loopvar" for a in all_atoms_deep(c.x if isinstance(c.x, Rat) else ("t", c.x))) \
                    or "loopvar" in repr(c.x):
                # the body distinguishes cases per element: the generic loop represents it row by row
                it_term, binds = self.iter_binding(st.iter, st.target, env, ctx, body=st.body)
                lv_env = dict(env)
                lv_env.update(binds)
                return self._generic_loop(it_term, st.body, conds, env, lv_env, list(binds), ctx)
            out = []
            saved = self.assume
            for cc in (c, c.negate()):
                if _contradict(conds | {cc}):
                    continue
                self.assume = saved | {cc}
                try:
                    out.extend(self.exec_for(st, conds | {cc}, env, ctx))
                finally:
                    self.assume = saved
            return out

    def _exec_for(self, st: ast.For, conds, env, ctx):
        """Accumulation loops: `for x in it: acc += f(x)` (one or more accumulators, optional filter `if`)."""
        it_term, binds = self.iter_binding(st.iter, st.target, env, ctx, body=st.body)
        lv_env = dict(env)
        lv_env.update(binds)
        names = list(binds)

        def bindvars(t, idx=()):
            return None

        bindvars(st.target)
        if st.orelse:
            raise Unreadable("for-else")
        # existential idiom: `for x in it: if c(x): return <literal>`  ==  if any(c(x) for x in it): return <literal>
        if len(st.body) == 1 and isinstance(st.body[0], ast.If) and not st.body[0].orelse and len(st.body[0].body) == 1 \
                and isinstance(st.body[0].body[0], ast.Return) and isinstance(st.body[0].body[0].value, ast.Constant):
            fc = self.cond_alts(st.body[0].test, lv_env, ctx)
            if len(fc) != 1 or fc[0][0]:
                raise Unreadable("existential loop condition")
            tr = [cc for truth, cc in fc[0][1] if truth]
            if len(tr) != 1:
                raise Unreadable("existential loop condition (disjunctive)")
            c = Cond("true", ("any", it_term, frozenset(tr[0])))
            rv = st.body[0].body[0].value.value
            out = []
            for truth, cc in self._split(c):
                if truth:
                    out.append((conds | cc, env, NONE if rv is None else Lit(rv)))
                else:
                    out.append((conds | cc, env, None))
            return out
        # mapping-build idiom: `d = {}; for x in it: [if c(x):] d[k(x)] = v(x)`  ==  {k(x): v(x) for x in it if c(x)}
        b0, dfilt = (st.body[0] if len(st.body) == 1 else None), []
        if isinstance(b0, ast.If) and not b0.orelse and len(b0.body) == 1:
            dfilt, b0 = [b0.test], b0.body[0]
        if isinstance(b0, ast.Assign) and len(b0.targets) == 1 and isinstance(b0.targets[0], ast.Subscript) \
                and isinstance(b0.targets[0].value, ast.Name) and b0.targets[0].value.id not in names:
            dn = b0.targets[0].value.id
            cur = env.get(dn)
            reads_self = any(isinstance(n, ast.Name) and n.id == dn for x in [b0.value, b0.targets[0].slice] + dfilt for n in ast.walk(x))
            if isinstance(cur, Obj) and cur.cls == "dict" and not cur.fields and not reads_self:
                pairs = ast.ListComp(elt=ast.Tuple(elts=[b0.targets[0].slice, b0.value], ctx=ast.Load()),
                                     generators=[ast.comprehension(target=st.target, iter=st.iter, ifs=dfilt, is_async=0)])
                dc = ast.DictComp(key=b0.targets[0].slice, value=b0.value, generators=pairs.generators)
                vs = self.ev(dc, env, ctx)
                if len(vs) == 1 and not vs[0][0]:
                    e2 = dict(env)
                    e2[dn] = vs[0][1]
                    return [(conds, e2, None)]
        if (self.effects_mode and ctx.fx and self._has_effects(st.body)) or self._has_carried_stores(st.body, env, names):
            return self._generic_loop(it_term, st.body, conds, env, lv_env, names, ctx)
        body = list(st.body)
        filt = frozenset()
        if len(body) == 1 and isinstance(body[0], ast.If) and not body[0].orelse and not (
                len(body[0].body) == 1 and isinstance(body[0].body[0], ast.Continue)):
            fc = self.cond_alts(body[0].test, lv_env, ctx)
            if len(fc) != 1 or fc[0][0]:
                raise Unreadable("loop filter")
            tr = [cc for truth, cc in fc[0][1] if truth]
            if len(tr) != 1:
                raise Unreadable("loop filter (disjunctive)")
            filt |= tr[0]
            body = body[0].body
        e2 = dict(env)
        for b in body:
            if isinstance(b, ast.If) and not b.orelse and len(b.body) == 1 and isinstance(b.body[0], ast.Continue):
                # `if c: continue` anywhere in the body: everything after it is filtered by not c
                fc = self.cond_alts(b.test, lv_env, ctx)
                if len(fc) != 1 or fc[0][0]:
                    raise Unreadable("loop filter")
                fl = [cc for truth, cc in fc[0][1] if not truth]
                if len(fl) != 1:
                    raise Unreadable("loop filter (disjunctive)")
                filt |= fl[0]
                continue
            if isinstance(b, ast.Assign) and len(b.targets) == 1 and isinstance(b.targets[0], ast.Name) \
                    and b.targets[0].id in env and b.targets[0].id not in names and isinstance(b.value, ast.BinOp) \
                    and isinstance(b.value.op, ast.Add):
                # `acc = acc + e` / `acc = e + acc`
                tname = b.targets[0].id
                if isinstance(b.value.left, ast.Name) and b.value.left.id == tname:
                    b = ast.copy_location(ast.AugAssign(target=ast.Name(id=tname, ctx=ast.Store()), op=ast.Add(), value=b.value.right), b)
                elif isinstance(b.value.right, ast.Name) and b.value.right.id == tname:
                    b = ast.copy_location(ast.AugAssign(target=ast.Name(id=tname, ctx=ast.Store()), op=ast.Add(), value=b.value.left), b)
            if isinstance(b, ast.AugAssign) and isinstance(b.op, ast.Add) and isinstance(b.target, ast.Name) \
                    and b.target.id in env and b.target.id not in names:
                vs = self.ev(b.value, lv_env, ctx)
                if len(vs) != 1 or vs[0][0] or not isinstance(vs[0][1], Rat):
                    raise Unreadable("conditional summand")
                term = ("sum", it_term, vs[0][1]) if not filt else ("sum", it_term, vs[0][1], filt)
                cur = e2.get(b.target.id)
                if not isinstance(cur, Rat):
                    raise Unreadable("accumulator not initialised")
                e2[b.target.id] = cur + Rat.atom(term)
            elif isinstance(b, (ast.Assign, ast.AnnAssign)) and b.value is not None:
                tg = b.targets[0] if isinstance(b, ast.Assign) else b.target
                if not isinstance(tg, (ast.Name, ast.Tuple)):
                    raise Unreadable("store inside accumulation loop")
                vs = self.ev(b.value, lv_env, ctx)
                if len(vs) > 1 or (vs and vs[0][0]):
                    cnd = [x for v_ in vs for x in v_[0]]
                    if cnd:
                        raise NeedSplit(sorted(cnd, key=repr)[0])
                if len(vs) != 1 or vs[0][0]:
                    raise Unreadable("conditional loop local")
                self.bind(tg, vs[0][1], lv_env, Ctx(ctx.f, ctx.depth, ctx.selfcls, fx=False))
                for nn in ast.walk(tg):
                    if isinstance(nn, ast.Name):
                        names.append(nn.id)
            elif isinstance(b, ast.Expr) and isinstance(b.value, ast.Constant):
                continue
            elif isinstance(b, ast.Expr) and isinstance(b.value, ast.Call) and isinstance(b.value.func, ast.Attribute) \
                    and b.value.func.attr == "append" and len(b.value.args) == 1 and isinstance(b.value.func.value, ast.Name) \
                    and b.value.func.value.id not in names and type(e2.get(b.value.func.value.id)) is Tup \
                    and not e2[b.value.func.value.id].items:
                # `out = []; for x in it: [if c(x):] out.append(f(x))`  ==  [f(x) for x in it if c(x)]
                vs = self.ev(b.value.args[0], lv_env, ctx)
                if len(vs) != 1 or vs[0][0]:
                    raise Unreadable("piecewise appended element")
                e2[b.value.func.value.id] = Seq(it_term, vs[0][1], filt)
            else:
                raise Unreadable(f"loop body statement {ast.unparse(b)[:50]}")
        return [(conds, e2, None)]

    def _is_carried_list(self, v) -> bool:
        return isinstance(v, Rat) and v.key() in self._carried_lists

    def _stored_names(self, stmts):
        """Names (in order of first store) that `stmts` (re)bind or update in place through append."""
        out = []

        def add(n):
            if n not in out:
                out.append(n)

        def tgt(t):
            if isinstance(t, ast.Name):
                add(t.id)
            elif isinstance(t, (ast.Tuple, ast.List)):
                for e in t.elts:
                    tgt(e)
            elif isinstance(t, ast.Starred):
                tgt(t.value)

        class V(ast.NodeVisitor):
            def visit_FunctionDef(self, n):
                add(n.name)

            def visit_Lambda(self, n):
                return

            def visit_Assign(self, n):
                self.generic_visit(n.value)
                for t in n.targets:
                    tgt(t)

            def visit_AnnAssign(self, n):
                if n.value is not None:
                    self.generic_visit(n.value)
                    tgt(n.target)

            def visit_AugAssign(self, n):
                self.generic_visit(n.value)
                tgt(n.target)

            def visit_For(self, n):
                tgt(n.target)
                self.generic_visit(n)

            def visit_NamedExpr(self, n):
                tgt(n.target)
                self.generic_visit(n.value)

            def visit_Call(self, n):
                if isinstance(n.func, ast.Attribute) and n.func.attr in ("append", "extend", "sort", "insert", "pop", "remove", "clear") \
                        and isinstance(n.func.value, ast.Name):
                    add(n.func.value.id)
                self.generic_visit(n)

        v = V()
        for st in stmts:
            v.visit(st)
        return out

    def _has_carried_stores(self, body, env, loop_names) -> bool:
        """Does the loop body rebind a variable of the enclosing scope in a way the accumulation idioms do not cover
        (conditional last-wins / arg-min selections, running values)?"""
        for st in body:
            for n in ast.walk(st):
                tg = None
                if isinstance(n, ast.Assign) and len(n.targets) == 1:
                    tg = n.targets[0]
                    v = n.value
                    if isinstance(tg, ast.Name) and isinstance(v, ast.BinOp) and isinstance(v.op, ast.Add) and (
                            (isinstance(v.left, ast.Name) and v.left.id == tg.id) or (isinstance(v.right, ast.Name) and v.right.id == tg.id)) \
                            and n in body:
                        continue        # acc = acc + e at the top level of the body: accumulation idiom
                elif isinstance(n, ast.AnnAssign) and n.value is not None:
                    tg = n.target
                elif isinstance(n, ast.AugAssign) and not (isinstance(n.op, ast.Add) and (n in body or any(
                        isinstance(b, ast.If) and not b.orelse and n in b.body for b in body))):
                    tg = n.target
                if tg is None:
                    continue
                for e in (tg.elts if isinstance(tg, (ast.Tuple, ast.List)) else [tg]):
                    if isinstance(e, ast.Name) and e.id in env and e.id not in loop_names and not e.id.startswith("$"):
                        return True
        return False

    def _dead_on_entry(self, body, name: str) -> bool:
        """Is `name` unconditionally (re)assigned at the top level of the body before anything reads it?"""
        for st in body:
            mentions = [n for n in ast.walk(st) if isinstance(n, ast.Name) and n.id == name]
            if not mentions:
                continue
            if isinstance(st, (ast.Assign, ast.AnnAssign)) and st.value is not None:
                tgs = st.targets if isinstance(st, ast.Assign) else [st.target]
                if any(isinstance(t, ast.Name) and t.id == name for t in tgs) and not any(
                        isinstance(n, ast.Name) and n.id == name for n in ast.walk(st.value)):
                    return True
            return False
        return False

    def _live_after(self, ctx, body, name: str) -> bool:
        """Is `name` read anywhere in the function after the loop (textually)?"""
        end = max((getattr(n, "end_lineno", 0) or 0) for st in body for n in ast.walk(st))
        for n in ast.walk(ctx.f.node):
            if isinstance(n, ast.Name) and n.id == name and isinstance(n.ctx, ast.Load) and getattr(n, "lineno", 0) > end:
                return True
        return False

    def _loop_pass(self, body, inner_env, stored, ctx):
        inner_env = dict(inner_env)
        inner_env["$fx"] = ()
        rec = Ctx(ctx.f, ctx.depth, ctx.selfcls, fx=True) if not ctx.fx else ctx
        was = self.effects_mode
        self.effects_mode = True        # break / continue are path outcomes inside the block
        self._loop_depth += 1
        try:
            inner = self.exec_block(list(body), [(frozenset(), inner_env, None)], rec)
        finally:
            self.effects_mode = was
            self._loop_depth -= 1
        return inner

    def _generic_loop(self, kind_term, body, conds, env, lv_env, loop_names, ctx, test=None):
        """A loop with loop-carried state, as a canonical one-iteration transfer relation.  Every variable of the
        enclosing scope that the body rebinds (or a local list it appends to) enters the iteration as a symbolic
        `carried` value; the body is evaluated once; each path yields its guards, its effects, the new values of the
        carried variables and its exit (fall through / continue / break / return).  The fingerprint (source, initial
        values, loop test, rows) names the loop; after the loop each carried variable is `afterloop(fingerprint, k)`.
        Two loops with equal fingerprints compute the same function of the same inputs.

        The numbering k of the carried variables is canonical: a first pass evaluates the body with the variables named,
        ranks them by (initial value, updates) with the names anonymised and refined by the ranks of the variables they
        mention (colour refinement), and a second pass evaluates the body with the ranks as identities - so neither the
        names nor the order in which independent variables are updated matter.  Temporaries that are assigned before
        they are read in every iteration and are not used after the loop are not loop state."""
        import re as _re
        stored = [n for n in self._stored_names(body) if n in env and n not in loop_names and not n.startswith("$") and not n.startswith("@")]
        test_reads = {n.id for n in ast.walk(test) if isinstance(n, ast.Name)} if test is not None else set()
        stored = [n for n in stored if n in test_reads or not (self._dead_on_entry(body, n) and not self._live_after(ctx, body, n))]
        depth = self._loop_depth

        def entry_env(ident):
            ie = dict(lv_env)
            for nm in stored:
                cv = Rat.atom(("carried", depth, ident(nm)))
                if type(env[nm]) is Tup or self._is_carried_list(env[nm]):
                    self._carried_lists.add(cv.key())
                ie[nm] = cv
            return ie

        order = list(stored)
        if len(stored) > 1:
            # pass 1: named identities, then rank
            ie = entry_env(lambda nm: "n:" + nm)
            inner = self._loop_pass(body, ie, stored, ctx)
            texts = {}
            for nm in stored:
                ups = []
                for c, e, r in inner:
                    if nm in e and not _same_value(ie[nm], e[nm]):
                        ups.append(srepr(as_term(e[nm])) + " @ " + srepr(tuple(sorted(map(srepr, c)))))
                texts[nm] = srepr(as_term(env[nm])) + " :: " + " | ".join(sorted(ups))
            pat = _re.compile(r"n:([A-Za-z_][A-Za-z_0-9]*)")
            rank = {nm: 0 for nm in stored}
            for _ in range(len(stored) + 1):
                sig = {nm: pat.sub(lambda m: f"#{rank.get(m.group(1), 'x')}", texts[nm]) for nm in stored}
                classes = sorted(set(sig.values()))
                new = {nm: classes.index(sig[nm]) for nm in stored}
                if new == rank:
                    break
                rank = new
            order = sorted(stored, key=lambda nm: (rank[nm], stored.index(nm)))
        index = {nm: i for i, nm in enumerate(order)}
        inner_env = entry_env(lambda nm: index[nm])
        inits = [as_term(env[nm]) for nm in order]
        test_fp = None
        if test is not None:
            alts = self.cond_alts(test, inner_env, ctx)
            test_fp = tuple(sorted((tuple(sorted(map(srepr, c0))), tuple(sorted((t, tuple(sorted(map(srepr, cc)))) for t, cc in cv_)))
                                   for c0, cv_ in alts))
        inner = self._loop_pass(body, inner_env, stored, ctx)
        rows = []
        for c, e, r in inner:
            fx = e.get("$fx", ())
            for nm in order:
                if nm in e and not _same_value(inner_env[nm], e[nm]):
                    fx = fx + (("local", index[nm], as_term(e[nm])),)
            rr = None if r is None or (isinstance(r, Lit) and r.v == "<continue>") else srepr(r)
            rows.append((frozenset(c), (fx, rr)))
        # deterministic text: guards as sorted tuples, rows sorted (terms are compared through their text)
        rows = [(tuple(sorted(c, key=srepr)), p[0], p[1]) for c, p in _merge_rows(rows)]
        rows.sort(key=srepr)
        block = tuple(rows)
        src = ("loop", kind_term, tuple(inits), test_fp)
        e2 = dict(env)
        # what the carried variables become depends on the guards, on their updates and on the exits - not on the other
        # effects of the body (return values of effectful calls appear as atoms inside the updates)
        upd = tuple(sorted(((tuple(sorted(c, key=srepr)), p[0], p[1]) for c, p in _merge_rows(
            [(frozenset(c), (tuple(sorted((x for x in fx if isinstance(x, tuple) and x and x[0] == "local"), key=srepr)), rr))
             for c, fx, rr in rows])), key=srepr))
        # pure accumulation: every carried variable is only ever `v + t` with t and the row's guards free of carried
        # state, nothing else happens and the loop has no early exit - then v after the loop is init + sum(t) over the
        # iteration (filtered by the row's guards): the same canonical form as the accumulation idiom / sum()
        acc = self._as_accumulation(rows, order, index, inner_env, env, kind_term, depth) if test is None else None
        if acc is not None:
            e2.update(acc)
            return [(conds, e2, None)]
        for nm in order:
            i = index[nm]
            if any(any(isinstance(x, tuple) and x and x[0] == "local" and x[1] == i for x in fx) for _, fx, _ in rows):
                nv = Rat.atom(("afterloop", src, upd, i))
                if type(env[nm]) is Tup or self._is_carried_list(env[nm]):
                    self._carried_lists.add(nv.key())
                e2[nm] = nv
        # a loop that only updates its own carried variables has no observable effect of its own (its results flow on
        # through the afterloop values): recording it would make `loop inline` differ from `loop in a pure helper`
        observable = any(any(not (isinstance(x, tuple) and x and x[0] == "local") for x in fx) or (rr is not None and "<break>" not in rr)
                         for _, fx, rr in rows)
        if self.effects_mode and ctx.fx and observable:
            self._fx(e2, ("foreach", src, block))
        return [(conds, e2, None)]

    def _as_accumulation(self, rows, order, index, inner_env, env, it_term, depth):
        from .norm import all_atoms_deep

        def carried_in(x) -> bool:
            return any(isinstance(a, tuple) and len(a) == 3 and a[0] == "carried" and a[1] == depth for a in all_atoms_deep(x))

        sums = {nm: Rat.const(0) for nm in order}
        for c, fx, rr in rows:
            if rr is not None:
                return None
            if any(not (isinstance(x, tuple) and x and x[0] == "local") for x in fx):
                return None
            if any(carried_in(g.x if isinstance(g.x, Rat) else ("t", g.x)) for g in c):
                return None
            filt = frozenset(c)
            for x in fx:
                nm = order[x[1]]
                cur = inner_env[nm]
                new = x[2]
                if isinstance(new, tuple) and new and new[0] == "expr":
                    new = new[1]
                if not isinstance(new, Rat):
                    if isinstance(new, tuple):
                        new = Rat.atom(new)
                    else:
                        return None
                if not isinstance(cur, Rat) or not isinstance(env.get(nm), Rat):
                    return None
                delta = new - cur
                if carried_in(delta):
                    return None
                term = ("sum", it_term, delta) if not filt else ("sum", it_term, delta, filt)
                sums[nm] = sums[nm] + Rat.atom(term)
        out = {}
        for nm in order:
            out[nm] = env[nm] + sums[nm]
        return out

    def _target_term(self, t, env, ctx):
        if isinstance(t, ast.Attribute):
            ba = self.ev(t.value, env, ctx)
            if len(ba) != 1 or ba[0][0]:
                raise Unreadable("piecewise store target")
            return ("attr", as_term(ba[0][1]), t.attr)
        if isinstance(t, ast.Subscript):
            ba = self.ev(t.value, env, ctx)
            ia = self.ev(t.slice, env, ctx)
            if len(ba) != 1 or ba[0][0] or len(ia) != 1 or ia[0][0]:
                raise Unreadable("piecewise store target")
            return ("idx", as_term(ba[0][1]), as_term(ia[0][1]))
        raise Unreadable("store target")

    def bind(self, t, v, env, ctx, how="set", stmt=None):
        if isinstance(t, ast.Name):
            env[t.id] = v
        elif isinstance(t, (ast.Tuple, ast.List)):
            if isinstance(v, Tup) and len(v.items) == len(t.elts):
                for e, x in zip(t.elts, v.items):
                    self.bind(e, x, env, ctx, how)
            else:
                term = as_term(v)
                for i, e in enumerate(t.elts):
                    self.bind(e, Rat.atom(("item", term, i)), env, ctx, how)
        elif isinstance(t, ast.Attribute) and isinstance(t.value, ast.Name) and isinstance(env.get(t.value.id), Obj):
            # field update of a local record object (functional update; aliases are not tracked)
            o = env[t.value.id]
            nf = dict(o.fields)
            nf[t.attr] = v
            env[t.value.id] = Obj(o.cls, nf)
            env.pop("@" + ast.unparse(t), None)
        elif isinstance(t, (ast.Attribute, ast.Subscript)):
            if self.effects_mode and ctx.fx:
                delta = None
                if stmt is not None and isinstance(stmt, ast.AugAssign):
                    da = self.ev(stmt.value, env, ctx)
                    if len(da) == 1 and not da[0][0]:
                        delta = da[0][1]
                cur = None
                try:
                    ca = self.ev(_load(t), env, ctx)
                    if len(ca) == 1 and not ca[0][0]:
                        cur = ca[0][1]
                except Unreadable:
                    cur = None
                self._fx(env, ("store", self._target_term(t, env, ctx), how, v if delta is None else delta, cur))
            # store into an object: remember by source text (used for simple local state like `result.x = ...`);
            # a record object stored into a state location is afterwards reached through the location (so that
            # `self.d[k].f += x` and `p = self.d[k]; p.f += x` are the same effect)
            if isinstance(v, Obj):
                env.pop("@" + ast.unparse(t), None)
            else:
                env["@" + ast.unparse(t)] = v
        else:
            raise Unreadable("assignment target")

    # ---------------------------------------------------------- conditions
    def cond_alts(self, test, env, ctx):
        """[(value-conds, [(truth, frozenset(conds))...])] - a disjunctive split of a boolean expression."""
        if isinstance(test, ast.UnaryOp) and isinstance(test.op, ast.Not):
            out = []
            for c2, cv in self.cond_alts(test.operand, env, ctx):
                out.append((c2, [(not t, cc) for t, cc in cv]))
            return out
        if isinstance(test, ast.BoolOp):
            # and: true iff all true; enumerate short-circuit prefixes
            parts = [self.cond_alts(v, env, ctx) for v in test.values]
            # a piecewise operand (an inlined helper with several arms) contributes its arm guards to each alternative
            parts = [[(t, frozenset(c0) | cc) for c0, cv in p for t, cc in cv] for p in parts]
            is_and = isinstance(test.op, ast.And)
            res = []

            def rec(i, acc):
                if i == len(parts):
                    res.append((is_and, acc))
                    return
                for truth, cc in parts[i]:
                    if _contradict(acc | cc):
                        continue
                    if truth == is_and:
                        rec(i + 1, acc | cc)
                    else:
                        res.append((not is_and, acc | cc))

            rec(0, frozenset())
            return [(frozenset(), res)]
        if isinstance(test, ast.Compare):
            if len(test.ops) == 2:
                a = ast.Compare(left=test.left, ops=[test.ops[0]], comparators=[test.comparators[0]])
                b = ast.Compare(left=test.comparators[0], ops=[test.ops[1]], comparators=[test.comparators[1]])
                return self.cond_alts(ast.BoolOp(op=ast.And(), values=[a, b]), env, ctx)
            if len(test.ops) != 1:
                raise Unreadable("chained comparison")
            op = test.ops[0]
            out = []
            for c1, l in self.ev(test.left, env, ctx):
                for c2, r in self.ev(test.comparators[0], env, ctx):
                    cs = c1 | c2
                    if isinstance(op, (ast.Is, ast.IsNot, ast.In, ast.NotIn)) or not (isinstance(l, Rat) and isinstance(r, Rat)):
                        if isinstance(op, (ast.Is, ast.IsNot)) and (l is NONE or r is NONE):
                            other = r if l is NONE else l
                            if other is NONE:
                                truth = isinstance(op, ast.Is)
                                out.append((cs, [(truth, frozenset())]))
                                continue
                            if isinstance(other, (Rat, Tup)) and not _maybe_none(other):
                                out.append((cs, [(isinstance(op, ast.IsNot), frozenset())]))
                                continue
                        if isinstance(op, (ast.Eq, ast.NotEq)) and isinstance(l, Lit) and isinstance(r, Lit):
                            out.append((cs, [((l.v == r.v) == isinstance(op, ast.Eq), frozenset())]))
                            continue
                        POS = {"NotIn": "In", "IsNot": "Is", "NotEq": "Eq"}
                        opn = type(op).__name__
                        neg = opn in POS
                        lt, rt = as_term(l), as_term(r)
                        if POS.get(opn, opn) in ("Is", "Eq") and srepr(lt) > srepr(rt):
                            lt, rt = rt, lt  # symmetric operators: canonical operand order
                        c = Cond("true", ("cmp", POS.get(opn, opn), lt, rt))
                        sp = self._split(c)
                        if neg:
                            sp = [(not t, cc) for t, cc in sp]
                        out.append((cs, sp))
                        continue
                    c = cmp_cond(op, l, r)
                    t = const_truth(c)
                    if t is not None:
                        out.append((cs, [(t, frozenset())]))
                    else:
                        out.append((cs, self._split(c)))
            return out
        # truthiness of a value
        out = []
        for c1, v in self.ev(test, env, ctx):
            if v is NONE:
                out.append((c1, [(False, frozenset())]))
            elif isinstance(v, Lit):
                out.append((c1, [(bool(v.v), frozenset())]))
            elif isinstance(v, Rat) and v.is_const():
                out.append((c1, [(v.const_value() != 0, frozenset())]))
            elif self._always_truthy(v, ctx):
                # an instance of a class that defines neither __bool__ nor __len__ (the state dataclasses) is always true
                out.append((c1, [(True, frozenset())]))
            else:
                c = Cond("true", as_term(v))
                out.append((c1, self._split(c)))
        return out

    def _atom_type(self, a, ctx):
        """Static type of a state access path (self.F, self.F[k], self.F[k].g) from the model's field types."""
        from .model import ClassInfo
        if not isinstance(a, tuple) or not a:
            return None
        if a[0] == "sym":
            return ctx.selfcls if a[1] == "self" else None
        if a[0] == "attr" and len(a) == 3:
            bt = self._atom_type(a[1], ctx)
            if isinstance(bt, ClassInfo):
                return self.model.field_type(bt, a[2])
            return None
        if a[0] == "idx" and len(a) == 3:
            bt = self._atom_type(a[1], ctx)
            if isinstance(bt, tuple) and bt and bt[0] in ("map", "seq") and len(bt) == 2:
                return bt[1]
            return None
        return None

    def _always_truthy(self, v, ctx) -> bool:
        from .model import ClassInfo
        a = v.single_atom() if isinstance(v, Rat) else None
        if a is None:
            return False
        t = self._atom_type(a, ctx)
        if not isinstance(t, ClassInfo):
            return False
        if not t.is_dataclass:
            return False
        for k in self.model.mro(t):
            if "__bool__" in k.methods or "__len__" in k.methods:
                return False
            if any(not (isinstance(b, ast.Name) and b.id == "object") for b in k.base_exprs) and len(k.bases) != len(k.base_exprs):
                return False    # a base class outside the repository (dict, NamedTuple, ...) may define truthiness
        return True

    def _split(self, c: "Cond"):
        if c in self.assume:
            return [(True, frozenset())]
        if c.negate() in self.assume:
            return [(False, frozenset())]
        return [(True, frozenset([c])), (False, frozenset([c.negate()]))]

    # --------------------------------------------------------- expressions
    def ev(self, node, env, ctx) -> List[Tuple[frozenset, object]]:
        """Alternatives [(conds, value)]."""
        if isinstance(node, ast.Constant):
            v = node.value
            if isinstance(v, bool) or v is None or isinstance(v, str):
                return [(frozenset(), NONE if v is None else Lit(v))]
            if isinstance(v, (int, float)):
                return [(frozenset(), Rat.const(v))]
            raise Unreadable("constant")
        if isinstance(node, ast.Name):
            if node.id in env:
                return [(frozenset(), env[node.id])]
            return [(frozenset(), self.global_name(node.id, ctx))]
        if isinstance(node, ast.Attribute):
            key = "@" + ast.unparse(node)
            if key in env:
                return [(frozenset(), env[key])]
            # class / module constants
            cv = self.const_attr(node, ctx, env)
            if cv is not None:
                return [(frozenset(), cv)]
            out = []
            for c, b in self.ev(node.value, env, ctx):
                if isinstance(b, Raise):
                    raise PathRaises(c, b.exc)
                out.append((c, self.attr(b, node.attr, ctx, node)))
            return out
        if isinstance(node, ast.Subscript):
            key = "@" + ast.unparse(node)
            if key in env:
                return [(frozenset(), env[key])]
            out = []
            for c1, b in self.ev(node.value, env, ctx):
                for c2, i in self.ev(node.slice, env, ctx):
                    if isinstance(b, Obj) and b.cls == "dict":
                        kt = srepr(as_term(i))
                        if kt in b.fields:
                            out.append((c1 | c2, b.fields[kt]))
                            continue
                    if isinstance(b, SortedTup) and isinstance(i, Rat) and i.is_const():
                        k = int(i.const_value())
                        if k < 0:
                            k += len(b.items)
                        out.append((c1 | c2, Rat.atom(("kth", k, frozenset(self.as_num(x, node, ctx) for x in b.items),
                                                       len(b.items)))))
                    elif isinstance(b, Tup) and isinstance(i, Rat) and i.is_const():
                        out.append((c1 | c2, b.items[int(i.const_value())]))
                    elif isinstance(i, Rat) and isinstance(i.single_atom(), tuple) and i.single_atom()[0] == "firstpos" \
                            and isinstance(b, Rat) and b.single_atom() is not None and self._iterates(i.single_atom()[1], b.single_atom()):
                        # S[position of the first x in S with c(x)] is the first element of [x for x in S if c(x)]
                        _fp = i.single_atom()
                        cterm = _fp[1][1]
                        elem = Rat.atom(("idx", cterm, ("loopvar", _fp[1])))
                        out.append((c1 | c2, Rat.atom(("item", as_term(Seq(_fp[1], elem, _fp[2])), 0))))
                    elif isinstance(i, Rat) and i.is_const() and i.const_value().denominator == 1 and i.const_value() < 0 \
                            and isinstance(b, Rat) and b.single_atom() is not None:
                        # x[-k] is x[len(x) - k]; positional accessors of a series / frame have their owner's length
                        bt = b.single_atom()
                        owner = bt[1] if isinstance(bt, tuple) and len(bt) == 3 and bt[0] == "attr" and bt[2] in ("iloc", "index", "values", "iat") else bt
                        i2 = Rat.atom(("len", owner)) + i
                        out.append((c1 | c2, Rat.atom(("idx", as_term(b), as_term(i2)))))
                    elif isinstance(i, Rat) and i.is_const() and i.const_value().denominator == 1:
                        out.append((c1 | c2, Rat.atom(("item", as_term(b), int(i.const_value())))))
                    else:
                        out.append((c1 | c2, Rat.atom(("idx", as_term(b), as_term(i)))))
            return out
        if isinstance(node, ast.Tuple):
            alts = [(frozenset(), [])]
            for e in node.elts:
                nxt = []
                for c, items in alts:
                    for c2, v in self.ev(e, env, ctx):
                        nxt.append((c | c2, items + [v]))
                alts = nxt
            return [(c, Tup(items)) for c, items in alts]
        if isinstance(node, ast.UnaryOp):
            if isinstance(node.op, ast.USub):
                return [(c, -v) for c, v in self.num_alts(node.operand, env, ctx)]
            if isinstance(node.op, ast.UAdd):
                return self.num_alts(node.operand, env, ctx)
            if isinstance(node.op, ast.Not):
                out = []
                for c2, cv in self.cond_alts(node, env, ctx):
                    for truth, cc in cv:
                        out.append((c2 | cc, Lit(truth)))
                return out
        if isinstance(node, ast.BinOp):
            out = []
            for c1, l in self.num_alts(node.left, env, ctx):
                for c2, r in self.num_alts(node.right, env, ctx):
                    out.append((c1 | c2, self.binop(node.op, l, r, node)))
            return out
        if isinstance(node, ast.IfExp):
            # min / max / abs idioms
            idi = self._ifexp_idiom(node, env, ctx)
            if idi is not None:
                return [(frozenset(), idi)]
            out = []
            for c2, cv in self.cond_alts(node.test, env, ctx):
                for truth, cc in cv:
                    br = node.body if truth else node.orelse
                    for c3, v in self.ev(br, env, ctx):
                        allc = c2 | cc | c3
                        if not _contradict(allc):
                            out.append((allc, v))
            return out
        if isinstance(node, ast.Compare) or isinstance(node, ast.BoolOp):
            out = []
            for c2, cv in self.cond_alts(node, env, ctx):
                for truth, cc in cv:
                    out.append((c2 | cc, Lit(truth)))
            # keep as a boolean term when undecided
            if len(out) == 2 and not out[0][0] - out[1][0] == frozenset() and False:
                pass
            return out
        if isinstance(node, ast.Call):
            return self.call(node, env, ctx)
        if isinstance(node, ast.JoinedStr):
            parts = []
            for v in node.values:
                if isinstance(v, ast.Constant):
                    parts.append(("lit", v.value))
                else:
                    alts = self.ev(v.value, env, ctx)
                    if len(alts) != 1 or alts[0][0]:
                        raise Unreadable("piecewise f-string")
                    parts.append(as_term(alts[0][1]))
            return [(frozenset(), Str(tuple(parts)))]
        if isinstance(node, (ast.List,)):
            alts = [(frozenset(), [])]
            for e in node.elts:
                nxt = []
                for c, items in alts:
                    for c2, v in self.ev(e, env, ctx):
                        nxt.append((c | c2, items + [v]))
                alts = nxt
            return [(c, Tup(items, lit="list")) for c, items in alts]
        if isinstance(node, (ast.ListComp, ast.GeneratorExp)):
            return [(frozenset(), self.comp(node, env, ctx))]
        if isinstance(node, ast.Slice):
            parts = []
            for x in (node.lower, node.upper, node.step):
                if x is None:
                    parts.append(NONE)
                else:
                    a = self.ev(x, env, ctx)
                    if len(a) != 1 or a[0][0]:
                        raise Unreadable("piecewise slice bound")
                    parts.append(a[0][1])
            return [(frozenset(), Rat.atom(("slice",) + tuple(as_term(p) for p in parts)))]
        if isinstance(node, ast.Lambda):
            # canonical in the parameter names: parameters become positional placeholders
            try:
                e2 = dict(env)
                names = [a.arg for a in node.args.args]
                for i, nme in enumerate(names):
                    e2[nme] = Rat.atom(("lamarg", i))
                if isinstance(node.body, (ast.Compare, ast.BoolOp)) or (
                        isinstance(node.body, ast.UnaryOp) and isinstance(node.body.op, ast.Not)):
                    ca = self.cond_alts(node.body, e2, ctx)
                    if len(ca) == 1 and not ca[0][0]:
                        tr = [cc for truth, cc in ca[0][1] if truth]
                        if len(tr) == 1:
                            return [(frozenset(), Rat.atom(("lambda", len(names), ("conds", frozenset(tr[0])))))]
                ba = self.ev(node.body, e2, ctx)
                if len(ba) == 1 and not ba[0][0]:
                    return [(frozenset(), Rat.atom(("lambda", len(names), as_term(ba[0][1]))))]
            except Unreadable:
                pass
            return [(frozenset(), Rat.atom(("lambda", ast.unparse(node.args), ast.unparse(node.body))))]
        if isinstance(node, ast.Dict):
            alts = [(frozenset(), {})]
            for k, v in zip(node.keys, node.values):
                if k is None:
                    raise Unreadable("dict unpacking")
                ks = self.ev(k, env, ctx)
                if len(ks) != 1 or ks[0][0]:
                    raise Unreadable("piecewise dict key")
                kt = srepr(as_term(ks[0][1]))
                nxt = []
                for c, d in alts:
                    for c2, vv in self.ev(v, env, ctx):
                        dd = dict(d)
                        dd[kt] = vv
                        nxt.append((c | c2, dd))
                alts = nxt
            return [(c, Obj("dict", d)) for c, d in alts]
        if isinstance(node, ast.DictComp):
            g = node.generators
            if len(g) == 1 and not g[0].ifs:
                its = self.ev(g[0].iter, env, ctx)
                if len(its) == 1 and not its[0][0]:
                    # {k: v for k, v in X.items()} is X
                    it = its[0][1]
                    if isinstance(it, Rat) and isinstance(it.single_atom(), tuple) and it.single_atom()[0] == "items" \
                            and isinstance(g[0].target, ast.Tuple) and len(g[0].target.elts) == 2 \
                            and ast.dump(node.key) == ast.dump(_load(g[0].target.elts[0])) \
                            and ast.dump(node.value) == ast.dump(_load(g[0].target.elts[1])):
                        inner = it.single_atom()[1]
                        if isinstance(inner, tuple) and inner[0] == "objdict":
                            return [(frozenset(), inner[1])]
                        return [(frozenset(), it)]
                    # {k: d[k] for k in d}
                    src = g[0].iter
                    if isinstance(g[0].target, ast.Name) and isinstance(node.key, ast.Name) and node.key.id == g[0].target.id \
                            and isinstance(node.value, ast.Subscript) and ast.dump(node.value.value) == ast.dump(src) \
                            and isinstance(node.value.slice, ast.Name) and node.value.slice.id == g[0].target.id:
                        return [(frozenset(), it)]
            # general form: the mapping is determined by the sequence of its (key, value) pairs
            pairs = ast.ListComp(elt=ast.Tuple(elts=[node.key, node.value], ctx=ast.Load()), generators=node.generators)
            sq = self.comp(pairs, env, ctx)
            return [(frozenset(), Rat.atom(("dictcomp", as_term(sq))))]
        raise Unreadable(f"expression {type(node).__name__}: {ast.unparse(node)[:60]} in {ctx.f.qualname}")

    def comp(self, node, env, ctx):
        if len(node.generators) != 1:
            raise Unreadable("nested comprehension")
        g = node.generators[0]
        if isinstance(g.iter, (ast.Tuple, ast.List)) and len(g.iter.elts) <= 4 and not g.ifs and isinstance(node, ast.ListComp) \
                and not any(isinstance(x, ast.Starred) for x in g.iter.elts):
            # a comprehension over a short display of known items is the display of its elements, item by item
            items = []
            acc = frozenset()
            for x in g.iter.elts:
                xv = self.ev(x, env, ctx)
                if len(xv) != 1 or xv[0][0]:
                    raise Unreadable("piecewise item of a display comprehension")
                e1 = dict(env)
                self.bind(g.target, xv[0][1], e1, ctx)
                vs = [(c, v) for c, v in self.ev(node.elt, e1, ctx) if not _contradict(c | self.assume)]
                for c, v in vs:
                    if isinstance(v, Raise):
                        raise PathRaises(c, v.exc)
                if not vs or any(not _same_value(v, vs[0][1]) for _c, v in vs[1:]):
                    raise Unreadable("piecewise element of a display comprehension")
                items.append(vs[0][1])
            return Tup(items, lit="list")
        it_term, binds = self.iter_binding(g.iter, g.target, env, ctx, body=[node.elt] + list(g.ifs), snapshot_ok=True)
        e2 = dict(env)
        e2.update(binds)
        filt = frozenset()
        for cnd in g.ifs:
            fc = self.cond_alts(cnd, e2, ctx)
            if len(fc) != 1 or fc[0][0]:
                raise Unreadable("comprehension filter")
            tr = [cc for truth, cc in fc[0][1] if truth]
            if len(tr) == 1:
                filt |= tr[0]
            elif len(tr) > 1:
                # disjunctive filter: one opaque condition made of its alternatives
                filt |= frozenset([Cond("true", ("or", frozenset(frozenset(t) for t in tr)))])
            else:
                raise Unreadable("comprehension filter is never true")
        if isinstance(node.elt, (ast.Compare, ast.BoolOp)) or (isinstance(node.elt, ast.UnaryOp) and isinstance(node.elt.op, ast.Not)):
            fc = self.cond_alts(node.elt, e2, ctx)
            if len(fc) == 1 and not fc[0][0]:
                tr = [cc for truth, cc in fc[0][1] if truth]
                if len(tr) == 1:
                    return Seq(it_term, BoolElt(frozenset(tr[0])), filt)
            raise Unreadable("boolean comprehension element")
        vs = [(c, v) for c, v in self.ev(node.elt, e2, ctx) if not _contradict(c)]
        if len(vs) != 1 or vs[0][0]:
            # an element that rejects under a condition R(x) and has ONE value otherwise: the comprehension raises iff
            # any(R(x) for x in it) and is the plain map otherwise (same case distinction as a checking loop before it)
            rs = [(c, v) for c, v in vs if isinstance(v, Raise)]
            ok = [(c, v) for c, v in vs if not isinstance(v, Raise)]
            if rs and len(ok) == 1 and all(len(c) == 1 for c, _ in rs) and ok[0][0] == frozenset(list(c)[0].negate() for c, _ in rs):
                for c, v in rs:
                    c_any = Cond("true", ("any", it_term, frozenset(c | filt)))
                    if c_any in self.assume:
                        raise ElemRaises(v.exc)
                    if c_any.negate() not in self.assume:
                        raise NeedSplit(c_any)
                return Seq(it_term, ok[0][1], filt)
            raise Unreadable("piecewise comprehension element")
        return Seq(it_term, vs[0][1], filt)

    @staticmethod
    def _iterates(it_term, base_atom) -> bool:
        """Does iterating `it_term` = ("iter", C) visit, in order, the elements that `base_atom` holds by position?
        (base is C itself, C.values(), or a list / tuple snapshot of one of them)"""
        if not (isinstance(it_term, tuple) and len(it_term) == 2 and it_term[0] == "iter"):
            return False
        c = it_term[1]
        b = base_atom
        for _ in range(3):
            if b == c:
                return True
            if isinstance(b, tuple) and len(b) == 2 and b[0] in ("list", "tuple", "values"):
                b = b[1]
            else:
                return False
        return b == c

    def _ifexp_idiom(self, node: ast.IfExp, env, ctx):
        t = node.test
        if isinstance(t, ast.UnaryOp) and isinstance(t.op, ast.Not):
            # `a if not (c) else b` is `b if c else a`
            return self._ifexp_idiom(ast.IfExp(test=t.operand, body=node.orelse, orelse=node.body), env, ctx)
        if not (isinstance(t, ast.Compare) and len(t.ops) == 1 and isinstance(t.ops[0], (ast.Lt, ast.LtE, ast.Gt, ast.GtE))):
            return None
        try:
            la, ra = self.ev(t.left, env, ctx), self.ev(t.comparators[0], env, ctx)
            ba, oa = self.ev(node.body, env, ctx), self.ev(node.orelse, env, ctx)
        except Unreadable:
            return None
        if any(len(x) != 1 or x[0][0] for x in (la, ra, ba, oa)):
            return None
        l, r, b, o = la[0][1], ra[0][1], ba[0][1], oa[0][1]
        if not all(isinstance(x, Rat) for x in (l, r, b, o)):
            return None
        less = isinstance(t.ops[0], (ast.Lt, ast.LtE))
        if (b == l and o == r) or (b == r and o == l):
            pick_left = (b == l)
            kind = "min" if (less == pick_left) else "max"
            return minmax(kind, [l, r])
        # abs: a - b if a > b else b - a
        if b == l - r and o == r - l:
            return abs_of(l - r) if not less else _neg_abs(l - r)
        if b == r - l and o == l - r:
            return abs_of(l - r) if less else _neg_abs(l - r)
        return None

    def num_alts(self, node, env, ctx):
        out = []
        for c, v in self.ev(node, env, ctx):
            if isinstance(v, Raise):
                raise PathRaises(c, v.exc)
            out.append((c, self.as_num(v, node, ctx)))
        return out

    def as_num(self, v, node, ctx) -> Rat:
        if isinstance(v, Rat):
            return v
        if isinstance(v, Lit) and isinstance(v.v, bool):
            return Rat.const(int(v.v))
        if isinstance(v, Seq):
            return Rat.atom(("seq", v.it, v.elt, v.filt))
        if isinstance(v, (Tup, Str)) or v is NONE or isinstance(v, Lit):
            return Rat.atom(as_term(v))
        raise Unreadable(f"non-numeric operand {v!r} at {ctx.f.qualname}:{getattr(node, 'lineno', 0)}")

    def binop(self, op, l: Rat, r: Rat, node) -> Rat:
        if isinstance(op, ast.Add):
            return l + r
        if isinstance(op, ast.Sub):
            return l - r
        if isinstance(op, ast.Mult):
            return l * r
        if isinstance(op, ast.Div):
            if r.n.is_zero():
                raise Unreadable("division by literal zero")
            return l / r
        if isinstance(op, ast.FloorDiv):
            return floor_of(l / r)
        if isinstance(op, ast.Pow):
            if r.is_const():
                e = r.const_value()
                if e.denominator == 1 and abs(e.numerator) <= 64:
                    if l.is_const() and abs(e.numerator) <= 400:
                        return Rat.const(l.const_value() ** e.numerator)
                    return l ** int(e.numerator)
                if l.is_const() and e.denominator == 1 and abs(e.numerator) <= 400:
                    return Rat.const(l.const_value() ** e.numerator)
                if e == Fraction(1, 2):
                    return Rat.atom(("sqrt", l))
            return Rat.atom(("pow", l, r))
        if isinstance(op, ast.Mod):
            return Rat.atom(("mod", l, r))
        if isinstance(op, ast.RShift) and r.is_const():
            return floor_of(l / Rat.const(Fraction(2) ** int(r.const_value())))
        if isinstance(op, ast.LShift) and r.is_const():
            return l * Rat.const(Fraction(2) ** int(r.const_value()))
        if isinstance(op, ast.BitAnd):
            return Rat.atom(("and", l, r))
        if isinstance(op, ast.BitOr):
            return Rat.atom(("or", l, r))
        raise Unreadable(f"operator {type(op).__name__}")

    # -------------------------------------------------------------- names
    def global_name(self, name: str, ctx):
        if name in ("True", "False"):
            return Lit(name == "True")
        if name == "None":
            return NONE
        r = self.model.resolve_name(ctx.f.module, name)
        if isinstance(r, tuple) and r[0] == "const":
            v = self.const_expr(r[2], r[1])
            if v is not None:
                return v
        if isinstance(r, ClassInfo):
            return ClsRef(r)
        if isinstance(r, FuncInfo):
            return FuncRef(r)
        if isinstance(r, Module):
            return ModRef(r)
        return Rat.atom(("sym", name))

    def const_expr(self, expr: ast.expr, mod: Module):
        """Value of a module/class level constant expression (numbers only)."""
        try:
            f = FuncInfo(mod, None, ast.parse("def _c(): pass").body[0])
            alts = self.ev(expr, {}, Ctx(f, 0))
        except Unreadable:
            return None
        if len(alts) == 1 and not alts[0][0] and isinstance(alts[0][1], (Rat, Lit)):
            return alts[0][1]
        return None

    def const_attr(self, node: ast.Attribute, ctx, env):
        base = node.value
        if isinstance(base, ast.Name) and base.id not in env:
            r = self.model.resolve_name(ctx.f.module, base.id)
            if isinstance(r, ClassInfo):
                cc = self.model.class_const(r, node.attr)
                if cc is not None:
                    return self.const_expr(cc[1], cc[0].module)
            if isinstance(r, Module):
                rr = self.model.resolve_name(r, node.attr)
                if isinstance(rr, tuple) and rr[0] == "const":
                    return self.const_expr(rr[2], rr[1])
        if isinstance(base, ast.Name) and base.id == "self" and ctx.f.cls is not None:
            cc = self.model.class_const(ctx.selfcls or ctx.f.cls, node.attr)
            if cc is not None and node.attr not in self.model.fields_assigned_in_init(ctx.selfcls or ctx.f.cls):
                return self.const_expr(cc[1], cc[0].module)
        return None

    def attr(self, b, attr: str, ctx, node):
        if isinstance(b, ClsRef):
            f = self.model.find_method(b.cls, attr)
            if f is not None:
                return FuncRef(f, None, b.cls)
            cc = self.model.class_const(b.cls, attr)
            if cc is not None:
                v = self.const_expr(cc[1], cc[0].module)
                if v is not None:
                    return v
            return Rat.atom(("attr", ("cls", b.cls.name), attr))
        if isinstance(b, ModRef):
            r = self.model.resolve_name(b.mod, attr)
            if isinstance(r, FuncInfo):
                return FuncRef(r)
            if isinstance(r, ClassInfo):
                return ClsRef(r)
            return Rat.atom(("attr", ("mod", b.mod.name), attr))
        if isinstance(b, Rat):
            a = b.single_atom()
            if a is not None:
                # methods of self
                if a == ("sym", "self") and attr in self.attr_alias:
                    alts = self.ev(ast.parse(self.attr_alias[attr], mode="eval").body, {"self": b}, ctx)
                    if len(alts) == 1 and not alts[0][0]:
                        return alts[0][1]
                if a == ("sym", "self") and ctx.f.cls is not None:
                    f = self.model.find_method(ctx.selfcls or ctx.f.cls, attr)
                    if f is not None and not f.is_property:
                        return FuncRef(f, b, ctx.selfcls or ctx.f.cls)
                    if f is not None and f.is_property:
                        g = _trivial_getter(f)
                        if g is not None:
                            return Rat.atom(("attr", a, g))
                        if f.qualname in self.extern:
                            return self.extern[f.qualname]
                        if f.name in self.opaque or f.qualname in self.opaque:
                            return Rat.atom(("prop", a, attr))
                        try:
                            return self.inline(f, b, ctx.selfcls or ctx.f.cls, [], {}, ctx, node, single=True)
                        except BudgetExceeded:
                            raise
                        except Unreadable:
                            # a property getter outside the evaluator's language (memo-filling views) is summarised as
                            # the opaque view `prop(self, name)`: which view is read still matters, how it is computed
                            # is decided elsewhere (R-CACHE / the getter's own reference)
                            return Rat.atom(("prop", a, attr))
                return Rat.atom(("attr", a, attr))
            return Rat.atom(("attr", ("expr", b), attr))
        if isinstance(b, Obj):
            if attr in b.fields:
                return b.fields[attr]
            return Rat.atom(("attr", ("obj", b.cls), attr))
        return Rat.atom(("attr", as_term(b), attr))

    # --------------------------------------------------------------- calls
    def call(self, node: ast.Call, env, ctx):
        nm = _callname(node)
        short = nm.split(".")[-1]
        if isinstance(node.func, ast.Attribute) and node.func.attr == "index" and len(node.args) == 1 and not node.keywords:
            # [f(x) for x in S].index(v): the position of the first element of S with f(x) == v
            try:
                ra = self.ev(node.func.value, env, ctx)
                if len(ra) == 1 and not ra[0][0] and isinstance(ra[0][1], Seq) and not ra[0][1].filt and isinstance(ra[0][1].elt, Rat):
                    va = self.ev(node.args[0], env, ctx)
                    if len(va) == 1 and not va[0][0] and isinstance(va[0][1], Rat):
                        sq = ra[0][1]
                        return [(frozenset(), Rat.atom(("firstpos", sq.it, frozenset([Cond("==", sq.elt - va[0][1])]))))]
            except Unreadable:
                pass
        # argument alternatives
        def args_alts():
            alts = [(frozenset(), [], {})]
            for a in node.args:
                nxt = []
                star = isinstance(a, ast.Starred)
                for c, pos, kw in alts:
                    for c2, v in self.ev(a.value if star else a, env, ctx):
                        if isinstance(v, Raise):
                            raise PathRaises(c | c2, v.exc)
                        # f(*xs): the whole sequence is one opaque positional block
                        nxt.append((c | c2, pos + [Rat.atom(("star", as_term(v))) if star else v], kw))
                alts = nxt
            for k in node.keywords:
                nxt = []
                for c, pos, kw in alts:
                    for c2, v in self.ev(k.value, env, ctx):
                        if isinstance(v, Raise):
                            raise PathRaises(c | c2, v.exc)
                        kk = dict(kw)
                        kk[k.arg if k.arg is not None else "**"] = v
                        nxt.append((c | c2, pos, kk))
                alts = nxt
            return alts

        # map(lambda x: e, it) / filter(lambda x: c, it): the comprehension they denote
        if isinstance(node.func, ast.Name) and node.func.id in ("map", "filter") and node.func.id not in env \
                and len(node.args) == 2 and isinstance(node.args[0], ast.Lambda) and len(node.args[0].args.args) == 1:
            lam = node.args[0]
            tgt = ast.Name(id=lam.args.args[0].arg, ctx=ast.Store())
            if node.func.id == "map":
                comp = ast.GeneratorExp(elt=lam.body, generators=[ast.comprehension(target=tgt, iter=node.args[1], ifs=[], is_async=0)])
            else:
                comp = ast.GeneratorExp(elt=ast.Name(id=lam.args.args[0].arg, ctx=ast.Load()),
                                        generators=[ast.comprehension(target=tgt, iter=node.args[1], ifs=[lam.body], is_async=0)])
            ast.copy_location(comp, node)
            ast.fix_missing_locations(comp)
            return [(frozenset(), self.comp(comp, env, ctx))]
        # callee
        fv = None
        if isinstance(node.func, ast.Name):
            if node.func.id in env:
                fv = env[node.func.id]
            else:
                fv = self.global_name(node.func.id, ctx)
        elif isinstance(node.func, ast.Attribute):
            recv_alts = self.ev(node.func.value, env, ctx)
            if len(recv_alts) == 1 and not recv_alts[0][0]:
                rb = recv_alts[0][1]
                # methods on values: x.quantize(...), x.sqrt(), d.values(), ...
                m = self.value_method(rb, node.func.attr, node, env, ctx)
                if m is not None:
                    return m
                fv = self.attr(rb, node.func.attr, ctx, node)
            else:
                raise Unreadable("piecewise receiver")
        out = []
        for c, pos, kw in args_alts():
            out.extend((c | c2, v) for c2, v in self.apply(fv, nm, short, pos, kw, node, env, ctx))
        return out

    def value_method(self, rb, meth: str, node, env, ctx):
        if meth == "quantize" and isinstance(rb, Rat):
            rounding = None
            for k in node.keywords:
                if k.arg == "rounding":
                    rounding = ast.unparse(k.value).split(".")[-1]
            if len(node.args) >= 2:
                rounding = ast.unparse(node.args[1]).split(".")[-1]
            step_alts = self.ev(node.args[0], env, ctx)
            if len(step_alts) != 1:
                raise Unreadable("quantize step")
            step = step_alts[0][1]
            if isinstance(step, Rat) and step.is_const() and step.const_value() == 0 or (
                    isinstance(step, Rat) and step.is_const() and step.const_value() == 1):
                if rounding == "ROUND_DOWN":
                    return [(frozenset(), floor_of(rb))]
                return [(frozenset(), Rat.atom(("round", rb, rounding or "HALF_EVEN")))]
            return [(frozenset(), Rat.atom(("quantize", rb, as_term(step), rounding or "HALF_EVEN")))]
        if meth == "sqrt" and isinstance(rb, Rat) and not node.args:
            return [(frozenset(), Rat.atom(("sqrt", rb)))]
        if meth == "items" and not node.args and isinstance(rb, Obj) and rb.cls == "dict":
            return [(frozenset(), Rat.atom(("items", ("objdict", rb))))]
        if meth in ("values", "keys", "items") and not node.args and isinstance(rb, Rat):
            a = rb.single_atom()
            return [(frozenset(), Rat.atom((meth, a if a is not None else ("expr", rb))))]
        if meth in ("lower", "upper") and isinstance(rb, Rat) and not node.args:
            a = rb.single_atom()
            return [(frozenset(), Rat.atom((meth, a if a is not None else ("expr", rb))))]
        if meth == "to_pydatetime" and not node.args:
            return [(frozenset(), rb)]
        return None

    def apply(self, fv, nm, short, pos, kw, node, env, ctx):
        # identity wrappers
        if short in BUILTIN_IDENTITY and len(pos) == 1 and (not isinstance(fv, FuncRef) or short in ("to_decimal", "object_to_decimal")):
            v = pos[0]
            if isinstance(v, Lit) and isinstance(v.v, str):
                try:
                    return [(frozenset(), Rat.const(Fraction(Decimal(v.v))))]
                except Exception:
                    if v.v.strip().lower() in ("inf", "-inf", "nan", "infinity"):
                        return [(frozenset(), Rat.atom(("special", v.v.strip().lower())))]
                    raise Unreadable("Decimal of string")
            return [(frozenset(), v)]
        if short == "str" and len(pos) == 1 and not isinstance(fv, FuncRef):
            return [(frozenset(), pos[0])]
        if short == "int" and len(pos) == 1 and not isinstance(fv, FuncRef):
            v = self.as_num(pos[0], node, ctx)
            if v.is_const():
                cv = v.const_value()
                return [(frozenset(), Rat.const(int(cv)))]
            a_ = v.single_atom()
            if isinstance(a_, tuple) and a_ and a_[0] in ("floor", "int", "round0"):
                return [(frozenset(), v)]   # already integer-valued
            return [(frozenset(), Rat.atom(("int", v)) if not self.int_is_floor else floor_of(v))]
        if short in ("min", "max") and not isinstance(fv, FuncRef):
            if len(pos) >= 2:
                return [(frozenset(), minmax(short, [self.as_num(p, node, ctx) for p in pos]))]
            return [(frozenset(), Rat.atom((short + "_of", as_term(pos[0]))))]
        if short == "abs" and len(pos) == 1 and not isinstance(fv, FuncRef):
            return [(frozenset(), abs_of(self.as_num(pos[0], node, ctx)))]
        if short == "sum" and len(pos) >= 1 and not isinstance(fv, FuncRef):
            v = pos[0]
            if isinstance(v, Seq):
                t = ("sum", v.it, v.elt) if not v.filt else ("sum", v.it, v.elt, v.filt)
                return [(frozenset(), Rat.atom(t))]
            if isinstance(v, Tup):
                acc = Rat.const(0)
                for i in v.items:
                    acc = acc + self.as_num(i, node, ctx)
                return [(frozenset(), acc)]
            return [(frozenset(), Rat.atom(("sum", as_term(v), None)))]
        if short == "any" and len(pos) == 1 and isinstance(pos[0], Seq) and isinstance(pos[0].elt, BoolElt) and not isinstance(fv, FuncRef):
            c = Cond("true", ("any", pos[0].it, frozenset(pos[0].elt.conds | pos[0].filt)))
            return [(cc, Lit(truth)) for truth, cc in self._split(c)]
        if short == "len" and len(pos) == 1 and isinstance(pos[0], Seq) and not isinstance(fv, FuncRef):
            t = ("sum", pos[0].it, Rat.const(1)) if not pos[0].filt else ("sum", pos[0].it, Rat.const(1), pos[0].filt)
            return [(frozenset(), Rat.atom(t))]
        if short == "len" and len(pos) == 1:
            return [(frozenset(), Rat.atom(("len", as_term(pos[0]))))]
        if short == "round" and not isinstance(fv, FuncRef):
            if len(pos) == 1:
                return [(frozenset(), Rat.atom(("round", self.as_num(pos[0], node, ctx), "HALF_EVEN")))]
            return [(frozenset(), Rat.atom(("round", self.as_num(pos[0], node, ctx), as_term(pos[1]))))]
        if nm in ("math.sqrt", "Decimal.sqrt", "np.sqrt", "numpy.sqrt") and len(pos) == 1:
            return [(frozenset(), Rat.atom(("sqrt", self.as_num(pos[0], node, ctx))))]
        if nm in ("math.log", "np.log") and len(pos) in (1, 2):
            return [(frozenset(), Rat.atom(("log",) + tuple(self.as_num(p, node, ctx) for p in pos)))]
        if nm in ("math.floor",) and len(pos) == 1:
            return [(frozenset(), floor_of(self.as_num(pos[0], node, ctx)))]
        if nm in ("math.ceil",) and len(pos) == 1:
            return [(frozenset(), Rat.atom(("ceil", self.as_num(pos[0], node, ctx))))]
        if nm in ("math.pow", "pow") and len(pos) == 2:
            return [(frozenset(), self.binop(ast.Pow(), self.as_num(pos[0], node, ctx), self.as_num(pos[1], node, ctx), node))]
        if nm in ("copy.copy", "copy.deepcopy", "deepcopy") and len(pos) == 1 and isinstance(pos[0], (Obj, Tup)) and not kw:
            # a copy of a record / display built in this function is a new object with the same fields (records are
            # values here; sharing of such objects between iterations is the loop-sharing rule's business)
            return [(frozenset(), pos[0])]
        if short == "isinstance":
            cls_txt = ast.unparse(node.args[1]) if len(node.args) > 1 else "?"
            if isinstance(pos[0], Tup) and getattr(pos[0], "lit", None) == "list" and cls_txt in ("list", "List"):
                return [(frozenset(), Lit(True))]
            # the class tested is part of the predicate
            return [(frozenset(), Rat.atom(("isinstance", as_term(pos[0]), cls_txt)))]
        if short in ("list", "tuple") and len(pos) == 1 and not isinstance(fv, FuncRef):
            if isinstance(pos[0], (Tup, Seq)):
                return [(frozenset(), pos[0])]
            # a snapshot copy of a live container is not the container itself
            return [(frozenset(), Rat.atom((short, as_term(pos[0]))))]
        if short == "sorted" and len(pos) == 1 and not kw and isinstance(pos[0], Tup) and not isinstance(fv, FuncRef):
            return [(frozenset(), SortedTup(pos[0].items))]
        if isinstance(fv, FuncRef):
            f = fv.func
            if f.qualname in self.extern:
                return [(frozenset(), self.extern[f.qualname])]
            if f.qualname in self.opaque or f.name in self.opaque or ctx.depth >= MAX_DEPTH:
                params = f.params[1:] if (f.is_method or f.is_classmethod) else list(f.params)
                bound = {}
                for i, v in enumerate(pos):
                    bound[i] = v
                for k_, v in kw.items():
                    bound[params.index(k_) if k_ in params else k_] = v
                # canonical in parameter names: arguments are identified by position
                cat = Rat.atom(("call", f.qualname) + tuple((k_, as_term(v)) for k_, v in
                                                             sorted(bound.items(), key=lambda kv: str(kv[0]))))
                n_ret = _tuple_arity(f)
                if n_ret:
                    # the callee returns an n-tuple on every path: `return g(...)` and `a, b = g(...); return a, b` agree
                    ct = as_term(cat)
                    return [(frozenset(), Tup([Rat.atom(("item", ct, i)) for i in range(n_ret)]))]
                return [(frozenset(), cat)]
            return self.inline_alts(f, fv.selfv, fv.selfcls, pos, kw, ctx, node)
        if isinstance(fv, ClsRef):
            return [(frozenset(), self.construct(fv.cls, pos, kw, ctx))]
        if isinstance(fv, Rat):
            a = fv.single_atom()
            if isinstance(a, tuple) and a[0] == "attr":
                # method call on a value (pandas / numpy vocabulary): canonical in receiver and arguments
                self.unknown_calls["." + a[2]] = self.unknown_calls.get("." + a[2], 0) + 1
                return [(frozenset(), Rat.atom(("m", a[2], a[1]) + tuple(as_term(p) for p in pos)
                                                + tuple((k, as_term(v)) for k, v in sorted(kw.items()))))]
        self.unknown_calls[nm] = self.unknown_calls.get(nm, 0) + 1
        return [(frozenset(), Rat.atom(("call", nm) + tuple(as_term(p) for p in pos)
                                        + tuple((k, as_term(v)) for k, v in sorted(kw.items()))))]

    def construct(self, cls: ClassInfo, pos, kw, ctx):
        """Dataclass / NamedTuple construction: remember the fields."""
        names = list(cls.field_ann.keys())
        for k in self.model.mro(cls)[1:]:
            names = [n for n in k.field_ann.keys() if n not in names] + names
        init = self.model.find_method(cls, "__init__")
        if init is not None and not cls.is_dataclass:
            names = init.params[1:]
        elif init is None and not cls.is_dataclass and not names:
            new = self.model.find_method(cls, "__new__")
            if new is not None:
                names = new.params[1:]      # e.g. UnitDecimal.__new__(cls, number, unit, output_format)
        fields = {}
        for i, v in enumerate(pos):
            fields[names[i] if i < len(names) else f"_{i}"] = v     # never drop an argument
        fields.update(kw)
        if cls.is_dataclass:
            # a field left to its default_factory gets its own new object: `Snapshot(...)` and
            # `Snapshot(..., market_status=MarketDict())` are the same construction
            for k in self.model.mro(cls):
                for st in k.node.body:
                    if isinstance(st, ast.AnnAssign) and isinstance(st.target, ast.Name) and st.target.id not in fields \
                            and isinstance(st.value, ast.Call) and ast.unparse(st.value.func).split(".")[-1] == "field":
                        fac = next((w.value for w in st.value.keywords if w.arg == "default_factory"), None)
                        if isinstance(fac, ast.Name):
                            if fac.id == "dict":
                                fields[st.target.id] = Obj("dict", {})
                            elif fac.id == "list":
                                fields[st.target.id] = Tup([], lit="list")
                            elif fac.id in self.model.classes:
                                fields[st.target.id] = Obj(fac.id, {})
        obj = Obj(cls.name, fields)
        post = self.model.find_method(cls, "__post_init__") if cls.is_dataclass else None
        if post is not None:
            # the generated __init__ calls __post_init__(self): what it stores into the fields IS the constructed value
            for st in cls.node.body:
                if isinstance(st, ast.AnnAssign) and isinstance(st.target, ast.Name) and st.target.id not in obj.fields and st.value is not None \
                        and not (isinstance(st.value, ast.Call) and ast.unparse(st.value.func).split(".")[-1] == "field"):
                    dv = self.ev(st.value, {}, ctx)
                    if len(dv) == 1 and not dv[0][0]:
                        obj.fields[st.target.id] = dv[0][1]
            sub = Ctx(post, ctx.depth + 1, cls)
            outs = [o for o in self.exec_block(post.node.body, [(frozenset(), {post.params[0]: obj}, None)], sub) if not isinstance(o[2], Raise)]
            if len(outs) != 1 or outs[0][0]:
                raise Unreadable(f"{cls.name}.__post_init__ distinguishes cases")
            res_obj = outs[0][1].get(post.params[0])
            if not isinstance(res_obj, Obj):
                raise Unreadable(f"{cls.name}.__post_init__ result")
            return res_obj
        return obj

    def inline_alts(self, f: FuncInfo, selfv, selfcls, pos, kw, ctx, node):
        params = f.params[1:] if (f.is_method or f.is_classmethod) else list(f.params)
        args = {}
        for p, v in zip(params, pos):
            args[p] = v
        for k, v in kw.items():
            args[k] = v
        self.inlined.append(f.qualname)
        sub_ctx_self = selfcls
        paths = self._function_paths_ctx(f, args, selfv, ctx.depth + 1, sub_ctx_self)
        return [(c, v) for c, v in paths]

    def inline(self, f, selfv, selfcls, pos, kw, ctx, node, single=False):
        alts = self.inline_alts(f, selfv, selfcls, pos, kw, ctx, node)
        if single:
            if len(alts) != 1 or alts[0][0]:
                return Rat.atom(("prop", f.qualname))
            return alts[0][1]
        return alts

    def _function_paths_ctx(self, f, args, selfv, depth, selfcls):
        env: Dict[str, object] = {}
        for p in f.params + f.kwonly + [x for x in (f.vararg, f.kwarg) if x]:
            if p == "self" and f.is_method:
                env[p] = selfv if selfv is not None else sym("self")
            elif p in args:
                env[p] = args[p]
            elif p in f.defaults and depth > 0:
                dv = self._default(f, p)
                env[p] = dv if dv is not None else sym(p)
            else:
                env[p] = sym(p)
        ctx = Ctx(f, depth, selfcls)
        _cover.deep(f)
        outs = []
        for (conds, env2, ret) in self.exec_block(f.node.body, [(frozenset(), env, None)], ctx):
            outs.append((conds, ret if ret is not None else NONE))
        return outs


class Ctx:
    __slots__ = ("f", "depth", "selfcls", "fx")

    def __init__(self, f: FuncInfo, depth: int, selfcls=None, fx=None):
        self.f = f
        self.depth = depth
        self.selfcls = selfcls
        # are effects of this frame recorded?  (the analysed function, and helpers it calls at statement level)
        self.fx = (depth == 0) if fx is None else fx


class Lit:
    __slots__ = ("v",)

    def __init__(self, v):
        self.v = v

    def __eq__(self, o):
        return isinstance(o, Lit) and type(o.v) == type(self.v) and o.v == self.v

    def __hash__(self):
        return hash(("lit", self.v))

    def __repr__(self):
        return repr(self.v)


class _None:
    def __repr__(self):
        return "None"


NONE = _None()


class Str:
    __slots__ = ("parts",)

    def __init__(self, parts):
        self.parts = parts

    def __eq__(self, o):
        return isinstance(o, Str) and o.parts == self.parts

    def __hash__(self):
        return hash(self.parts)

    def __repr__(self):
        return "f" + srepr(self.parts)


class Seq:
    __slots__ = ("it", "elt", "filt")

    def __init__(self, it, elt, filt=frozenset()):
        self.it, self.elt, self.filt = it, elt, filt

    def __eq__(self, o):
        return isinstance(o, Seq) and (self.it, self.elt, self.filt) == (o.it, o.elt, o.filt)

    def __hash__(self):
        return hash((self.it, self.elt, self.filt))

    def __repr__(self):
        return f"[{self.elt!r} for _ in {srepr(self.it)}" + (f" if {srepr(self.filt)}" if self.filt else "") + "]"


class BoolElt:
    """Element of a boolean comprehension: the conjunction of conditions under which it is true."""
    __slots__ = ("conds",)

    def __init__(self, conds):
        self.conds = conds

    def __eq__(self, o):
        return isinstance(o, BoolElt) and self.conds == o.conds

    def __hash__(self):
        return hash(self.conds)

    def __repr__(self):
        return f"<{sorted(map(repr, self.conds))}>"


class Obj:
    __slots__ = ("cls", "fields")

    def __init__(self, cls, fields):
        self.cls, self.fields = cls, fields

    def __eq__(self, o):
        return isinstance(o, Obj) and self.cls == o.cls and self.fields == o.fields

    def __hash__(self):
        return hash((self.cls, tuple(sorted(self.fields.items(), key=lambda kv: kv[0]))))

    def __repr__(self):
        return f"{self.cls}({', '.join(f'{k}={srepr(v)}' for k, v in sorted(self.fields.items()))})"


class ClsRef:
    __slots__ = ("cls",)

    def __init__(self, cls):
        self.cls = cls

    def __repr__(self):
        return f"<class {self.cls.name}>"


class ModRef:
    __slots__ = ("mod",)

    def __init__(self, mod):
        self.mod = mod

    def __repr__(self):
        return f"<module {getattr(self.mod, 'name', self.mod)}>"

    def __eq__(self, o):
        return isinstance(o, ModRef) and getattr(self.mod, "name", self.mod) == getattr(o.mod, "name", o.mod)

    def __hash__(self):
        return hash(("ModRef", getattr(self.mod, "name", None)))


class FuncRef:
    __slots__ = ("func", "selfv", "selfcls")

    def __init__(self, func, selfv=None, selfcls=None):
        self.func, self.selfv, self.selfcls = func, selfv, selfcls

    def __repr__(self):
        return f"<func {self.func.qualname}>"


def _same_value(a, b) -> bool:
    if a is b:
        return True
    try:
        if isinstance(a, Rat) and isinstance(b, Rat):
            return a == b
        return type(a) == type(b) and a == b
    except Exception:
        return False


def _maybe_none(v) -> bool:
    """Plain symbols / loads may be None; computed expressions are not."""
    if isinstance(v, Rat):
        a = v.single_atom()
        return isinstance(a, tuple) and a[0] in ("sym", "attr", "idx", "item", "call", "m", "loopvar")
    return False


_ARITY: Dict[int, int] = {}


def _tuple_arity(f: FuncInfo) -> int:
    """n when every `return` of f (nested functions aside) is a tuple display of the same length n >= 2, else 0."""
    k = id(f.node)
    if k in _ARITY:
        return _ARITY[k]
    lens = set()
    stack = list(f.node.body)
    while stack:
        n = stack.pop()
        if isinstance(n, (ast.FunctionDef, ast.AsyncFunctionDef, ast.Lambda, ast.ClassDef)):
            continue
        if isinstance(n, ast.Return):
            lens.add(len(n.value.elts) if isinstance(n.value, ast.Tuple) and not any(isinstance(e, ast.Starred) for e in n.value.elts) else -1)
        stack.extend(ast.iter_child_nodes(n))
    r = lens.pop() if len(lens) == 1 else 0
    r = r if r >= 2 else 0
    _ARITY[k] = r
    return r


def _trivial_getter(f: FuncInfo):
    body = [s for s in f.node.body if not (isinstance(s, ast.Expr) and isinstance(s.value, ast.Constant))]
    if len(body) == 1 and isinstance(body[0], ast.Return):
        v = body[0].value
        if isinstance(v, ast.Attribute) and isinstance(v.value, ast.Name) and v.value.id == "self":
            return v.attr
    return None


def _callname(node: ast.Call) -> str:
    try:
        return ast.unparse(node.func)
    except Exception:  # pragma: no cover
        return "?"


def _load(t):
    import copy

    n = copy.deepcopy(t)
    for x in ast.walk(n):
        if hasattr(x, "ctx"):
            x.ctx = ast.Load()
    return n


def _eq_const(c: "Cond"):
    """(truth, lhs-key, constant-key) for an opaque condition `lhs == <literal / enum constant>`, else None."""
    if c.op in ("true", "false") and isinstance(c.x, tuple) and len(c.x) == 4 and c.x[0] == "cmp" and c.x[1] == "Eq":
        l, r = c.x[2], c.x[3]
        for a, b in ((l, r), (r, l)):
            if isinstance(b, tuple) and len(b) == 2 and b[0] in ("obj", "lit") and not (isinstance(a, tuple) and len(a) == 2 and a[0] in ("obj", "lit")):
                if b[0] == "obj" and not (isinstance(b[1], str) and (b[1][:1] in "'\"" or b[1] in ("None", "True", "False") or b[1][:1].isdigit())):
                    continue
                return c.op == "true", srepr(a), srepr(b)
    return None


def _simplify_conds(conds: frozenset):
    """Drop guards implied by other guards of the same conjunction (x < 0 implies x <= 0; v == A implies v != B for
    distinct constants A, B).  Returns None when the conjunction is contradictory."""
    if _contradict(conds):
        return None
    out = set(conds)
    eqs = {}
    for c in conds:
        e = _eq_const(c)
        if e and e[0]:
            eqs[e[1]] = e[2]
    num_eqs = [c.x for c in conds if c.op == "==" and isinstance(c.x, Rat) and not c.x.is_const()]
    for c in conds:
        if c.op == "<=" and isinstance(c.x, Rat) and Cond("<", c.x) in conds:
            out.discard(c)
        if c.op == "!=" and isinstance(c.x, Rat):
            # v == A implies v != B
            for q in num_eqs:
                if any(d.is_const() and d.const_value() != 0 for d in (q - c.x, q + c.x)):
                    out.discard(c)
                    break
        e = _eq_const(c)
        if e and not e[0] and e[1] in eqs and eqs[e[1]] != e[2]:
            out.discard(c)
    return frozenset(out)


def _contradict(conds: frozenset) -> bool:
    """Cheap syntactic contradiction: c and not-c both present; x<0 with -x<0 / -x<=0 ... handled via negate();
    v == A together with v == B for distinct constants."""
    eqs = {}
    for c in conds:
        e = _eq_const(c)
        if e and e[0]:
            if eqs.setdefault(e[1], e[2]) != e[2]:
                return True
    # two equalities that pin the same expression to different constants (enum members folded to numbers)
    num_eqs = [c.x for c in conds if c.op == "==" and isinstance(c.x, Rat)]
    for i in range(len(num_eqs)):
        for j in range(i + 1, len(num_eqs)):
            for d in (num_eqs[i] - num_eqs[j], num_eqs[i] + num_eqs[j]):
                if d.is_const() and d.const_value() != 0 and not num_eqs[i].is_const():
                    return True
    # an element of an empty collection cannot satisfy anything: `any(... for x in X)` with X known empty
    anys = [c for c in conds if c.op == "true" and isinstance(c.x, tuple) and len(c.x) >= 2 and c.x[0] == "any"]
    if anys:
        empty = _known_empty(conds)
        if empty and any(_mentions(c.x[1], t) for c in anys for t in empty):
            return True
    for c in conds:
        try:
            if c.negate() in conds:
                return True
        except Unreadable:
            pass
        if c.op == "<" and isinstance(c.x, Rat) and Cond("<", -c.x) in conds:
            return True
        if c.op == "==" and Cond("<", c.x) in conds:
            return True
    return False


def floor_of(x: Rat) -> Rat:
    if x.is_const():
        import math

        return Rat.const(math.floor(x.const_value()))
    return Rat.atom(("floor", x))


def abs_of(x: Rat) -> Rat:
    if x.is_const():
        return Rat.const(abs(x.const_value()))
    k1, k2 = srepr(x), srepr(-x)
    return Rat.atom(("abs", x if k1 <= k2 else -x))


def _neg_abs(x: Rat) -> Rat:
    return Rat.const(-1) * abs_of(x)


def minmax(kind: str, xs: List[Rat]) -> Rat:
    flat = []
    for x in xs:
        a = x.single_atom()
        if a is not None and isinstance(a, tuple) and a[0] == kind:
            flat.extend(a[1])
        else:
            flat.append(x)
    uniq = []
    for x in flat:
        if not any(x == y for y in uniq):
            uniq.append(x)
    # absorption: min(x, max(x, y)) = x and max(x, min(x, y)) = x (the swap idiom applied twice produces these)
    other = "max" if kind == "min" else "min"
    kept = []
    for x in uniq:
        a = x.single_atom()
        if isinstance(a, tuple) and len(a) == 2 and a[0] == other and isinstance(a[1], frozenset) \
                and any(any(y == z for z in a[1]) for y in uniq if y is not x):
            continue
        kept.append(x)
    uniq = kept
    if len(uniq) == 1:
        return uniq[0]
    if all(u.is_const() for u in uniq):
        vals = [u.const_value() for u in uniq]
        return Rat.const(min(vals) if kind == "min" else max(vals))
    return Rat.atom((kind, frozenset(uniq)))


# ----------------------------------------------------------------- comparing
def canon_paths(paths):
    """Merge paths with equal results whose guards differ in exactly one complementary condition."""
    items = [(frozenset(c), v) for c, v in paths]
    changed = True
    while changed:
        changed = False
        n = len(items)
        for i in range(n):
            for j in range(i + 1, n):
                ci, vi = items[i]
                cj, vj = items[j]
                if not _val_eq(vi, vj):
                    continue
                if ci == cj:
                    items.pop(j)
                    changed = True
                    break
                d1, d2 = ci - cj, cj - ci
                if len(d1) == 1 and len(d2) == 1:
                    a, = d1
                    b, = d2
                    try:
                        if a.negate() == b:
                            items[i] = (ci & cj, vi)
                            items.pop(j)
                            changed = True
                            break
                    except Unreadable:
                        pass
                # subsumption: same value, one guard set included in the other -> keep the weaker... only if safe
            if changed:
                break
    return items


def _cond_var(c: "Cond"):
    """(variable, polarity): a condition and its negation are the two polarities of one boolean variable."""
    try:
        n = c.negate()
    except Unreadable:
        return c, True
    return (c, True) if srepr(c.key()) <= srepr(n.key()) else (n, False)


def _prime_implicants(on: set, dc: set, nvars: int):
    """Quine-McCluskey: all prime implicants of ON u DC that cover a minterm of ON.  Implicants are (mask, value) pairs:
    variables in `mask` are fixed to the bits of `value`.  The set of all prime implicants is canonical."""
    full = (1 << nvars) - 1
    cur = {(full, m) for m in on | dc}
    primes = set()
    while cur:
        nxt = set()
        used = set()
        lst = sorted(cur)
        by_mask = {}
        for mk, v in lst:
            by_mask.setdefault(mk, []).append(v)
        for mk, vals in by_mask.items():
            vs = set(vals)
            for v in vals:
                for bit in range(nvars):
                    bb = 1 << bit
                    if not mk & bb or v & bb:
                        continue
                    w = v | bb
                    if w in vs:
                        nxt.add((mk & ~bb, v))
                        used.add((mk, v))
                        used.add((mk, w))
        primes |= cur - used
        cur = nxt
    out = set()
    for mk, v in primes:
        if any((m & mk) == v for m in on):
            out.add((mk, v))
    return out


def _merge_rows(rows, max_vars: int = 10):
    """[(guards, payload)] -> a canonical description of the same case distinction: per payload, the set of ALL prime
    implicants of its guard function (minterms the guards contradict on are don't-cares).  The branching structure of the
    code (nesting, order of `and` / `or` operands, elif chains) therefore does not matter.  Falls back to pairwise
    merging over complementary guards when there are too many distinct conditions."""
    items = []
    for c, p in rows:
        c = _simplify_conds(frozenset(c))
        if c is not None:
            items.append((c, p))
    vars_ = []
    index = {}
    enc = []
    for c, p in items:
        lits = []
        for cond in c:
            v, pol = _cond_var(cond)
            k = v.key()
            if k not in index:
                index[k] = len(vars_)
                vars_.append(v)
            lits.append((index[k], pol))
        enc.append((lits, p))
    n = len(vars_)
    if 0 < n <= max_vars and len(items) > 1:
        feasible = {}

        def is_feasible(m):
            r = feasible.get(m)
            if r is None:
                cs = frozenset(vars_[i] if (m >> i) & 1 else vars_[i].negate() for i in range(n))
                r = not _contradict(cs)
                feasible[m] = r
            return r

        payloads = []
        on_sets = []
        for lits, p in enc:
            fixed_mask = 0
            fixed_val = 0
            bad = False
            for i, pol in lits:
                bit = 1 << i
                if fixed_mask & bit and bool(fixed_val & bit) != pol:
                    bad = True
                fixed_mask |= bit
                if pol:
                    fixed_val |= bit
            if bad:
                continue
            free = [i for i in range(n) if not fixed_mask & (1 << i)]
            ms = set()
            for comb in range(1 << len(free)):
                m = fixed_val
                for j, i in enumerate(free):
                    if (comb >> j) & 1:
                        m |= 1 << i
                ms.add(m)
            try:
                k = payloads.index(p)
                on_sets[k] |= ms
            except ValueError:
                payloads.append(p)
                on_sets.append(ms)
        allm = set(range(1 << n))
        dc = {m for m in allm if not is_feasible(m)}
        out = []
        for p, on in zip(payloads, on_sets):
            on = on - dc
            if not on:
                continue
            for mk, v in _prime_implicants(on, dc, n):
                cs = frozenset(vars_[i] if (v >> i) & 1 else vars_[i].negate() for i in range(n) if (mk >> i) & 1)
                cs = _simplify_conds(cs)
                if cs is not None:
                    out.append((cs, p))
        return out
    changed = True
    while changed:
        changed = False
        nn = len(items)
        for i in range(nn):
            for j in range(i + 1, nn):
                ci, pi = items[i]
                cj, pj = items[j]
                if pi != pj:
                    continue
                if ci == cj:
                    items.pop(j)
                    changed = True
                    break
                d1, d2 = ci - cj, cj - ci
                if len(d1) == 1 and len(d2) == 1:
                    a, = d1
                    b, = d2
                    try:
                        if a.negate() == b:
                            items[i] = (ci & cj, pi)
                            items.pop(j)
                            changed = True
                            break
                    except Unreadable:
                        pass
            if changed:
                break
    return items


def _val_eq(a, b) -> bool:
    if isinstance(a, Rat) and isinstance(b, Rat):
        return a == b
    if isinstance(a, Tup) and isinstance(b, Tup):
        return len(a.items) == len(b.items) and all(_val_eq(x, y) for x, y in zip(a.items, b.items))
    if isinstance(a, Obj) and isinstance(b, Obj):
        return a.cls == b.cls and a.fields.keys() == b.fields.keys() and all(
            _val_eq(a.fields[k], b.fields[k]) for k in a.fields)
    return a == b


_SELF_ONLY = {}


def _self_only_key(k) -> bool:
    if not (isinstance(k, str) and k.startswith("@self.")):
        return False
    r = _SELF_ONLY.get(k)
    if r is None:
        try:
            r = {n.id for n in ast.walk(ast.parse(k[1:], mode="eval")) if isinstance(n, ast.Name)} == {"self"}
        except SyntaxError:
            r = False
        _SELF_ONLY[k] = r
    return r


def simplify_under(v, conds):
    """Rewrite abs / min / max atoms - at any nesting depth, also inside floor/int/call atoms - whose case is decided by
    the guards `conds` (so that `a-b if a>b else b-a`, written as an if/else statement on one side and as abs() on the
    other, compare equal)."""
    if not isinstance(v, Rat):
        if isinstance(v, Tup):
            return Tup([simplify_under(x, conds) for x in v.items])
        if isinstance(v, Obj):
            return Obj(v.cls, {k: simplify_under(x, conds) for k, x in v.fields.items()})
        return v
    from .norm import all_atoms_deep
    if not any(isinstance(a, tuple) and a and a[0] in ("abs", "min", "max") for a in all_atoms_deep(v)):
        return v
    known = set()
    known_rats = []
    for c in conds:
        if c.op in ("<", "<=") and isinstance(c.x, Rat):
            known.add(c.x.key())
            known_rats.append(c.x)
    if not known:
        return v

    def neg_or_zero(x: Rat):  # x <= 0 known ?
        return x.key() in known

    memo = {}

    def s_any(x):
        if isinstance(x, Rat):
            return s_rat(x)
        if isinstance(x, frozenset):
            return frozenset(s_any(y) for y in x)
        if isinstance(x, tuple):
            return tuple(s_any(y) for y in x)
        return x

    def s_atom(a) -> Rat:
        if a in memo:
            return memo[a]
        out = None
        if isinstance(a, tuple) and a and isinstance(a[0], str):
            if a[0] == "abs" and len(a) == 2 and isinstance(a[1], Rat):
                x = s_rat(a[1])
                if neg_or_zero(-x):      # -x <= 0  => x >= 0
                    out = x
                elif neg_or_zero(x):     # x <= 0
                    out = -x
                else:
                    out = abs_of(x)
            elif a[0] in ("min", "max") and len(a) == 2 and isinstance(a[1], frozenset) and all(isinstance(i, Rat) for i in a[1]):
                items = sorted((s_rat(i) for i in a[1]), key=repr)
                changed = True
                while changed and len(items) > 1:
                    changed = False
                    for i, p in enumerate(items):
                        for j, q in enumerate(items):
                            if i != j and neg_or_zero(p - q):      # p <= q: q never the min, p never the max
                                items.pop(j if a[0] == "min" else i)
                                changed = True
                                break
                        if changed:
                            break
                # a fact about a NESTED extremum that flattening absorbed: p <= max(S) with S inside this max makes p
                # redundant (max(S u {p}) = max(S)); dually min(S) <= p inside a min
                if len(items) > 2:
                    for x in known_rats:
                        for p in list(items):
                            if len(items) <= 2:
                                break
                            rest = [q for q in items if q is not p]
                            d = (x - p) if a[0] == "max" else (x + p)      # x = p - M  /  x = m - p
                            m_at = (-d).single_atom() if a[0] == "max" else d.single_atom()
                            if isinstance(m_at, tuple) and len(m_at) == 2 and m_at[0] == a[0] and isinstance(m_at[1], frozenset) \
                                    and all(any(e == q for q in rest) for e in m_at[1]):
                                items = rest
                out = minmax(a[0], items)
            else:
                na = s_any(a)
                out = Rat.atom(na)
        if out is None:
            out = Rat.atom(a)
        memo[a] = out
        return out

    def sp(poly):
        out = Rat.const(0)
        for m, c in poly.t.items():
            term = Rat.const(c)
            for at, e in m:
                term = term * (s_atom(at) ** e)
            out = out + term
        return out

    def s_rat(r: Rat) -> Rat:
        if not any(isinstance(a, tuple) for a in r.atoms()):
            return r
        return sp(r.n) / sp(r.d)

    return s_rat(v)


def compatible(c1: frozenset, c2: frozenset) -> bool:
    """Can the two guard conjunctions hold together?  (Over-approximation: only syntactic contradictions are found.)"""
    return not _contradict(c1 | c2)


def pairwise_conflict(paths_a, paths_b, same_outcome):
    """Both path lists partition the input space of a total function.  The functions are equal iff every pair of
    paths that can hold together has the same outcome.  Returns the first conflicting pair or None."""
    for (ca, oa) in paths_a:
        for (cb, ob) in paths_b:
            if not same_outcome(oa, ob) and compatible(ca, cb):
                both = ca | cb
                try:
                    # guards mentioning abs/min/max whose case the other guards decide
                    simp = frozenset(Cond(c.op, simplify_under(c.x, both - {c})) if isinstance(c.x, Rat) else c for c in both)
                    if simp != both and _contradict(simp):
                        continue
                except Exception:
                    pass
                try:
                    sa, sb = _simplify_outcome(oa, both), _simplify_outcome(ob, both)
                    if same_outcome(sa, sb):
                        continue
                except Exception:
                    pass
                return (ca, oa), (cb, ob)
    return None


FX_STRUCT: Dict[str, object] = {}     # repr(effect) -> effect, filled by rules/formula._sig


def _known_empty(conds):
    """Terms T such that the guards imply len(T) == 0 (len is a non-negative integer)."""
    out = []
    for c in conds:
        if c.op == "false" and isinstance(c.x, tuple) and c.x and c.x[0] in ("attr", "sym", "idx", "item"):
            out.append(c.x)          # `not X` for a container X: X is empty (iterating a falsy value yields nothing)
            continue
        if c.op not in ("<", "<=", "==") or not isinstance(c.x, Rat) or not c.x.d.is_const():
            continue
        n = c.x.n
        lens = [m for m in n.t if m != ()]
        if len(lens) != 1 or len(lens[0]) != 1 or lens[0][0][1] != 1:
            continue
        at = lens[0][0][0]
        if not (isinstance(at, tuple) and len(at) == 2 and at[0] == "len"):
            continue
        a = n.t[lens[0]] / c.x.d.const_value()
        b = n.const_value() / c.x.d.const_value()
        if a <= 0:
            continue
        bound = -b / a          # len  op  bound
        if (c.op == "<" and bound <= 1) or (c.op == "<=" and bound < 1) or (c.op == "==" and bound == 0):
            out.append(at[1])
    return out


def _mentions(term, t) -> bool:
    if term == t:
        return True
    if isinstance(term, (tuple, frozenset)):
        return any(_mentions(x, t) for x in term)
    return False


def _empty_range_loops(v, conds):
    """afterloop(...) values of a loop over range(lo, hi) (or a collection) that the guards prove empty are the
    variables' initial values."""
    from .norm import all_atoms_deep
    if isinstance(v, Tup):
        return Tup([_empty_range_loops(x, conds) for x in v.items], lit=getattr(v, "lit", None))
    if not isinstance(v, Rat):
        return v
    targets = [a for a in all_atoms_deep(v) if isinstance(a, tuple) and len(a) == 4 and a[0] == "afterloop"]
    if not targets:
        return v
    known_neg = [(c.op, c.x) for c in conds if c.op in ("<", "<=") and isinstance(c.x, Rat)]
    empties = _known_empty(conds)
    mapping = {}
    for a in targets:
        src = a[1]
        if not (isinstance(src, tuple) and len(src) == 4 and src[0] == "loop" and src[3] is None):
            continue
        it = src[1]
        empty = any(_mentions(it, t) for t in empties)
        if not empty and isinstance(it, tuple) and len(it) == 2 and it[0] == "iter" and isinstance(it[1], tuple) and it[1] \
                and it[1][0] == "call" and it[1][1] == "range":
            args = [x[1] if isinstance(x, tuple) and len(x) == 2 and not isinstance(x[0], str) else x for x in it[1][2:]]
            rs = []
            for x in args:
                if isinstance(x, tuple) and x and x[0] == "expr":
                    x = x[1]
                rs.append(x if isinstance(x, Rat) else (Rat.atom(x) if isinstance(x, tuple) else None))
            if all(r is not None for r in rs) and len(rs) in (1, 2):
                lo, hi = (Rat.const(0), rs[0]) if len(rs) == 1 else (rs[0], rs[1])
                span = hi - lo
                for op, x in known_neg:
                    # span <= 0, or (integers) span - 1 < 0
                    if (op == "<=" and x == span) or (op == "<" and (x == span - Rat.const(1) or x == span)):
                        empty = True
        if empty:
            init = src[2][a[3]]
            if isinstance(init, tuple) and init and init[0] == "expr":
                init = init[1]
            mapping[a] = init if isinstance(init, Rat) else Rat.atom(init)
    if not mapping:
        return v
    from .rules.sign import subst
    try:
        return subst(v, mapping)
    except Exception:  # noqa
        return v


def _simplify_outcome(o, conds):
    if not (isinstance(o, tuple) and len(o) == 2 and isinstance(o[0], frozenset)):
        o = _empty_range_loops(o, conds)
    if isinstance(o, tuple) and len(o) == 2 and isinstance(o[0], frozenset):
        fx = o[0]
        empty = _known_empty(conds)
        if empty:
            # a per-element block over a collection the guards prove empty runs zero times
            keep = []
            for item in fx:
                e = FX_STRUCT.get(item[0][4:] if item[0][:3].isdigit() else item[0])
                if isinstance(e, tuple) and e and e[0] == "foreach" and any(_mentions(e[1], t) for t in empty):
                    continue
                keep.append(item)
            fx = frozenset(keep)
        # abs / min / max inside effect arguments whose case the joint guards decide
        if any(("min" in it[0] or "max" in it[0] or "abs" in it[0]) for it in fx):
            nfx = []
            for item in fx:
                txt = item[0]
                pre, body = (txt[:4], txt[4:]) if txt[:3].isdigit() else ("", txt)
                e = FX_STRUCT.get(body)
                if e is None or not ("min" in body or "max" in body or "abs" in body):
                    nfx.append(item)
                    continue
                try:
                    e2 = _simplify_term(e, conds)
                    FX_STRUCT.setdefault(srepr(e2), e2)
                    nfx.append((pre + srepr(e2),) + tuple(item[1:]))
                except Exception:  # noqa
                    nfx.append(item)
            fx = frozenset(nfx)
        return (fx, simplify_under(o[1], conds))      # (effects signature, result): effects are compared as text
    return simplify_under(o, conds)


def _simplify_term(t, conds):
    if isinstance(t, Rat):
        return simplify_under(t, conds)
    if isinstance(t, (Tup, Obj)):
        return simplify_under(t, conds)
    if isinstance(t, tuple):
        if t and t[0] in ("min", "max", "abs") and len(t) == 2:
            r = simplify_under(Rat.atom(t), conds)
            return as_term(r)
        return tuple(_simplify_term(x, conds) for x in t)
    if isinstance(t, frozenset):
        return frozenset(_simplify_term(x, conds) for x in t)
    return t


def same_function(p1, p2):
    """Compare two canonical path lists.  Returns (equal, explanation).  First the syntactic comparison of the merged
    path sets; if that fails, the semantic pairwise criterion (guard structure may differ as long as no two
    simultaneously satisfiable paths disagree)."""
    ok, why = _same_function_syntactic(p1, p2)
    if ok:
        return True, ""
    conflict = pairwise_conflict([(frozenset(c), v) for c, v in p1], [(frozenset(c), v) for c, v in p2], _val_eq)
    if conflict is None:
        return True, ""
    (ca, oa), (cb, ob) = conflict
    only_a = sorted(repr(x)[:140] for x in ca - cb)[:3]
    only_b = sorted(repr(x)[:140] for x in cb - ca)[:3]
    return False, (f"under guards {sorted(repr(x)[:120] for x in ca & cb)[:3]} (+code {only_a}, +reference {only_b}) the code yields "
                   f"{repr(oa)[:400]} but the reference {repr(ob)[:400]}")


def _same_function_syntactic(p1, p2):
    a, b = canon_paths(p1), canon_paths(p2)
    un_a = []
    rest = list(b)
    for (c, v) in a:
        hit = None
        for k, (c2, v2) in enumerate(rest):
            if c == c2 and _val_eq(v, v2):
                hit = k
                break
        if hit is None:
            un_a.append((c, v))
        else:
            rest.pop(hit)
    if not un_a and not rest:
        return True, ""
    msg = []
    for c, v in un_a[:3]:
        msg.append(f"code path  {sorted(map(repr, c))} -> {v!r}")
    for c, v in rest[:3]:
        msg.append(f"reference  {sorted(map(repr, c))} -> {v!r}")
    return False, "; ".join(msg)
