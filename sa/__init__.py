"""sa -- repository-specific static analysis for zelos-alpha/demeter.

Everything in this package parses the working tree with ``ast``; nothing is
imported from ``demeter`` and nothing from the repository is executed.
"""
