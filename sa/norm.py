"""Canonical rational normal forms over atoms (hand-rolled; sympy is not in /venv).

Rat = Poly / Poly, Poly = {monomial: Fraction}, monomial = sorted tuple of (atom, exponent).
Atoms are hashable terms: ('sym', name), ('attr', term, name), ('idx', term, key), or structured operators whose
arguments are canonical keys: ('floor', key), ('min', frozenset(keys)), ('abs', key), ('sqrt', key), ...
Equality of two Rats is decided exactly by cross-multiplication of polynomials.
"""
from __future__ import annotations

from decimal import Decimal
from fractions import Fraction
from typing import Dict, Iterable, Tuple


def _mono_key(m):
    return tuple((repr(a), e) for a, e in m)


class Poly:
    __slots__ = ("t",)

    def __init__(self, terms: Dict[tuple, Fraction] = None):
        self.t = {m: c for m, c in (terms or {}).items() if c != 0}

    @staticmethod
    def const(c) -> "Poly":
        c = Fraction(c)
        return Poly({(): c}) if c != 0 else Poly()

    @staticmethod
    def atom(a) -> "Poly":
        return Poly({((a, 1),): Fraction(1)})

    def is_zero(self):
        return not self.t

    def is_const(self):
        return all(m == () for m in self.t)

    def const_value(self) -> Fraction:
        return self.t.get((), Fraction(0))

    def __add__(self, o: "Poly") -> "Poly":
        r = dict(self.t)
        for m, c in o.t.items():
            r[m] = r.get(m, 0) + c
        return Poly(r)

    def __neg__(self):
        return Poly({m: -c for m, c in self.t.items()})

    def __sub__(self, o):
        return self + (-o)

    def __mul__(self, o: "Poly") -> "Poly":
        r: Dict[tuple, Fraction] = {}
        for m1, c1 in self.t.items():
            for m2, c2 in o.t.items():
                m = _mul_mono(m1, m2)
                r[m] = r.get(m, 0) + c1 * c2
        return Poly(r)

    def __eq__(self, o):
        return isinstance(o, Poly) and self.t == o.t

    def __hash__(self):
        return hash(self.key())

    def key(self):
        return tuple(sorted(((_mono_key(m), c) for m, c in self.t.items()), key=repr))

    def atoms(self):
        out = set()
        for m in self.t:
            for a, e in m:
                out.add(a)
        return out

    def scale(self, c: Fraction) -> "Poly":
        return Poly({m: v * c for m, v in self.t.items()})

    def content(self) -> Fraction:
        """gcd-like content so that the primitive part has coprime integer coefficients, sign of the leading term +"""
        if not self.t:
            return Fraction(1)
        from math import gcd

        nums = [abs(c.numerator) for c in self.t.values()]
        dens = [c.denominator for c in self.t.values()]
        g = 0
        for n in nums:
            g = gcd(g, n)
        l = 1
        for d in dens:
            l = l * d // gcd(l, d)
        lead = sorted(self.t.items(), key=lambda kv: repr(_mono_key(kv[0])))[-1][1]
        sign = -1 if lead < 0 else 1
        return Fraction(g, l) * sign

    def common_monomial(self) -> tuple:
        if not self.t:
            return ()
        ms = list(self.t)
        common = dict(ms[0])
        for m in ms[1:]:
            d = dict(m)
            for a in list(common):
                if a in d:
                    common[a] = min(common[a], d[a])
                else:
                    del common[a]
        return tuple(sorted(((a, e) for a, e in common.items() if e > 0), key=lambda x: repr(x[0])))

    def div_monomial(self, mono: tuple) -> "Poly":
        d = dict(mono)
        out = {}
        for m, c in self.t.items():
            mm = dict(m)
            for a, e in d.items():
                mm[a] -= e
            out[tuple(sorted(((a, e) for a, e in mm.items() if e != 0), key=lambda x: repr(x[0])))] = c
        return Poly(out)

    def __repr__(self):
        if not self.t:
            return "0"
        parts = []
        for m, c in sorted(self.t.items(), key=lambda kv: repr(_mono_key(kv[0]))):
            ms = "*".join((fmt_atom(a) + (f"^{e}" if e != 1 else "")) for a, e in m)
            if not ms:
                parts.append(str(c))
            elif c == 1:
                parts.append(ms)
            elif c == -1:
                parts.append("-" + ms)
            else:
                parts.append(f"{c}*{ms}")
        return " + ".join(parts).replace("+ -", "- ")


def _mul_mono(m1, m2):
    if not m1:
        return m2
    if not m2:
        return m1
    d = dict(m1)
    for a, e in m2:
        d[a] = d.get(a, 0) + e
    return tuple(sorted(((a, e) for a, e in d.items() if e != 0), key=lambda x: repr(x[0])))


def fmt_atom(a) -> str:
    if isinstance(a, tuple):
        if not a or not isinstance(a[0], str):
            return "(" + ", ".join(fmt_atom(x) for x in a) + ")"
        if a[0] == "sym":
            return a[1]
        if a[0] == "attr":
            return fmt_atom(a[1]) + "." + a[2]
        if a[0] == "idx":
            return fmt_atom(a[1]) + "[" + (fmt_atom(a[2]) if isinstance(a[2], tuple) else repr(a[2])) + "]"
        if a[0] in ("min", "max"):
            return a[0] + "(" + ", ".join(sorted(fmt_key(k) for k in a[1])) + ")"
        return a[0] + "(" + ", ".join(fmt_key(x) if isinstance(x, (tuple, frozenset, set, list, dict)) else repr(x) for x in a[1:]) + ")"
    return srepr(a)


def srepr(x) -> str:
    """repr with a deterministic rendering of (frozen)sets at any depth: two equal terms always print the same text,
    whatever the insertion history or the hash seed (terms are compared through their text in several places)."""
    if isinstance(x, tuple):
        return "(" + ", ".join(srepr(e) for e in x) + ("," if len(x) == 1 else "") + ")"
    if isinstance(x, (frozenset, set)):
        return "{" + ", ".join(sorted(srepr(e) for e in x)) + "}"
    if isinstance(x, list):
        return "[" + ", ".join(srepr(e) for e in x) + "]"
    if isinstance(x, dict):
        return "{" + ", ".join(sorted(srepr(k) + ": " + srepr(v) for k, v in x.items())) + "}"
    return repr(x)


def fmt_key(k) -> str:
    if isinstance(k, (frozenset, set, list, dict)):
        return srepr(k)
    if isinstance(k, tuple) and len(k) == 3 and k[0] == "rat":
        return _fmt_polykey(k[1]) + ("" if k[2] == ((((), Fraction(1))),) or k[2] == (((), Fraction(1)),) else " / (" + _fmt_polykey(k[2]) + ")")
    if isinstance(k, tuple):
        return fmt_atom(k)
    return repr(k)


def _fmt_polykey(pk) -> str:
    parts = []
    for mk, c in pk:
        ms = "*".join(f"{a}" + (f"^{e}" if e != 1 else "") for a, e in mk)
        parts.append((f"{c}*" if c != 1 or not ms else "") + ms if ms else str(c))
    return " + ".join(parts) if parts else "0"


class Rat:
    __slots__ = ("n", "d")

    def __init__(self, n: Poly, d: Poly = None):
        d = d if d is not None else Poly.const(1)
        if d.is_zero():
            raise ZeroDivisionError("symbolic division by zero")
        # cancel monomial and numeric content
        if n.is_zero():
            self.n, self.d = Poly(), Poly.const(1)
            return
        cn, cd = n.content(), d.content()
        n = n.scale(1 / cn)
        d = d.scale(1 / cd)
        c = cn / cd
        mn, md = n.common_monomial(), d.common_monomial()
        if mn and md:
            dn, dd = dict(mn), dict(md)
            common = tuple(sorted(((a, min(e, dd[a])) for a, e in dn.items() if a in dd), key=lambda x: repr(x[0])))
            if common:
                n = n.div_monomial(common)
                d = d.div_monomial(common)
        if n == d:
            n, d = Poly.const(1), Poly.const(1)
        elif n == -d:
            n, d = Poly.const(-1), Poly.const(1)
        # numeric content lives in the numerator; denominator primitive with positive lead
        self.n = n.scale(c)
        self.d = d

    @staticmethod
    def const(c) -> "Rat":
        if isinstance(c, Decimal):
            c = Fraction(c)
        elif isinstance(c, float):
            c = Fraction(Decimal(repr(c)))
        return Rat(Poly.const(Fraction(c)))

    @staticmethod
    def atom(a) -> "Rat":
        return Rat(Poly.atom(a))

    def is_const(self):
        return self.n.is_const() and self.d.is_const()

    def const_value(self) -> Fraction:
        return self.n.const_value() / self.d.const_value()

    def __add__(self, o):
        return Rat(self.n * o.d + o.n * self.d, self.d * o.d)

    def __sub__(self, o):
        return Rat(self.n * o.d - o.n * self.d, self.d * o.d)

    def __neg__(self):
        return Rat(-self.n, self.d)

    def __mul__(self, o):
        return Rat(self.n * o.n, self.d * o.d)

    def __truediv__(self, o):
        if o.n.is_zero():
            raise ZeroDivisionError("symbolic division by zero")
        return Rat(self.n * o.d, self.d * o.n)

    def __pow__(self, k: int):
        if k == 0:
            return Rat.const(1)
        if k < 0:
            return Rat.const(1) / (self ** (-k))
        r = Rat.const(1)
        for _ in range(k):
            r = r * self
        return r

    def __eq__(self, o):
        return isinstance(o, Rat) and (self.n * o.d) == (o.n * self.d)

    def __hash__(self):
        return hash(self.key())

    def key(self):
        return ("rat", self.n.key(), self.d.key())

    def atoms(self):
        return self.n.atoms() | self.d.atoms()

    def single_atom(self):
        """The atom when this Rat is exactly one atom, else None."""
        if self.d == Poly.const(1) and len(self.n.t) == 1:
            (m, c), = self.n.t.items()
            if c == 1 and len(m) == 1 and m[0][1] == 1:
                return m[0][0]
        return None

    def __repr__(self):
        if self.d == Poly.const(1):
            return repr(self.n)
        return f"({self.n!r}) / ({self.d!r})"


def all_atoms_deep(x, acc=None) -> set:
    """Atoms of a Rat including atoms nested in structured atoms."""
    acc = acc if acc is not None else set()
    if isinstance(x, Rat):
        for a in x.atoms():
            if a not in acc:
                acc.add(a)
                all_atoms_deep(a, acc)
    elif isinstance(x, tuple):
        for y in x:
            if isinstance(y, (Rat, tuple, frozenset)):
                all_atoms_deep(y, acc)
    elif isinstance(x, frozenset):
        for y in x:
            all_atoms_deep(y, acc)
    return acc
