"""Syntax-directed abstract interpreter with bounded inlining.

The walker executes a function's AST over a *set* of abstract domain states
(powerset lifting => path-sensitive for small domains without enumerating
paths).  Resolved callees are inlined (parameter binding, bounded depth,
memoised on (callee, receiver class, constant arguments, input state)).

The walker owns control flow (if/loops/try/with/comprehensions/short-circuit),
constant branch pruning, call and receiver resolution, access paths and local
alias resolution.  A ``Domain`` supplies the transfer functions.

Nothing from the analysed repository is imported or executed.
"""
from __future__ import annotations

import ast
from typing import Dict, Iterable, List, Optional, Tuple

from .model import AnalysisError, ClassInfo, FuncInfo, Model, Module

MAX_DEPTH = 8

MUTATORS = {
    "append", "extend", "insert", "pop", "remove", "clear", "add", "discard", "update", "setdefault",
    "popitem", "sort", "reverse",
}


# ------------------------------------------------------------------ values
from . import cover as _cover

class Val:
    __slots__ = ()


class VPath(Val):
    """Access path rooted at a class name (or '$param:<name>' / '$local'); typed when known."""
    __slots__ = ("path", "typ", "fresh")

    def __init__(self, path: tuple, typ=None, fresh: bool = False):
        self.path = path
        self.typ = typ
        self.fresh = fresh

    def __repr__(self):
        return "P(" + ".".join(self.path) + (":" + _tname(self.typ) if self.typ is not None else "") + ")"


class VConst(Val):
    __slots__ = ("value",)

    def __init__(self, value):
        self.value = value

    def __repr__(self):
        return f"C({self.value!r})"


class VUnknown(Val):
    __slots__ = ()

    def __repr__(self):
        return "U"


class VClass(Val):
    __slots__ = ("cls",)

    def __init__(self, cls):
        self.cls = cls


class VModule(Val):
    __slots__ = ("mod",)

    def __init__(self, mod):
        self.mod = mod


class VFunc(Val):
    __slots__ = ("func", "selfv", "selfcls")

    def __init__(self, func, selfv=None, selfcls=None):
        self.func = func
        self.selfv = selfv
        self.selfcls = selfcls


class VTuple(Val):
    __slots__ = ("items",)

    def __init__(self, items):
        self.items = items


class VSuper(Val):
    __slots__ = ()


UNKNOWN = VUnknown()


def _tname(t):
    if isinstance(t, ClassInfo):
        return t.name
    if isinstance(t, tuple):
        return t[0] + "<" + (_tname(t[1]) if not isinstance(t[1], tuple) or t[0] != "tuple" else "...") + ">"
    return "?"


def elem_type(t):
    if isinstance(t, tuple) and t[0] in ("map", "seq"):
        return t[1]
    return None


# ------------------------------------------------------------------ frames
class Frame:
    def __init__(self, interp: "Interp", func: FuncInfo, selfv: Optional[Val], selfcls: Optional[ClassInfo],
                 args: Dict[str, Val], argnodes: Dict[str, tuple], parent: Optional["Frame"], callnode):
        self.interp = interp
        self.func = func
        self.selfv = selfv
        self.selfcls = selfcls
        self.args = args
        self.argnodes = argnodes  # param -> (ast node in caller, caller frame)
        self.parent = parent
        self.callnode = callnode
        self.depth = 0 if parent is None else parent.depth + 1
        # deterministic identity of an inlined frame: the chain of call sites (stable across loop iterations)
        self.fid = () if parent is None else (parent.fid, id(callnode))
        self.returns: List[Tuple[object, Val, ast.AST]] = []
        self.loops: List[dict] = []
        self._defs = interp.local_defs(func)
        self._valcache: Dict[str, Val] = {}
        self._resolving: set = set()

    @property
    def module(self) -> Module:
        return self.func.module

    def chain(self) -> List[str]:
        out = []
        f = self
        while f is not None:
            out.append(f.func.qualname)
            f = f.parent
        return list(reversed(out))

    def entry(self) -> "Frame":
        f = self
        while f.parent is not None:
            f = f.parent
        return f

    def loc(self, node) -> str:
        return f"{self.func.module.relpath}:{getattr(node, 'lineno', 0)}"


class Sink:
    """Collects exceptional exits (state, exception class name, node, frame)."""

    def __init__(self):
        self.items: List[tuple] = []


class Domain:
    """Transfer functions.  States must be hashable.  Every hook returns an iterable of states."""

    name = "domain"

    def initial(self, fr: Frame):
        return [()]

    def on_write(self, st, ev: "WriteEvent"):
        return [st]

    def on_read(self, st, path: tuple, node, fr: Frame):
        return [st]

    def on_call(self, st, callee: Optional[FuncInfo], node: ast.Call, fr: Frame, recv: Optional[Val],
                args: Dict[str, Val]):
        """Return None to let the walker inline (or skip an unresolved call); or an iterable of states
        to summarise the call."""
        return None

    def pre_call(self, st, callee: FuncInfo, node, fr: Frame):
        """State adjustment just before a resolved callee is inlined."""
        return st

    def on_call_return(self, st, callee: FuncInfo, node, fr: Frame):
        return [st]

    def on_branch(self, st, test: ast.expr, fr: Frame, taken: bool):
        return [st]

    def on_raise(self, st, node, fr: Frame, exc: str):
        return [st]

    def on_stmt(self, st, node: ast.stmt, fr: Frame):
        return [st]

    def want_inline(self, callee: FuncInfo, fr: Frame) -> bool:
        return True

    def on_loop_edge(self, st, loopnode, fr: Frame):
        """At the end of an iteration and at loop exit (facts about the loop's own variables expire)."""
        return st


class WriteEvent:
    __slots__ = ("path", "owner", "field", "node", "fr", "how", "value", "recv", "key")

    def __init__(self, path, owner, field, node, fr, how, value=None, recv=None):
        self.path = path      # full access path tuple
        self.owner = owner    # ClassInfo owning `field` when known
        self.field = field    # attribute name or '[]'
        self.node = node
        self.fr = fr
        self.how = how        # 'set' | 'aug' | 'del' | 'call:<mutator>'
        self.value = value    # ast of the assigned value (set/aug)
        self.recv = recv      # VPath of the object written into
        self.key = None       # subscript expression for '[]' writes

    def text(self):
        return self.fr.module.text(self.node)


EXC_PARENTS = {
    "DemeterError": "RuntimeError",
    "DemeterWarning": "RuntimeWarning",
    "InsufficientBalanceError": "DemeterError",
    "AssertionError": "Exception",
    "RuntimeError": "Exception",
    "NotImplementedError": "RuntimeError",
    "ValueError": "Exception",
    "KeyError": "Exception",
    "TypeError": "Exception",
    "ZeroDivisionError": "Exception",
    "Exception": "BaseException",
}


def exc_matches(raised: str, handler: Optional[str]) -> bool:
    if handler is None or handler in ("BaseException",):
        return True
    seen = set()
    cur = raised
    while cur and cur not in seen:
        if cur == handler:
            return True
        seen.add(cur)
        cur = EXC_PARENTS.get(cur)
    return raised == "?" and handler == "Exception"


class Interp:
    def __init__(self, model: Model, domain: Domain, max_depth: int = MAX_DEPTH, inline_filter=None):
        self.model = model
        self.dom = domain
        self.max_depth = max_depth
        self.sinks: List[Sink] = []
        self.unresolved: Dict[str, int] = {}
        self.resolved_calls = 0
        self.depth_cuts: List[str] = []
        self.inlined: set = set()
        self.stmts_walked = 0
        self._defs_cache: Dict[int, dict] = {}
        self._memo: Dict[tuple, tuple] = {}
        self._active: List[tuple] = []
        self._fid = 0
        self._exc_parent_from_model()

    def _exc_parent_from_model(self):
        for c in self.model.classes.values():
            for b in c.base_exprs:
                bn = b.id if isinstance(b, ast.Name) else (b.attr if isinstance(b, ast.Attribute) else None)
                if bn and (bn.endswith("Error") or bn.endswith("Exception") or bn.endswith("Warning")):
                    EXC_PARENTS.setdefault(c.name, bn)

    # -------------------------------------------------------------- entry
    def run(self, func: FuncInfo, selfcls: Optional[ClassInfo] = None, args: Optional[Dict[str, Val]] = None):
        """Analyse `func` as an entry point.  Returns (normal_exit_states, raises)."""
        selfv = None
        if func.is_method and not func.is_classmethod:
            sc = selfcls or func.cls
            selfv = VPath((sc.name,), sc)
            selfcls = sc
        fr = Frame(self, func, selfv, selfcls, dict(args or {}), {}, None, None)
        _cover.deep(func, 'interp')
        sink = Sink()
        self.sinks.append(sink)
        try:
            S = set()
            for st in self.dom.initial(fr):
                S.add(st)
            out = self.call_body(fr, S)
        finally:
            self.sinks.pop()
        return out, sink.items

    def call_body(self, fr: Frame, S: set) -> set:
        """Execute the body of fr.func (with decorator models); returns states after return."""
        func = fr.func
        gated = "write_func" in func.decorators
        if gated:
            S = self._gate(fr, S)
        S = self.exec_block(func.node.body, fr, S)
        out = set(S)
        for (st, v, n) in fr.returns:
            out.add(st)
        if gated:
            out = self._gate_epilogue(fr, out)
        return out

    # write_func model: `if not instance.is_open: raise DemeterError` ... `instance.has_update = True`
    def _gate(self, fr: Frame, S: set) -> set:
        node = fr.func.node
        owner = self.model.classes.get("Market")
        base = fr.selfv.path if isinstance(fr.selfv, VPath) else ("?",)
        test = ast.parse("self.is_open", mode="eval").body
        ast.copy_location(test, node)
        for n in ast.walk(test):
            ast.copy_location(n, node)
        test._gate = True  # type: ignore[attr-defined]
        out = set()
        for st in S:
            for s1 in self.dom.on_read(st, base + ("is_open",), node, fr):
                for s2 in self.dom.on_branch(s1, test, fr, False):
                    for s3 in self.dom.on_raise(s2, node, fr, "DemeterError"):
                        self.sinks[-1].items.append((s3, "DemeterError", node, fr, "write_func gate"))
                for s2 in self.dom.on_branch(s1, test, fr, True):
                    out.add(s2)
        return out

    def _gate_epilogue(self, fr: Frame, S: set) -> set:
        node = fr.func.node
        base = fr.selfv.path if isinstance(fr.selfv, VPath) else ("?",)
        owner = fr.selfcls
        out = set()
        ev = WriteEvent(base + ("has_update",), owner, "has_update", node, fr, "set", None, fr.selfv)
        for st in S:
            out.update(self.dom.on_write(st, ev))
        return out

    # ------------------------------------------------------------- locals
    def local_defs(self, func: FuncInfo) -> dict:
        k = id(func.node)
        if k in self._defs_cache:
            return self._defs_cache[k]
        defs: Dict[str, list] = {}

        def add(name, kind, node, extra=None):
            defs.setdefault(name, []).append((kind, node, extra))

        def targets(t, kind, node, valnode, idx=()):
            if isinstance(t, ast.Name):
                add(t.id, kind, node, (valnode, idx))
            elif isinstance(t, (ast.Tuple, ast.List)):
                for i, e in enumerate(t.elts):
                    targets(e, kind, node, valnode, idx + (i,))
            elif isinstance(t, ast.Starred):
                targets(t.value, "other", node, None)

        for n in _walk_own(func.node):
            if isinstance(n, ast.Assign):
                for t in n.targets:
                    targets(t, "assign", n, n.value)
            elif isinstance(n, ast.AnnAssign):
                if n.value is not None:
                    targets(n.target, "assign", n, n.value)
                elif isinstance(n.target, ast.Name):
                    add(n.target.id, "decl", n, n.annotation)
            elif isinstance(n, ast.AugAssign):
                targets(n.target, "aug", n, None)
            elif isinstance(n, (ast.For, ast.AsyncFor)):
                targets(n.target, "for", n, n.iter)
            elif isinstance(n, ast.comprehension):
                targets(n.target, "for", n, n.iter)
            elif isinstance(n, (ast.With, ast.AsyncWith)):
                for it in n.items:
                    if it.optional_vars is not None:
                        targets(it.optional_vars, "with", n, it.context_expr)
            elif isinstance(n, ast.ExceptHandler) and n.name:
                add(n.name, "other", n)
            elif isinstance(n, ast.NamedExpr):
                targets(n.target, "assign", n, n.value)
            elif isinstance(n, (ast.Import, ast.ImportFrom)):
                for a in n.names:
                    add((a.asname or a.name).split(".")[0], "import", n)
        self._defs_cache[k] = defs
        return defs

    def lookup(self, name: str, fr: Frame) -> Val:
        if name in fr._valcache:
            return fr._valcache[name]
        if name in fr._resolving:
            return UNKNOWN
        fr._resolving.add(name)
        try:
            v = self._lookup(name, fr)
        finally:
            fr._resolving.discard(name)
        fr._valcache[name] = v
        return v

    def _lookup(self, name: str, fr: Frame) -> Val:
        func = fr.func
        defs = [d for d in fr._defs.get(name, []) if d[0] != "decl"]
        is_param = name in func.params or name in func.kwonly or name == func.vararg or name == func.kwarg
        if is_param:
            if name == "self" and fr.selfv is not None and func.is_method:
                return fr.selfv
            if name == "cls" and func.is_classmethod and fr.selfcls is not None:
                return VClass(fr.selfcls)
            typ = self.model.parse_type(func.module, func.annotations.get(name))
            real = [d for d in defs]
            if not real:
                v = fr.args.get(name)
                if v is not None and not isinstance(v, VUnknown):
                    if isinstance(v, VPath) and v.typ is None and typ is not None:
                        return VPath(v.path, typ, v.fresh)
                    return v
                if v is None and name in func.defaults:
                    dv = self.pure(func.defaults[name], fr, defaults=True)
                    if isinstance(dv, VConst):
                        return dv
                if isinstance(typ, ClassInfo):
                    return VPath((typ.name,), typ)
                if typ is not None:
                    return VPath(("$param:" + name,), typ)
                return UNKNOWN
            # reassigned parameter: keep the type only
            if isinstance(typ, ClassInfo):
                vals = [self._def_val(d, fr) for d in real]
                if all(isinstance(x, VPath) and isinstance(x.typ, ClassInfo) and x.typ is typ for x in vals):
                    return VPath((typ.name,), typ)
            return UNKNOWN
        if not defs:
            # module / class level name
            return self.global_val(name, fr)
        vals = [self._def_val(d, fr) for d in defs]
        if len(vals) == 1:
            return vals[0]
        v0 = vals[0]
        if all(isinstance(v, VPath) for v in vals):
            if all(v.path == v0.path and v.fresh == v0.fresh for v in vals):
                return v0
            types = {id(v.typ) for v in vals}
            if len(types) == 1 and isinstance(v0.typ, ClassInfo):
                return VPath((v0.typ.name,), v0.typ, all(v.fresh for v in vals))
        if all(isinstance(v, VConst) for v in vals) and all(v.value == v0.value and type(v.value) == type(v0.value) for v in vals):
            return v0
        # annotated declaration gives the type
        for d in defs:
            n = d[1]
            if isinstance(n, ast.AnnAssign):
                t = self.model.parse_type(func.module, n.annotation)
                if isinstance(t, ClassInfo):
                    return VPath((t.name,), t)
        return UNKNOWN

    def _def_val(self, d, fr: Frame) -> Val:
        kind, node, extra = d
        if kind == "assign":
            valnode, idx = extra
            if valnode is None:
                return UNKNOWN
            v = self.pure(valnode, fr)
            for i in idx:
                if isinstance(v, VTuple) and i < len(v.items):
                    v = v.items[i]
                elif isinstance(v, VPath) and isinstance(v.typ, tuple) and v.typ[0] == "tuple" and i < len(v.typ[1]):
                    t = v.typ[1][i]
                    v = VPath((t.name,), t) if isinstance(t, ClassInfo) else UNKNOWN
                else:
                    v = UNKNOWN
            if isinstance(node, ast.AnnAssign) and isinstance(v, (VUnknown,)):
                t = self.model.parse_type(fr.module, node.annotation)
                if isinstance(t, ClassInfo):
                    return VPath((t.name,), t)
            if isinstance(node, ast.AnnAssign) and isinstance(v, VPath) and v.typ is None:
                t = self.model.parse_type(fr.module, node.annotation)
                if t is not None:
                    return VPath(v.path, t, v.fresh)
            return v
        if kind == "for":
            valnode, idx = extra
            return self._iter_elem(valnode, idx, fr)
        return UNKNOWN

    def _iter_elem(self, iternode, idx, fr: Frame) -> Val:
        # for x in P.values() / P.items() / P.keys() / P / list(P.keys())
        n = iternode
        meth = None
        if isinstance(n, ast.Call) and isinstance(n.func, ast.Name) and n.func.id in ("list", "sorted", "reversed", "tuple", "set") and n.args:
            n = n.args[0]
        if isinstance(n, ast.Call) and isinstance(n.func, ast.Attribute) and n.func.attr in ("values", "items", "keys") and not n.args:
            meth = n.func.attr
            n = n.func.value
        base = self.pure(n, fr)
        if not isinstance(base, VPath):
            return UNKNOWN
        et = elem_type(base.typ)
        if meth == "keys":
            return UNKNOWN
        if meth == "items":
            if idx == (1,):
                return VPath(base.path + ("[]",), et, base.fresh)
            return UNKNOWN
        if meth == "values" or (meth is None and isinstance(base.typ, tuple) and base.typ[0] == "seq"):
            if idx == ():
                return VPath(base.path + ("[]",), et, base.fresh)
        return UNKNOWN

    def global_val(self, name: str, fr: Frame) -> Val:
        r = self.model.resolve_name(fr.module, name)
        if isinstance(r, ClassInfo):
            return VClass(r)
        if isinstance(r, FuncInfo):
            return VFunc(r)
        if isinstance(r, Module):
            return VModule(r)
        if isinstance(r, tuple) and r[0] == "const":
            c = const_value(r[2])
            if c is not _NOCONST:
                return VConst(c)
            return UNKNOWN
        if name in ("True", "False", "None"):
            return VConst({"True": True, "False": False, "None": None}[name])
        return UNKNOWN

    # ---------------------------------------------- pure (event-free) values
    def pure(self, node: ast.expr, fr: Frame, defaults: bool = False) -> Val:
        """Shape of an expression's value without emitting events."""
        if isinstance(node, ast.Constant):
            return VConst(node.value)
        if isinstance(node, ast.Name):
            if defaults:
                return self.global_val(node.id, fr)
            return self.lookup(node.id, fr)
        if isinstance(node, ast.Attribute):
            base = self.pure(node.value, fr, defaults)
            return self.attr_val(base, node.attr, fr, node)
        if isinstance(node, ast.Subscript):
            base = self.pure(node.value, fr, defaults)
            if isinstance(base, VPath):
                return VPath(base.path + ("[]",), elem_type(base.typ), base.fresh)
            if isinstance(base, VTuple) and isinstance(node.slice, ast.Constant) and isinstance(node.slice.value, int):
                i = node.slice.value
                if 0 <= i < len(base.items):
                    return base.items[i]
            return UNKNOWN
        if isinstance(node, ast.Tuple):
            return VTuple([self.pure(e, fr, defaults) for e in node.elts])
        if isinstance(node, ast.Call):
            return self.pure_call(node, fr)
        if isinstance(node, ast.UnaryOp) and isinstance(node.op, ast.Not):
            v = self.pure(node.operand, fr, defaults)
            if isinstance(v, VConst):
                return VConst(not v.value)
            return UNKNOWN
        if isinstance(node, ast.UnaryOp) and isinstance(node.op, ast.USub):
            v = self.pure(node.operand, fr, defaults)
            if isinstance(v, VConst) and isinstance(v.value, (int, float)):
                return VConst(-v.value)
            return UNKNOWN
        if isinstance(node, ast.IfExp):
            t = self.pure(node.test, fr, defaults)
            t = self.truth(node.test, fr, t)
            if t is True:
                return self.pure(node.body, fr, defaults)
            if t is False:
                return self.pure(node.orelse, fr, defaults)
            a = self.pure(node.body, fr, defaults)
            b = self.pure(node.orelse, fr, defaults)
            if isinstance(a, VPath) and isinstance(b, VPath) and a.path == b.path:
                return a
            return UNKNOWN
        if isinstance(node, ast.Compare):
            return self.pure_compare(node, fr)
        c = const_value(node)
        if c is not _NOCONST:
            return VConst(c)
        return UNKNOWN

    def pure_compare(self, node: ast.Compare, fr: Frame) -> Val:
        if len(node.ops) != 1:
            return UNKNOWN
        l = self.pure(node.left, fr)
        r = self.pure(node.comparators[0], fr)
        op = node.ops[0]
        if isinstance(l, VConst) and isinstance(r, VConst):
            try:
                if isinstance(op, ast.Is):
                    return VConst(l.value is r.value)
                if isinstance(op, ast.IsNot):
                    return VConst(l.value is not r.value)
                if isinstance(op, ast.Eq):
                    return VConst(l.value == r.value)
                if isinstance(op, ast.NotEq):
                    return VConst(l.value != r.value)
                if isinstance(op, ast.Lt):
                    return VConst(l.value < r.value)
                if isinstance(op, ast.Gt):
                    return VConst(l.value > r.value)
                if isinstance(op, ast.LtE):
                    return VConst(l.value <= r.value)
                if isinstance(op, ast.GtE):
                    return VConst(l.value >= r.value)
            except Exception:
                return UNKNOWN
        # an object (path / fresh object) is never None
        if isinstance(op, (ast.Is, ast.IsNot)) and isinstance(r, VConst) and r.value is None:
            if isinstance(l, (VClass, VFunc)):
                return VConst(isinstance(op, ast.IsNot))
        return UNKNOWN

    def attr_val(self, base: Val, attr: str, fr: Frame, node=None) -> Val:
        if isinstance(base, VModule):
            r = self.model.resolve_name(base.mod, attr)
            if isinstance(r, ClassInfo):
                return VClass(r)
            if isinstance(r, FuncInfo):
                return VFunc(r)
            if isinstance(r, Module):
                return VModule(r)
            if isinstance(r, tuple):
                c = const_value(r[2])
                return VConst(c) if c is not _NOCONST else UNKNOWN
            return UNKNOWN
        if isinstance(base, VClass):
            f = self.model.find_method(base.cls, attr)
            if f is not None:
                return VFunc(f, None, base.cls)
            cc = self.model.class_const(base.cls, attr)
            if cc is not None:
                c = const_value(cc[1])
                return VConst(c) if c is not _NOCONST else UNKNOWN
            return UNKNOWN
        if isinstance(base, VPath):
            t = base.typ
            if isinstance(t, ClassInfo):
                f = self.model.find_method(t, attr)
                if f is not None:
                    if f.is_property:
                        g = self.trivial_getter(f)
                        if g is not None:
                            return self._chain_val(base, g, fr, node)
                        rt = self.model.parse_type(f.module, f.node.returns)
                        if isinstance(rt, ClassInfo):
                            return VPath((rt.name,), rt)
                        if rt is not None:
                            return VPath(base.path + (attr,), rt, base.fresh)
                        return VPath(base.path + (attr,), None, base.fresh)
                    return VFunc(f, base, t)
                ft = self.model.field_type(t, attr)
                if isinstance(ft, ClassInfo) and self.is_root_class(ft):
                    return VPath((ft.name,), ft)
                cc = self.model.class_const(t, attr)
                if cc is not None and attr not in self.model.fields_assigned_in_init(t):
                    c = const_value(cc[1])
                    if c is not _NOCONST:
                        return VConst(c)
                return VPath(base.path + (attr,), ft, base.fresh)
            return VPath(base.path + (attr,), None, base.fresh)
        return UNKNOWN

    ROOT_CLASSES = ("Market", "Broker", "Actuator", "Strategy")

    def is_root_class(self, c: ClassInfo) -> bool:
        return any(self.model.is_subclass(c, r) for r in self.ROOT_CLASSES)

    def trivial_getter(self, f: FuncInfo) -> Optional[str]:
        """`return self.a` -> 'a'; `return self.a.b` -> 'a.b' (attribute chain on self)."""
        body = [s for s in f.node.body if not (isinstance(s, ast.Expr) and isinstance(s.value, ast.Constant))]
        if len(body) == 1 and isinstance(body[0], ast.Return):
            v = body[0].value
            chain = []
            while isinstance(v, ast.Attribute):
                chain.append(v.attr)
                v = v.value
            if chain and isinstance(v, ast.Name) and v.id == "self":
                return ".".join(reversed(chain))
        return None

    def _chain_val(self, base: Val, chain: str, fr: Frame, node=None) -> Val:
        v = base
        for a in chain.split("."):
            v = self.attr_val(v, a, fr, node)
        return v

    def pure_call(self, node: ast.Call, fr: Frame) -> Val:
        fv = self.pure(node.func, fr)
        if isinstance(fv, VClass):
            return VPath((fv.cls.name,), fv.cls, fresh=True)
        if isinstance(fv, VFunc):
            f = fv.func
            # single-return helper whose result is a constant / tuple with constants (e.g. a zero fee)
            cv = self.const_return(f, fv, node, fr)
            if cv is not None:
                return cv
            rt = self.model.parse_type(f.module, f.node.returns)
            # single `return self.x` style helpers
            if isinstance(rt, ClassInfo):
                if self.is_root_class(rt):
                    return VPath((rt.name,), rt)
                ret = self.simple_return_path(f, fv, node, fr)
                if ret is not None:
                    return ret
                return VPath((rt.name,), rt)
            if rt is not None:
                return VPath(("$ret:" + f.name,), rt, fresh=True)
            return UNKNOWN
        if isinstance(node.func, ast.Name):
            nm = node.func.id
            if nm in ("int", "float", "str", "Decimal", "len", "sum", "abs", "min", "max", "round", "bool"):
                c = const_value(node)
                return VConst(c) if c is not _NOCONST else UNKNOWN
            if nm in ("list", "sorted", "tuple") and node.args:
                v = self.pure(node.args[0], fr)
                if isinstance(v, VPath):
                    return VPath(v.path, v.typ, fresh=True) if nm != "tuple" else v
        if isinstance(node.func, ast.Attribute) and node.func.attr in ("copy", "deepcopy"):
            return UNKNOWN
        return UNKNOWN

    def const_return(self, f: FuncInfo, fv: VFunc, node: ast.Call, fr: Frame) -> Optional[Val]:
        rets = [n for n in _walk_own(f.node) if isinstance(n, ast.Return)]
        if len(rets) != 1 or rets[0].value is None or fr.depth > self.max_depth or f.is_abstract:
            return None
        if fv.selfv is None and f.is_method:
            return None
        if isinstance(fv.selfv, VPath) and self.model.subclasses(fv.selfcls.name if fv.selfcls else "") and \
                any(f.name in c.methods for c in self.model.subclasses(fv.selfcls.name)):
            return None  # overridable: not a constant
        sub = Frame(self, f, fv.selfv, fv.selfcls or f.cls, {}, {}, fr, node)
        v = self.pure(rets[0].value, sub)

        def has_const(x):
            return isinstance(x, VConst) or (isinstance(x, VTuple) and any(has_const(i) for i in x.items))

        if isinstance(v, VConst):
            return v
        if isinstance(v, VTuple) and has_const(v):
            # keep only constant components; the others depend on arguments we did not bind
            return VTuple([i if isinstance(i, VConst) else UNKNOWN for i in v.items])
        return None

    def simple_return_path(self, f: FuncInfo, fv: VFunc, node: ast.Call, fr: Frame) -> Optional[Val]:
        """`def get_x(self, k): return self._m[k]` -> path of the returned object."""
        rets = [n for n in _walk_own(f.node) if isinstance(n, ast.Return)]
        if len(rets) != 1 or rets[0].value is None or fr.depth > self.max_depth:
            return None
        if fv.selfv is None and f.is_method:
            return None
        sub = Frame(self, f, fv.selfv, fv.selfcls or f.cls, {}, {}, fr, node)
        v = self.pure(rets[0].value, sub)
        return v if isinstance(v, VPath) else None

    # ----------------------------------------------------------- truthiness
    def truth(self, test: ast.expr, fr: Frame, v: Optional[Val] = None):
        """True/False when the branch is decided by constants, else None."""
        if v is None:
            v = self.pure(test, fr)
        if isinstance(v, VConst):
            try:
                return bool(v.value)
            except Exception:
                return None
        if isinstance(test, ast.UnaryOp) and isinstance(test.op, ast.Not):
            t = self.truth(test.operand, fr)
            return None if t is None else (not t)
        if isinstance(test, ast.BoolOp):
            ts = [self.truth(x, fr) for x in test.values]
            if isinstance(test.op, ast.And):
                if any(t is False for t in ts):
                    return False
                if all(t is True for t in ts):
                    return True
            else:
                if any(t is True for t in ts):
                    return True
                if all(t is False for t in ts):
                    return False
            return None
        if isinstance(test, ast.Compare) and len(test.ops) == 1 and isinstance(test.ops[0], (ast.Is, ast.IsNot)):
            l = self.pure(test.left, fr)
            r = self.pure(test.comparators[0], fr)
            if isinstance(r, VConst) and r.value is None and isinstance(l, VPath) and l.fresh and isinstance(l.typ, ClassInfo):
                return isinstance(test.ops[0], ast.IsNot)
        # dataclass instances without __bool__/__len__ are truthy
        if isinstance(v, VPath) and isinstance(v.typ, ClassInfo) and v.path[-1] == "[]":
            t = v.typ
            if t.is_dataclass and not self.model.find_method(t, "__bool__") and not self.model.find_method(t, "__len__"):
                return True
        return None

    # ------------------------------------------------------------ statements
    def exec_block(self, stmts: List[ast.stmt], fr: Frame, S: set) -> set:
        for st in stmts:
            if not S:
                break
            S = self.exec_stmt(st, fr, S)
        return S

    def _dom_each(self, S: set, fn) -> set:
        out = set()
        for st in S:
            out.update(fn(st))
        return out

    def exec_stmt(self, st: ast.stmt, fr: Frame, S: set) -> set:
        self.stmts_walked += 1
        if self.stmts_walked > 1_500_000 or len(S) > 60_000:
            raise AnalysisError(f"analysis budget exceeded in {fr.func.qualname} ({self.stmts_walked} statements, {len(S)} states): "
                                f"the abstract state space of this entry point is too large to decide")
        S = self._dom_each(S, lambda s: self.dom.on_stmt(s, st, fr))
        if isinstance(st, ast.Expr):
            _, S = self.ev(st.value, fr, S)
            return S
        if isinstance(st, ast.Assign):
            _, S = self.ev(st.value, fr, S)
            for t in st.targets:
                S = self.assign_target(t, st, st.value, fr, S, "set")
            return S
        if isinstance(st, ast.AnnAssign):
            if st.value is None:
                return S
            _, S = self.ev(st.value, fr, S)
            return self.assign_target(st.target, st, st.value, fr, S, "set")
        if isinstance(st, ast.AugAssign):
            # read target, evaluate value, write target
            _, S = self.ev(st.target, fr, S, load=True)
            _, S = self.ev(st.value, fr, S)
            return self.assign_target(st.target, st, st.value, fr, S, "aug")
        if isinstance(st, ast.Delete):
            for t in st.targets:
                S = self.assign_target(t, st, None, fr, S, "del")
            return S
        if isinstance(st, ast.Return):
            v = UNKNOWN
            if st.value is not None:
                v, S = self.ev(st.value, fr, S)
            for s in S:
                fr.returns.append((s, v, st))
            return set()
        if isinstance(st, ast.Raise):
            exc = "?"
            if st.exc is not None:
                e = st.exc
                if isinstance(e, ast.Call):
                    for a in e.args:
                        _, S = self.ev(a, fr, S)
                    e = e.func
                if isinstance(e, ast.Name):
                    exc = e.id
                elif isinstance(e, ast.Attribute):
                    exc = e.attr
                if isinstance(st.exc, ast.Name) and not (st.exc.id[:1].isupper()):
                    exc = "?reraise"
            self.do_raise(S, st, fr, exc)
            return set()
        if isinstance(st, ast.Assert):
            Tt, Ff = self.branch(st.test, fr, S)
            self.do_raise(Ff, st, fr, "AssertionError")
            return Tt
        if isinstance(st, ast.If):
            Tt, Ff = self.branch(st.test, fr, S)
            A = self.exec_block(st.body, fr, Tt) if Tt else set()
            B = self.exec_block(st.orelse, fr, Ff) if Ff else set()
            return A | B
        if isinstance(st, (ast.For, ast.AsyncFor)):
            _, S = self.ev(st.iter, fr, S)
            return self.exec_loop(st, fr, S, None)
        if isinstance(st, ast.While):
            return self.exec_loop(st, fr, S, st.test)
        if isinstance(st, ast.Break):
            fr.loops[-1]["breaks"].update(S)
            return set()
        if isinstance(st, ast.Continue):
            fr.loops[-1]["continues"].update(S)
            return set()
        if isinstance(st, ast.Try):
            return self.exec_try(st, fr, S)
        if isinstance(st, (ast.With, ast.AsyncWith)):
            for it in st.items:
                _, S = self.ev(it.context_expr, fr, S)
            return self.exec_block(st.body, fr, S)
        if isinstance(st, (ast.Pass, ast.Import, ast.ImportFrom, ast.Global, ast.Nonlocal, ast.FunctionDef,
                           ast.ClassDef, ast.AsyncFunctionDef)):
            return S
        if isinstance(st, ast.Match):  # pragma: no cover
            raise AnalysisError(f"unsupported statement match at {fr.loc(st)}")
        return S

    def do_raise(self, S: set, node, fr: Frame, exc: str, note: str = ""):
        for s in S:
            for s2 in self.dom.on_raise(s, node, fr, exc):
                self.sinks[-1].items.append((s2, exc, node, fr, note))

    def exec_loop(self, st, fr: Frame, S: set, test) -> set:
        ctx = {"breaks": set(), "continues": set()}
        fr.loops.append(ctx)
        seen = set()
        exit_states = set()
        frontier = set(S)
        first = True
        it = 0
        while frontier:
            it += 1
            if it > 60:
                raise AnalysisError(f"loop fixpoint not reached at {fr.loc(st)}")
            new = frontier - seen
            seen |= new
            if not new:
                break
            if test is not None:
                Tt, Ff = self.branch(test, fr, new)
                exit_states |= Ff
                body_in = Tt
            else:
                exit_states |= new  # zero (more) iterations
                body_in = new
                if isinstance(st, (ast.For, ast.AsyncFor)):
                    body_in = self.assign_target(st.target, st, None, fr, body_in, "bind")
            ctx["continues"] = set()
            out = self.exec_block(st.body, fr, body_in) if body_in else set()
            frontier = {self.dom.on_loop_edge(s, st, fr) for s in (out | ctx["continues"])}
            first = False
        fr.loops.pop()
        ctx["breaks"] = {self.dom.on_loop_edge(s, st, fr) for s in ctx["breaks"]}
        res = {self.dom.on_loop_edge(s, st, fr) for s in exit_states}
        if st.orelse:
            res = self.exec_block(st.orelse, fr, res)
        return res | ctx["breaks"]

    def exec_try(self, st: ast.Try, fr: Frame, S: set) -> set:
        sink = Sink()
        self.sinks.append(sink)
        try:
            body_out = self.exec_block(st.body, fr, S)
            if st.orelse:
                body_out = self.exec_block(st.orelse, fr, body_out)
        finally:
            self.sinks.pop()
        out = set(body_out)
        uncaught = []
        for item in sink.items:
            s, exc, node, rfr, note = item
            caught = False
            for h in st.handlers:
                names = _handler_names(h)
                if any(exc_matches(exc, nm) for nm in names):
                    caught = True
                    hs = self.exec_block(h.body, fr, {s})
                    out |= hs
                    break
            if not caught:
                uncaught.append(item)
        if st.finalbody:
            out = self.exec_block(st.finalbody, fr, out)
            fin = []
            for (s, exc, node, rfr, note) in uncaught:
                for s2 in self.exec_block(st.finalbody, fr, {s}):
                    fin.append((s2, exc, node, rfr, note))
            uncaught = fin
        self.sinks[-1].items.extend(uncaught)
        return out

    # ---------------------------------------------------------------- branch
    def branch(self, test: ast.expr, fr: Frame, S: set) -> Tuple[set, set]:
        """Evaluate test (events), then split states into (true, false)."""
        if isinstance(test, ast.UnaryOp) and isinstance(test.op, ast.Not):
            a, b = self.branch(test.operand, fr, S)
            return b, a
        if isinstance(test, ast.BoolOp):
            if isinstance(test.op, ast.And):
                T = set(S)
                F = set()
                for v in test.values:
                    t, f = self.branch(v, fr, T)
                    F |= f
                    T = t
                return T, F
            else:
                F = set(S)
                T = set()
                for v in test.values:
                    t, f = self.branch(v, fr, F)
                    T |= t
                    F = f
                return T, F
        v, S = self.ev(test, fr, S)
        # tests on a parameter bound to an expression in the caller are refined with the caller's expression
        rtest, rfr = test, fr
        hops = 0
        while isinstance(rtest, ast.Name) and rtest.id in rfr.argnodes and not [
            d for d in rfr._defs.get(rtest.id, []) if d[0] != "decl"
        ] and hops < 6:
            rtest, rfr = rfr.argnodes[rtest.id]
            hops += 1
        if rtest is not test and isinstance(rtest, (ast.UnaryOp, ast.BoolOp)):
            # structured caller expression: split it there without re-emitting events
            return self._refine_struct(rtest, rfr, S)
        t = self.truth(rtest, rfr, v if rtest is test else None)
        T = set()
        F = set()
        for s in S:
            if t is not False:
                T.update(self.dom.on_branch(s, rtest, rfr, True))
            if t is not True:
                F.update(self.dom.on_branch(s, rtest, rfr, False))
        return T, F

    def _refine_struct(self, test, fr, S):
        if isinstance(test, ast.UnaryOp) and isinstance(test.op, ast.Not):
            a, b = self._refine_struct(test.operand, fr, S)
            return b, a
        if isinstance(test, ast.BoolOp):
            if isinstance(test.op, ast.And):
                T, F = set(S), set()
                for v in test.values:
                    t, f = self._refine_struct(v, fr, T)
                    F |= f
                    T = t
                return T, F
            F, T = set(S), set()
            for v in test.values:
                t, f = self._refine_struct(v, fr, F)
                T |= t
                F = f
            return T, F
        t = self.truth(test, fr)
        T, F = set(), set()
        for s in S:
            if t is not False:
                T.update(self.dom.on_branch(s, test, fr, True))
            if t is not True:
                F.update(self.dom.on_branch(s, test, fr, False))
        return T, F

    # ----------------------------------------------------------- assignment
    def assign_target(self, t, stmt, valnode, fr: Frame, S: set, how: str) -> set:
        if isinstance(t, (ast.Tuple, ast.List)):
            for e in t.elts:
                S = self.assign_target(e, stmt, valnode, fr, S, how)
            return S
        if isinstance(t, ast.Starred):
            return self.assign_target(t.value, stmt, valnode, fr, S, how)
        if isinstance(t, ast.Name):
            return S
        if how == "bind":
            return S
        if isinstance(t, ast.Attribute):
            base, S = self.ev(t.value, fr, S)
            if isinstance(base, VPath):
                owner = base.typ if isinstance(base.typ, ClassInfo) else None
                # property setter?
                if owner is not None:
                    setter = self.model.find_setter(owner, t.attr)
                    if setter is not None and fr.depth < self.max_depth:
                        return self.inline(setter, base, owner, {}, {}, stmt, fr, S)[1]
                ev = WriteEvent(base.path + (t.attr,), owner, t.attr, stmt, fr, how, valnode, base)
                if base.fresh:
                    return S
                return self._dom_each(S, lambda s: self.dom.on_write(s, ev))
            return S
        if isinstance(t, ast.Subscript):
            base, S = self.ev(t.value, fr, S)
            _, S = self.ev(t.slice, fr, S)
            if isinstance(base, VPath):
                if base.fresh:
                    return S
                ev = WriteEvent(base.path + ("[]",), None, "[]", stmt, fr, how, valnode, base)
                ev_key = t.slice
                ev.key = ev_key  # type: ignore[attr-defined]
                return self._dom_each(S, lambda s: self.dom.on_write(s, ev))
            return S
        return S

    # ----------------------------------------------------------- expressions
    def ev(self, node: ast.expr, fr: Frame, S: set, load: bool = True) -> Tuple[Val, set]:
        """Evaluate with events, in evaluation order."""
        if not S:
            return UNKNOWN, S
        if isinstance(node, ast.Constant):
            return VConst(node.value), S
        if isinstance(node, ast.Name):
            return self.lookup(node.id, fr), S
        if isinstance(node, ast.Attribute):
            base, S = self.ev(node.value, fr, S)
            return self.ev_attr(base, node, fr, S)
        if isinstance(node, ast.Subscript):
            base, S = self.ev(node.value, fr, S)
            _, S = self.ev(node.slice, fr, S)
            if isinstance(base, VPath):
                p = base.path + ("[]",)
                if not base.fresh:
                    S = self._dom_each(S, lambda s: self.dom.on_read(s, p, node, fr))
                return VPath(p, elem_type(base.typ), base.fresh), S
            if isinstance(base, VTuple) and isinstance(node.slice, ast.Constant) and isinstance(node.slice.value, int):
                i = node.slice.value
                if 0 <= i < len(base.items):
                    return base.items[i], S
            return UNKNOWN, S
        if isinstance(node, ast.Call):
            return self.ev_call(node, fr, S)
        if isinstance(node, ast.IfExp):
            T, F = self.branch(node.test, fr, S)
            va = vb = UNKNOWN
            A = B = set()
            if T:
                va, A = self.ev(node.body, fr, T)
            if F:
                vb, B = self.ev(node.orelse, fr, F)
            if not F:
                return va, A
            if not T:
                return vb, B
            v = va if isinstance(va, VPath) and isinstance(vb, VPath) and va.path == vb.path else UNKNOWN
            return v, A | B
        if isinstance(node, ast.BoolOp):
            # short circuit: later operands are conditional
            cur = set(S)
            done = set()
            for i, v in enumerate(node.values):
                if i == len(node.values) - 1:
                    _, cur = self.ev(v, fr, cur)
                    break
                T, F = self.branch(v, fr, cur)
                if isinstance(node.op, ast.And):
                    done |= F
                    cur = T
                else:
                    done |= T
                    cur = F
            return self.pure(node, fr), cur | done
        if isinstance(node, (ast.BinOp,)):
            _, S = self.ev(node.left, fr, S)
            _, S = self.ev(node.right, fr, S)
            return self.pure(node, fr), S
        if isinstance(node, ast.UnaryOp):
            _, S = self.ev(node.operand, fr, S)
            return self.pure(node, fr), S
        if isinstance(node, ast.Compare):
            _, S = self.ev(node.left, fr, S)
            for c in node.comparators:
                _, S = self.ev(c, fr, S)
            return self.pure(node, fr), S
        if isinstance(node, (ast.Tuple, ast.List, ast.Set)):
            vals = []
            for e in node.elts:
                v, S = self.ev(e, fr, S)
                vals.append(v)
            return (VTuple(vals) if isinstance(node, ast.Tuple) else UNKNOWN), S
        if isinstance(node, ast.Dict):
            for k, v in zip(node.keys, node.values):
                if k is not None:
                    _, S = self.ev(k, fr, S)
                _, S = self.ev(v, fr, S)
            return UNKNOWN, S
        if isinstance(node, (ast.ListComp, ast.SetComp, ast.GeneratorExp, ast.DictComp)):
            return UNKNOWN, self.ev_comp(node, fr, S)
        if isinstance(node, ast.JoinedStr):
            for v in node.values:
                if isinstance(v, ast.FormattedValue):
                    _, S = self.ev(v.value, fr, S)
            return UNKNOWN, S
        if isinstance(node, ast.FormattedValue):
            return self.ev(node.value, fr, S)
        if isinstance(node, ast.Starred):
            return self.ev(node.value, fr, S)
        if isinstance(node, ast.Slice):
            for x in (node.lower, node.upper, node.step):
                if x is not None:
                    _, S = self.ev(x, fr, S)
            return UNKNOWN, S
        if isinstance(node, ast.Lambda):
            return UNKNOWN, S
        if isinstance(node, ast.NamedExpr):
            return self.ev(node.value, fr, S)
        if isinstance(node, (ast.Await, ast.Yield, ast.YieldFrom)):  # pragma: no cover
            return UNKNOWN, S
        return UNKNOWN, S

    def ev_comp(self, node, fr: Frame, S: set) -> set:
        gens = node.generators
        # first iterable evaluated once; body 0..n times (fixpoint)
        _, S = self.ev(gens[0].iter, fr, S)
        seen = set()
        frontier = set(S)
        res = set(S)
        it = 0
        while frontier:
            it += 1
            if it > 60:
                raise AnalysisError(f"comprehension fixpoint not reached at {fr.loc(node)}")
            new = frontier - seen
            if not new:
                break
            seen |= new
            cur = new
            for gi, g in enumerate(gens):
                if gi > 0:
                    _, cur = self.ev(g.iter, fr, cur)
                for cond in g.ifs:
                    T, F = self.branch(cond, fr, cur)
                    res |= F
                    cur = T
            if isinstance(node, ast.DictComp):
                _, cur = self.ev(node.key, fr, cur)
                _, cur = self.ev(node.value, fr, cur)
            else:
                _, cur = self.ev(node.elt, fr, cur)
            res |= cur
            frontier = cur
        return res

    def ev_attr(self, base: Val, node: ast.Attribute, fr: Frame, S: set) -> Tuple[Val, set]:
        attr = node.attr
        if isinstance(base, VPath) and isinstance(base.typ, ClassInfo):
            f = self.model.find_method(base.typ, attr)
            if f is not None and f.is_property:
                g = self.trivial_getter(f)
                if g is not None:
                    v = self._chain_val(base, g, fr, node)
                    if not base.fresh and isinstance(v, VPath):
                        p = v.path
                        S = self._dom_each(S, lambda s: self.dom.on_read(s, p, node, fr))
                    return v, S
                r, S2 = self.do_call(f, base, base.typ, [], [], node, fr, S)
                if isinstance(r, VUnknown) or r is None:
                    r = self.attr_val(base, attr, fr, node)
                return r, S2
            if f is not None:
                return VFunc(f, base, base.typ), S
        if isinstance(base, VPath):
            p = base.path + (attr,)
            if not base.fresh:
                S = self._dom_each(S, lambda s: self.dom.on_read(s, p, node, fr))
        return self.attr_val(base, attr, fr, node), S

    # ---------------------------------------------------------------- calls
    def ev_call(self, node: ast.Call, fr: Frame, S: set) -> Tuple[Val, set]:
        fn = node.func
        recv: Optional[Val] = None
        callee: Optional[FuncInfo] = None
        selfcls = None
        fv: Val = UNKNOWN
        if isinstance(fn, ast.Attribute):
            if isinstance(fn.value, ast.Call) and isinstance(fn.value.func, ast.Name) and fn.value.func.id == "super":
                # super().m(...)
                cur = fr.func.cls
                sc = fr.selfcls or cur
                if cur is not None and sc is not None:
                    callee = self.model.find_method(sc, fn.attr, after=cur)
                recv = fr.selfv
                selfcls = sc
            else:
                base, S = self.ev(fn.value, fr, S)
                if isinstance(base, VPath) and isinstance(base.typ, ClassInfo):
                    f = self.model.find_method(base.typ, fn.attr)
                    if f is not None and not f.is_property:
                        callee, recv, selfcls = f, base, base.typ
                    elif f is None:
                        # callable stored in a field -> unresolved, container mutator, or field read
                        pass
                elif isinstance(base, VClass):
                    f = self.model.find_method(base.cls, fn.attr)
                    if f is not None:
                        callee, recv, selfcls = f, None, base.cls
                elif isinstance(base, VModule):
                    r = self.model.resolve_name(base.mod, fn.attr)
                    if isinstance(r, FuncInfo):
                        callee = r
                    elif isinstance(r, ClassInfo):
                        fv = VClass(r)
                if callee is None and isinstance(base, VPath) and not isinstance(fv, VClass):
                    recv = base
                    if fn.attr in MUTATORS and not isinstance(base.typ, ClassInfo):
                        # container mutation
                        argv = []
                        for a in node.args:
                            v, S = self.ev(a, fr, S)
                            argv.append(v)
                        for k in node.keywords:
                            _, S = self.ev(k.value, fr, S)
                        if base.fresh:
                            return UNKNOWN, S
                        ev = WriteEvent(base.path + ("[]",), None, "[]", node, fr, "call:" + fn.attr,
                                        node.args[0] if node.args else None, base)
                        return UNKNOWN, self._dom_each(S, lambda s: self.dom.on_write(s, ev))
                    if not base.fresh:
                        p = base.path + (fn.attr,)
                        S = self._dom_each(S, lambda s: self.dom.on_read(s, p, fn, fr))
        elif isinstance(fn, ast.Name):
            fv = self.lookup(fn.id, fr)
            if isinstance(fv, VFunc):
                callee, recv, selfcls = fv.func, fv.selfv, fv.selfcls
        else:
            _, S = self.ev(fn, fr, S)

        # arguments, in order
        argvals: List[Tuple[Optional[str], Val, ast.expr]] = []
        for a in node.args:
            v, S = self.ev(a, fr, S)
            argvals.append((None, v, a))
        for k in node.keywords:
            v, S = self.ev(k.value, fr, S)
            argvals.append((k.arg, v, k.value))

        if isinstance(fv, VClass):
            return self.construct(fv.cls, node, argvals, fr, S)
        if callee is None:
            nm = self._call_name(node)
            # let the domain see unresolved calls too
            out = set()
            handled = False
            for s in S:
                r = self.dom.on_call(s, None, node, fr, recv, {})
                if r is not None:
                    handled = True
                    out.update(r)
                else:
                    out.add(s)
            if not handled:
                self.unresolved[nm] = self.unresolved.get(nm, 0) + 1
            return self.pure_call(node, fr), out
        pos = [(v, n) for (k, v, n) in argvals if k is None]
        kw = [(k, v, n) for (k, v, n) in argvals if k is not None]
        return self.do_call(callee, recv, selfcls, pos, kw, node, fr, S)

    def _call_name(self, node: ast.Call) -> str:
        try:
            return ast.unparse(node.func)
        except Exception:  # pragma: no cover
            return "?"

    def construct(self, cls: ClassInfo, node, argvals, fr: Frame, S: set) -> Tuple[Val, set]:
        out = set()
        for s in S:
            r = self.dom.on_call(s, None, node, fr, VClass(cls), {})
            out.update(r if r is not None else [s])
        return VPath((cls.name,), cls, fresh=True), out

    def bind(self, callee: FuncInfo, has_self: bool, pos, kw, fr: Frame):
        params = list(callee.params)
        if has_self and params:
            params = params[1:]
        args: Dict[str, Val] = {}
        argnodes: Dict[str, tuple] = {}
        for p, (v, n) in zip(params, pos):
            args[p] = v
            argnodes[p] = (n, fr)
        for (k, v, n) in kw:
            if k is not None:
                args[k] = v
                argnodes[k] = (n, fr)
        return args, argnodes

    def do_call(self, callee: FuncInfo, recv: Optional[Val], selfcls: Optional[ClassInfo], pos, kw, node,
                fr: Frame, S: set) -> Tuple[Val, set]:
        self.resolved_calls += 1
        has_self = callee.is_method or callee.is_classmethod
        if callee.is_method and recv is None and not callee.is_classmethod:
            # Class.method(obj, ...) explicit self
            if pos:
                recv = pos[0][0]
                pos = pos[1:]
        args, argnodes = self.bind(callee, has_self, pos, kw, fr)
        # domain summary?
        out = set()
        todo = set()
        for s in S:
            r = self.dom.on_call(s, callee, node, fr, recv, args)
            if r is None:
                todo.add(s)
            else:
                out.update(r)
        if not todo:
            return self.pure_ret(callee, recv, selfcls, node, fr), out
        todo = {self.dom.pre_call(s, callee, node, fr) for s in todo}
        # polymorphic dispatch on abstract/overridden methods of root classes
        targets = self.dispatch(callee, recv, selfcls)
        retv: Optional[Val] = None
        for (cal, rv, sc) in targets:
            if not self.dom.want_inline(cal, fr) or fr.depth >= self.max_depth:
                if fr.depth >= self.max_depth:
                    self.depth_cuts.append(f"{fr.func.qualname} -> {cal.qualname}")
                out |= todo
                continue
            v, o = self.inline(cal, rv, sc, args, argnodes, node, fr, todo)
            out |= o
            retv = v if retv is None else (retv if _same(retv, v) else UNKNOWN)
        if retv is None or isinstance(retv, VUnknown):
            retv = self.pure_ret(callee, recv, selfcls, node, fr)
        return retv, out

    def pure_ret(self, callee, recv, selfcls, node, fr) -> Val:
        if isinstance(node, ast.Call):
            return self.pure_call(node, fr)
        rt = self.model.parse_type(callee.module, callee.node.returns)
        if isinstance(rt, ClassInfo):
            return VPath((rt.name,), rt)
        return UNKNOWN

    def dispatch(self, callee: FuncInfo, recv: Optional[Val], selfcls: Optional[ClassInfo]):
        """Concrete implementations a call may reach."""
        if not callee.is_method or recv is None or not isinstance(recv, VPath) or selfcls is None:
            return [(callee, recv, selfcls)]
        # receiver is the analysed object itself (path root is its dynamic class): no widening
        if len(recv.path) == 1 and recv.path[0] == selfcls.name and not self._is_abstract_root(selfcls):
            return [(callee, recv, selfcls)]
        subs = [c for c in self.model.subclasses(selfcls.name)]
        if not subs:
            return [(callee, recv, selfcls)]
        out = []
        cands = ([selfcls] if not self._is_abstract_root(selfcls) else []) + subs
        for c in cands:
            f = self.model.find_method(c, callee.name)
            if f is None or f.is_abstract and f.cls is not c and self._is_abstract_root(f.cls):
                if f is None:
                    continue
            rv = VPath((c.name,) + recv.path[1:], c, recv.fresh) if len(recv.path) >= 1 else recv
            if self.is_root_class(c):
                rv = VPath((c.name,), c)
            out.append((f, rv, c))
        return out or [(callee, recv, selfcls)]

    def _is_abstract_root(self, c: ClassInfo) -> bool:
        return any(m.is_abstract for m in c.methods.values())

    def inline(self, callee: FuncInfo, recv, selfcls, args, argnodes, node, fr: Frame, S: set) -> Tuple[Val, set]:
        key_args = tuple(sorted((k, _valkey(v)) for k, v in args.items()))
        rk = _valkey(recv)
        sck = selfcls.name if selfcls is not None else None
        akey = (id(callee.node), sck, rk, key_args)
        if akey in self._active:
            # recursion: do not descend
            self.depth_cuts.append(f"recursion {callee.qualname}")
            return UNKNOWN, S
        self.inlined.add(callee.qualname)
        _cover.deep(callee, 'interp')
        out = set()
        retv: Optional[Val] = None
        self._active.append(akey)
        try:
            for s in S:
                mk = (akey, s, fr.fid, id(node))
                if mk in self._memo:
                    rstates, raises, rv = self._memo[mk]
                else:
                    sub = Frame(self, callee, recv, selfcls, args, argnodes, fr, node)
                    sink = Sink()
                    self.sinks.append(sink)
                    try:
                        res = self.call_body(sub, {s})
                    finally:
                        self.sinks.pop()
                    rv = None
                    for (_s, v, _n) in sub.returns:
                        rv = v if rv is None else (rv if _same(rv, v) else UNKNOWN)
                    rstates = set()
                    for r in res:
                        rstates.update(self.dom.on_call_return(r, callee, node, fr))
                    raises = sink.items
                    self._memo[mk] = (rstates, raises, rv)
                out |= rstates
                self.sinks[-1].items.extend(raises)
                if rv is not None:
                    retv = rv if retv is None else (retv if _same(retv, rv) else UNKNOWN)
        finally:
            self._active.pop()
        return (retv if retv is not None else UNKNOWN), out


def _same(a: Val, b: Val) -> bool:
    if isinstance(a, VPath) and isinstance(b, VPath):
        return a.path == b.path and a.fresh == b.fresh
    if isinstance(a, VConst) and isinstance(b, VConst):
        return type(a.value) == type(b.value) and a.value == b.value
    if isinstance(a, VTuple) and isinstance(b, VTuple) and len(a.items) == len(b.items):
        return all(_same(x, y) for x, y in zip(a.items, b.items))
    return False


def _valkey(v) -> tuple:
    if v is None:
        return ("none",)
    if isinstance(v, VPath):
        return ("p", v.path, v.fresh, id(v.typ) if v.typ is not None else 0)
    if isinstance(v, VConst):
        try:
            hash(v.value)
            return ("c", type(v.value).__name__, v.value)
        except TypeError:
            return ("c?",)
    if isinstance(v, VTuple):
        return ("t",) + tuple(_valkey(x) for x in v.items)
    if isinstance(v, VClass):
        return ("cls", v.cls.name)
    if isinstance(v, VFunc):
        return ("f", v.func.qualname)
    return ("u",)


def _handler_names(h: ast.ExceptHandler) -> List[Optional[str]]:
    if h.type is None:
        return [None]
    ts = h.type.elts if isinstance(h.type, ast.Tuple) else [h.type]
    out = []
    for t in ts:
        if isinstance(t, ast.Name):
            out.append(t.id)
        elif isinstance(t, ast.Attribute):
            out.append(t.attr)
        else:
            out.append(None)
    return out


def _walk_own(fnode):
    """Walk a function body without descending into nested function/class definitions (lambdas included)."""
    stack = list(fnode.body)
    while stack:
        n = stack.pop()
        yield n
        for ch in ast.iter_child_nodes(n):
            if isinstance(ch, (ast.FunctionDef, ast.AsyncFunctionDef, ast.ClassDef, ast.Lambda)):
                continue
            stack.append(ch)


_NOCONST = object()


def const_value(node: ast.expr):
    """Fold literal constants: numbers, strings, Decimal("..."), Decimal(n), 10**k, simple arithmetic."""
    from decimal import Decimal
    from fractions import Fraction

    if isinstance(node, ast.Constant):
        return node.value
    if isinstance(node, ast.UnaryOp) and isinstance(node.op, ast.USub):
        v = const_value(node.operand)
        if v is not _NOCONST and isinstance(v, (int, float, Decimal, Fraction)):
            return -v
        return _NOCONST
    if isinstance(node, ast.Call) and isinstance(node.func, ast.Name) and node.func.id in ("Decimal", "int", "float") \
            and len(node.args) == 1 and not node.keywords:
        v = const_value(node.args[0])
        if v is _NOCONST:
            return _NOCONST
        try:
            if node.func.id == "Decimal":
                return Decimal(v) if not isinstance(v, float) else Decimal(v)
            if node.func.id == "int":
                return int(v)
            return float(v)
        except Exception:
            return _NOCONST
    if isinstance(node, ast.BinOp):
        l = const_value(node.left)
        r = const_value(node.right)
        if l is _NOCONST or r is _NOCONST:
            return _NOCONST
        try:
            if isinstance(node.op, ast.Add):
                return l + r
            if isinstance(node.op, ast.Sub):
                return l - r
            if isinstance(node.op, ast.Mult):
                return l * r
            if isinstance(node.op, ast.Pow) and isinstance(r, int) and abs(r) < 400:
                return l ** r
            if isinstance(node.op, ast.LShift):
                return l << r
            if isinstance(node.op, ast.FloorDiv):
                return l // r
        except Exception:
            return _NOCONST
    return _NOCONST
