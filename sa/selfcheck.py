"""Checker self-validation (thorough tier): sensitivity corpus and benign twins, generated from the CURRENT tree.

For the functions a property's obligations are anchored in, small AST edits are made in memory (overlay, no files):
  sensitivity operators  - flip a comparison, swap an arithmetic operator, min<->max, change a numeric constant,
                           delete a statement (call / assignment), swap two adjacent simple statements, negate a test;
  benign twins           - rename a local variable consistently, swap the operands of a commutative operator,
                           wrap an expression in redundant parentheses-equivalent (`x` -> `(x)` is a no-op in the AST, so
                           instead `a + b` -> `b + a`), insert a no-op statement.
Each variant is analysed by the same check (`--root` replaced by the overlay).  A sensitivity variant that is reported
(or makes the analysis refuse with exit 2) is *detected*; one that stays silent *survives* - survivors are listed in the
evidence (many are behaviourally equivalent: messages, logging, redundant guards) and were used to strengthen the rules.
A benign twin that raises a violation means the checker is wrong: the thorough run then fails with ANALYSIS-ERROR.
"""
from __future__ import annotations

import ast
import copy
import importlib
import os
import random
from concurrent.futures import ProcessPoolExecutor
from typing import Dict, List, Tuple

from .model import AnalysisError, Model

MAX_VARIANTS = 160
MAX_TWINS = 40


def _functions_of_sites(model: Model, res) -> Dict[str, List[ast.FunctionDef]]:
    """relpath -> function nodes containing an obligation / finding site."""
    by_file: Dict[str, set] = {}
    for o in res.obligations:
        if ":" not in o.site:
            continue
        path, _, line = o.site.rpartition(":")
        if not line.isdigit():
            continue
        by_file.setdefault(path, set()).add(int(line))
    out: Dict[str, List[ast.FunctionDef]] = {}
    for m in model.modules.values():
        lines = by_file.get(m.relpath)
        if not lines:
            continue
        funcs = [n for n in ast.walk(m.tree) if isinstance(n, (ast.FunctionDef, ast.AsyncFunctionDef))]
        hit = []
        for ln in lines:
            best = None
            for f in funcs:
                if f.lineno <= ln <= (f.end_lineno or f.lineno):
                    if best is None or f.lineno >= best.lineno:
                        best = f
            if best is not None and best not in hit:
                hit.append(best)
        if hit:
            out[m.relpath] = hit
    return out


CMP_FLIP = {ast.Lt: ast.LtE, ast.LtE: ast.Lt, ast.Gt: ast.GtE, ast.GtE: ast.Gt, ast.Eq: ast.NotEq, ast.NotEq: ast.Eq}
ARITH_SWAP = {ast.Add: ast.Sub, ast.Sub: ast.Add, ast.Mult: ast.Div, ast.Div: ast.Mult}


def _variants(tree: ast.Module, fnode: ast.FunctionDef):
    """Yield (kind, description, new_tree) for sensitivity variants of one function."""
    idx = [i for i, n in enumerate(ast.walk(tree)) if n is fnode][0]

    def fresh():
        t = copy.deepcopy(tree)
        f = list(ast.walk(t))[idx]
        return t, f

    nodes = list(ast.walk(fnode))
    for k, n in enumerate(nodes):
        if isinstance(n, ast.Compare) and len(n.ops) == 1 and type(n.ops[0]) in CMP_FLIP:
            t, f = fresh()
            m = list(ast.walk(f))[k]
            m.ops = [CMP_FLIP[type(m.ops[0])]()]
            yield "cmp-flip", f"{fnode.name}:{n.lineno} `{ast.unparse(n)[:60]}` -> `{ast.unparse(m)[:60]}`", t
        if isinstance(n, ast.BinOp) and type(n.op) in ARITH_SWAP:
            t, f = fresh()
            m = list(ast.walk(f))[k]
            m.op = ARITH_SWAP[type(m.op)]()
            yield "arith-swap", f"{fnode.name}:{n.lineno} `{ast.unparse(n)[:60]}` -> `{ast.unparse(m)[:60]}`", t
        if isinstance(n, ast.Call) and isinstance(n.func, ast.Name) and n.func.id in ("min", "max"):
            t, f = fresh()
            m = list(ast.walk(f))[k]
            m.func.id = "max" if m.func.id == "min" else "min"
            yield "minmax", f"{fnode.name}:{n.lineno} `{ast.unparse(n)[:60]}`", t
        if isinstance(n, ast.Constant) and isinstance(n.value, (int, float)) and not isinstance(n.value, bool) \
                and not isinstance(getattr(n, "_parent", None), ast.Expr):
            t, f = fresh()
            m = list(ast.walk(f))[k]
            m.value = m.value + 1 if m.value != 1 else 2
            yield "const", f"{fnode.name}:{n.lineno} constant {n.value!r} -> {m.value!r}", t
        if isinstance(n, ast.If):
            t, f = fresh()
            m = list(ast.walk(f))[k]
            m.test = ast.UnaryOp(op=ast.Not(), operand=m.test)
            ast.fix_missing_locations(t)
            yield "negate-test", f"{fnode.name}:{n.lineno} `if {ast.unparse(n.test)[:60]}` negated", t
    # statement deletions / swaps on every statement list inside the function
    lists = []
    for k, n in enumerate(nodes):
        for fld in ("body", "orelse"):
            b = getattr(n, fld, None)
            if isinstance(b, list) and b and all(isinstance(x, ast.stmt) for x in b):
                lists.append((k, fld, b))
    for k, fld, b in lists:
        for i, st in enumerate(b):
            simple = isinstance(st, (ast.Expr, ast.Assign, ast.AugAssign)) and not (
                isinstance(st, ast.Expr) and isinstance(st.value, ast.Constant))
            if simple and len(b) > 1:
                t, f = fresh()
                m = list(ast.walk(f))[k]
                getattr(m, fld).pop(i)
                yield "delete-stmt", f"{fnode.name}:{st.lineno} delete `{ast.unparse(st)[:70]}`", t
            if simple and i + 1 < len(b) and isinstance(b[i + 1], (ast.Expr, ast.Assign, ast.AugAssign)):
                t, f = fresh()
                m = list(ast.walk(f))[k]
                l = getattr(m, fld)
                l[i], l[i + 1] = l[i + 1], l[i]
                yield "swap-stmts", f"{fnode.name}:{st.lineno} swap `{ast.unparse(st)[:40]}` <-> `{ast.unparse(b[i + 1])[:40]}`", t


def _twins(tree: ast.Module, fnode: ast.FunctionDef):
    idx = [i for i, n in enumerate(ast.walk(tree)) if n is fnode][0]

    def fresh():
        t = copy.deepcopy(tree)
        return t, list(ast.walk(t))[idx]

    # rename a local (assigned Name, not a parameter, not used in nested defs/lambdas/f-strings specially)
    params = {a.arg for a in fnode.args.args + fnode.args.kwonlyargs + fnode.args.posonlyargs}
    assigned = []
    for n in ast.walk(fnode):
        if isinstance(n, ast.Name) and isinstance(n.ctx, ast.Store) and n.id not in params and n.id not in assigned:
            assigned.append(n.id)
    globals_used = {n.id for n in ast.walk(fnode) if isinstance(n, ast.Name)}
    for name in assigned[:3]:
        new = name + "_rn"
        if new in globals_used or any(isinstance(n, (ast.Global, ast.Nonlocal)) for n in ast.walk(fnode)):
            continue
        t, f = fresh()
        for n in ast.walk(f):
            if isinstance(n, ast.Name) and n.id == name:
                n.id = new
        yield "rename-local", f"{fnode.name}: {name} -> {new}", t
    # commutative operand swap (numbers only: * and + between non-string operands)
    nodes = list(ast.walk(fnode))
    done = 0
    for k, n in enumerate(nodes):
        if isinstance(n, ast.BinOp) and isinstance(n.op, ast.Mult) and done < 2 \
                and not any(isinstance(x, (ast.Constant,)) and isinstance(x.value, str) for x in ast.walk(n)) \
                and not any(isinstance(x, ast.Call) for x in (n.left, n.right)):
            t, f = fresh()
            m = list(ast.walk(f))[k]
            m.left, m.right = m.right, m.left
            done += 1
            yield "commute", f"{fnode.name}:{n.lineno} `{ast.unparse(n)[:60]}` operands swapped", t
    # no-op statement
    t, f = fresh()
    f.body.insert(len(f.body) if not isinstance(f.body[-1], ast.Return) else len(f.body) - 1, ast.Pass())
    ast.fix_missing_locations(t)
    yield "noop", f"{fnode.name}: `pass` inserted", t


def _run_variant(args):
    pid, root, rel, src, tier = args
    os.environ["PYTHONHASHSEED"] = "0"
    try:
        mod = importlib.import_module(f"sa.props.{pid}")
        model = Model(root, overlay={rel: src})
        res = mod.run(model, "quick")
        from .report import load_known
        known = {k["key"] for k in load_known().get("known", []) if k.get("property") == pid}
        new = [f for f in res.findings if f.key not in known]
        return "violation" if new else "silent", (new[0].message[:160] if new else "")
    except AnalysisError as e:
        return "analysis-error", str(e)[:160]
    except SyntaxError as e:  # pragma: no cover
        return "invalid", str(e)[:80]
    except Exception as e:  # noqa
        return "analysis-error", f"internal: {e!r}"[:160]


def selfcheck(pid: str, model: Model, root: str, seed: int, res, jobs: int = 16) -> dict:
    targets = _functions_of_sites(model, res)
    sens: List[Tuple[str, str, str, str]] = []
    twins: List[Tuple[str, str, str, str]] = []
    for rel, funcs in sorted(targets.items()):
        m = [x for x in model.modules.values() if x.relpath == rel][0]
        for fn in funcs:
            for kind, desc, t in _variants(m.tree, fn):
                try:
                    sens.append((rel, kind, desc, ast.unparse(t)))
                except Exception:
                    continue
            for kind, desc, t in _twins(m.tree, fn):
                try:
                    twins.append((rel, kind, desc, ast.unparse(t)))
                except Exception:
                    continue
    rnd = random.Random(seed)
    rnd.shuffle(sens)
    rnd.shuffle(twins)
    # keep a spread of kinds
    sens = sens[:MAX_VARIANTS]
    twins = twins[:MAX_TWINS]
    # the unparsed baseline must itself be silent (unparse normalises formatting only)
    jobs_in = [(pid, root, rel, src, "quick") for (rel, kind, desc, src) in sens + twins]
    with ProcessPoolExecutor(max_workers=jobs) as ex:
        outs = list(ex.map(_run_variant, jobs_in, chunksize=2))
    s_out, t_out = outs[:len(sens)], outs[len(sens):]
    detected = sum(1 for o in s_out if o[0] in ("violation", "analysis-error"))
    violations = sum(1 for o in s_out if o[0] == "violation")
    survivors = [f"[{k}] {d}" for (rel, k, d, src), o in zip(sens, s_out) if o[0] == "silent"]
    noisy = [f"[{k}] {d}: {o[1]}" for (rel, k, d, src), o in zip(twins, t_out) if o[0] == "violation"]
    by_kind: Dict[str, List[int]] = {}
    for (rel, k, d, src), o in zip(sens, s_out):
        by_kind.setdefault(k, [0, 0])
        by_kind[k][1] += 1
        if o[0] != "silent":
            by_kind[k][0] += 1
    out = {
        "functions_mutated": sum(len(v) for v in targets.values()),
        "sensitivity_variants": len(sens),
        "reported_as_violation": violations,
        "refused_as_unreadable": detected - violations,
        "silent": len(survivors),
        "by_operator": {k: f"{v[0]}/{v[1]}" for k, v in sorted(by_kind.items())},
        "survivor_samples": survivors[:25],
        "benign_twins": len(twins),
        "benign_twins_silent_or_refused": sum(1 for o in t_out if o[0] != "violation"),
        "noisy_twins": noisy[:10],
        "note": "survivors include behaviourally equivalent edits (messages, logging, dead stores, redundant guards); "
                "a noisy benign twin fails the thorough run",
    }
    if noisy:
        raise AnalysisError(f"{pid}: checker raised a violation on a benign twin: {noisy[0]}")
    return out
