"""State classification of the fields of markets and broker (confirmed by reading every __init__).

holding  : positions, debts, cash -- what a user owns
status   : per-bar market status
memo     : caches of derived values
config   : set at construction / wiring
transient: flags that do not carry value
An unclassified field of a Market subclass or Broker defaults to *holding* (conservative) and is reported.
"""
from __future__ import annotations

from typing import Dict, Tuple

from .model import ClassInfo, Model

FIELD_CLASS: Dict[Tuple[str, str], str] = {
    # Market base
    ("Market", "_data"): "input",
    ("Market", "data_path"): "config",
    ("Market", "_market_info"): "config",
    ("Market", "broker"): "config",
    ("Market", "_record_action_callback"): "config",
    ("Market", "logger"): "config",
    ("Market", "_market_status"): "status",
    ("Market", "_price_status"): "status",
    ("Market", "has_update"): "transient",
    ("Market", "open"): "config",
    ("Market", "is_open"): "status",
    ("Market", "quote_token"): "config",
    # Uniswap
    ("UniLpMarket", "_pool"): "config",
    ("UniLpMarket", "_is_token0_quote"): "config",
    ("UniLpMarket", "base_token"): "config",
    ("UniLpMarket", "_positions"): "holding",
    ("UniLpMarket", "_pool_price_unit"): "config",
    ("UniLpMarket", "last_tick"): "status",
    # Aave
    ("AaveV3Market", "_supplies"): "holding",
    ("AaveV3Market", "_borrows"): "holding",
    ("AaveV3Market", "_risk_parameters"): "config",
    ("AaveV3Market", "_collaterals_amount_cache"): "memo",
    ("AaveV3Market", "_supplies_amount_cache"): "memo",
    ("AaveV3Market", "_supplies_cache"): "memo",
    ("AaveV3Market", "_borrows_amount_cache"): "memo",
    ("AaveV3Market", "_borrows_cache"): "memo",
    ("AaveV3Market", "_tokens"): "config",
    # Squeeth
    ("SqueethMarket", "_network"): "config",
    ("SqueethMarket", "_squeeth_uni_pool"): "config",
    ("SqueethMarket", "vault"): "holding",
    ("SqueethMarket", "_max_vault_id"): "holding",
    # Deribit
    ("DeribitOptionMarket", "token"): "config",
    ("DeribitOptionMarket", "token_config"): "config",
    ("DeribitOptionMarket", "decimal"): "config",
    ("DeribitOptionMarket", "positions"): "holding",
    ("DeribitOptionMarket", "_balance_cache"): "memo",
    ("DeribitOptionMarket", "balance"): "holding",
    # GMX v1
    ("GmxMarket", "glp_amount"): "holding",
    ("GmxMarket", "glp_decimal"): "config",
    ("GmxMarket", "reward"): "holding",
    ("GmxMarket", "mint_burn_fee_basis_points"): "config",
    ("GmxMarket", "tax_basis_points"): "config",
    ("GmxMarket", "_tokens"): "config",
    # GMX v2
    ("GmxV2Market", "pool"): "config",
    ("GmxV2Market", "amount"): "holding",
    ("GmxV2Market", "pool_config"): "config",
    # Broker
    ("Broker", "allow_negative_balance"): "config",
    ("Broker", "_assets"): "holding",
    ("Broker", "_markets"): "config",
    ("Broker", "_record_action_callback"): "config",
    ("Broker", "quote_token"): "config",
}

# quantity fields of the value classes reachable from holding fields
HOLDING_VALUE_FIELDS = {
    "Position": ["liquidity", "pending_amount0", "pending_amount1"],
    "SupplyInfo": ["base_amount"],
    "BorrowInfo": ["base_amount"],
    "Vault": ["collateral_amount", "osqth_short_amount", "uni_nft_id"],
    "OptionPosition": ["amount"],
    "Asset": ["balance"],
}


def classify(model: Model, cls: ClassInfo, field: str) -> str:
    for k in model.mro(cls):
        c = FIELD_CLASS.get((k.name, field))
        if c:
            return c
    return "unclassified"


def classify_root(model: Model, root: str, field: str) -> str:
    c = model.classes.get(root)
    if c is None:
        return "unknown-root"
    return classify(model, c, field)


def unclassified_fields(model: Model):
    out = []
    for cname in ["Broker"] + [c.name for c in model.subclasses("Market")]:
        c = model.classes[cname]
        for f in model.fields_assigned_in_init(c):
            if classify(model, c, f) == "unclassified":
                out.append(f"{cname}.{f}")
    return out


def is_user_state_path(model: Model, path: tuple) -> bool:
    """Does a write to this access path change user-visible state (holdings, order book, wallet)?"""
    if not path:
        return False
    root = path[0]
    if root == "Asset":
        return len(path) >= 2 and path[1] == "balance"
    if root in HOLDING_VALUE_FIELDS:
        return len(path) >= 2
    c = model.classes.get(root)
    if c is None or len(path) < 2:
        return False
    if not (model.is_subclass(c, "Market") or root == "Broker"):
        return False
    k = classify(model, c, path[1])
    if k in ("holding", "unclassified"):
        return True
    if k == "status" and path[1] == "_market_status":
        # writes *into* the current status row (the visible order book / pool row), not rebinding per bar
        return len(path) > 2 and "data" in path[2:]
    return False
