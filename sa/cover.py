"""Which repository functions did a check consult?  A process-wide recorder used only by tools/coverage_map.py.
'vn' = evaluated by the value-numbering evaluator (as a target compared with a reference, or inlined into one);
'interp' = interpreted by the abstract interpreter (R-ATOM / R-CACHE / R-EFFECT paths); 'anchor' = looked up or
reported on by a syntactic rule."""
VN = set()
INTERP = set()
ANCHOR = set()


def _k(f):
    return (f.module.relpath, f.qualname, getattr(f.node, "lineno", 0))


def deep(f, kind="vn"):
    try:
        (VN if kind == "vn" else INTERP).add(_k(f))
    except Exception:  # noqa
        pass


def anchor(f):
    try:
        ANCHOR.add(_k(f))
    except Exception:  # noqa
        pass


def reset():
    VN.clear()
    INTERP.clear()
    ANCHOR.clear()
