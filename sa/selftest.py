"""Setup-time self test: the engine parses a tiny fixture and the rules fire on it (stdlib only)."""
import ast, sys, tempfile, os, textwrap

from .model import Model
from .interp import Domain, Interp


FIXTURE = '''
class Market:
    def __init__(self):
        self.is_open = True
        self.has_update = False

def write_func(f):
    return f

class M(Market):
    def __init__(self):
        super().__init__()
        self.amount = 0

    @write_func
    def op(self, x):
        self.amount += x
        if x > 3:
            raise ValueError("late check")
'''


def main():
    with tempfile.TemporaryDirectory() as d:
        os.makedirs(os.path.join(d, "demeter"))
        open(os.path.join(d, "demeter", "__init__.py"), "w").write("")
        open(os.path.join(d, "demeter", "m.py"), "w").write(textwrap.dedent(FIXTURE))
        m = Model(d)
        seen = {"w": 0, "r": 0}

        class T(Domain):
            def on_write(self, st, ev):
                seen["w"] += 1
                return [st]

            def on_raise(self, st, node, fr, exc):
                seen["r"] += 1
                return [st]

        f = m.func("M.op")
        out, raises = Interp(m, T()).run(f, f.cls)
        assert seen["w"] >= 2 and seen["r"] >= 2 and len(raises) == 2, (seen, len(raises))
    from .norm import Rat
    from .vn import sym
    a, b = sym("a"), sym("b")
    assert (a + b) * (a - b) == a * a - b * b
    assert a / b * b == a
    print("sa selftest ok")


if __name__ == "__main__":
    main()
