"""Setup-time self test: the engine parses a tiny fixture and the rules fire on it (stdlib only)."""
import ast, sys, tempfile, os, textwrap

from .model import Model
from .interp import Domain, Interp


FIXTURE = '''
class Market:
    def __init__(self):
        self.is_open = True
        self.has_update = False

def write_func(f):
    return f

class M(Market):
    def __init__(self):
        super().__init__()
        self.amount = 0

    @write_func
    def op(self, x):
        self.amount += x
        if x > 3:
            raise ValueError("late check")
'''


# Rules whose expected number of reports on the repository is ZERO carry a positive example here: on every run each
# rule must fire on its fixture (a rule that silently stopped matching would otherwise pass forever).
FIXTURE_ZERO_RULES = '''
import copy

CACHE = {}

class Status:
    def __init__(self, ts, data):
        self.ts = ts
        self.data = data

class Holder:
    shared = {}

    def __init__(self, items=[]):
        self.items = items
        self._data = None
        self.market_status = None

    def remember(self, k, v):
        self.shared[k] = v

    def set_market_status(self, st):
        self.market_status = st

    def fill(self, orders, n):
        for o in orders:
            o[1] -= n

    def trade(self, name, n):
        row = self._data.loc[name]
        book = list(row.asks)
        self.fill(book, n)

    def trade_ok(self, name, n):
        row = self._data.loc[name]
        book = copy.deepcopy(row.asks)
        self.fill(book, n)

def memo(x):
    CACHE[x] = x
    return CACHE[x]

def refresh(markets, ts):
    st = Status(ts, None)
    for m in markets:
        m.set_market_status(st)

def refresh_ok(markets, ts):
    for m in markets:
        m.set_market_status(Status(ts, None))
'''


def positive_fixtures():
    from .report import Result
    from .rules.alias import cell_mutation_rule, loop_sharing_rule
    from .rules.fresh import fresh_rule
    with tempfile.TemporaryDirectory() as d:
        os.makedirs(os.path.join(d, "demeter", "core"))
        open(os.path.join(d, "demeter", "__init__.py"), "w").write("")
        open(os.path.join(d, "demeter", "core", "__init__.py"), "w").write("")
        open(os.path.join(d, "demeter", "core", "z.py"), "w").write(textwrap.dedent(FIXTURE_ZERO_RULES))
        m = Model(d)
        r = Result("T", "selftest")
        fresh_rule(m, r)
        kinds = sorted({f.construct.split()[0] for f in r.findings})
        assert any("default" in f.construct for f in r.findings), ("S1 mutable default not reported", kinds)
        assert any("class attribute" in f.construct for f in r.findings), ("S2 class attribute not reported", kinds)
        assert any("module object" in f.construct for f in r.findings), ("S3 module object not reported", kinds)
        r = Result("T", "selftest")
        mut, nf = cell_mutation_rule(m, r)
        assert nf == 1 and "Holder.fill" in mut and any("Holder.trade" == f.func for f in r.findings) \
            and not any("trade_ok" in f.func for f in r.findings), ("cell mutation rule", mut, [f.func for f in r.findings])
        r = Result("T", "selftest")
        loop_sharing_rule(m, r, scope=())
        assert [f.func for f in r.findings] == ["core.z.refresh"], ("loop sharing rule", [f.func for f in r.findings])

    # R-ORIENT-X: a (base, quote) pair of the pool taken apart outside the Uniswap package, once through a forwarding
    # helper without consulting the orientation (must be reported) and once under an orientation test (must not)
    from .rules.orientx import orientation_rule
    with tempfile.TemporaryDirectory() as d:
        for pk in ("", "uniswap", "other"):
            os.makedirs(os.path.join(d, "demeter", pk), exist_ok=True)
            open(os.path.join(d, "demeter", pk, "__init__.py"), "w").write("")
        open(os.path.join(d, "demeter", "uniswap", "market.py"), "w").write(textwrap.dedent(FIXTURE_ORIENT_POOL))
        open(os.path.join(d, "demeter", "other", "market.py"), "w").write(textwrap.dedent(FIXTURE_ORIENT_USER))
        m = Model(d)
        r = Result("T", "selftest")
        n = orientation_rule(m, r)
        assert [f.func for f in r.findings] == ["User.bad"] and n["sites"] == 3, ("orientation rule", n, [f.func for f in r.findings])


FIXTURE_WORLD = '''
from dataclasses import dataclass
from functools import lru_cache, cached_property, wraps

TEMPLATE = {}
DECIMAL_0 = 1


def traced(func):
    @wraps(func)
    def wrapper(*args, **kwargs):
        print("call")
        return func(*args, **kwargs)
    return wrapper


def swallowing(func):
    def wrapper(*args, **kwargs):
        try:
            return func(*args, **kwargs)
        except Exception:
            return None
    return wrapper


def amount(a, b):
    return a * b


def _amount_fast(a, b):
    return a + b


amount = _amount_fast


@dataclass
class Rec:
    t: int

    def __post_init__(self):
        self.t = self.t // 60


class Holder:
    items = []

    def __init__(self):
        self.state = 1

    @cached_property
    def view(self):
        return self.state * 2

    @lru_cache(maxsize=None)
    def pure(self, x):
        return x + 1

    @traced
    def ok(self, x):
        return x

    @swallowing
    def bad(self, x):
        return x

    def fill(self):
        m = TEMPLATE
        m["k"] = self.state
        return m


class Shallow:
    def __deepcopy__(self, memo):
        import copy
        return copy.copy(self)
'''


def world_fixtures():
    from .report import Result
    from .rules.fresh import fresh_rule
    with tempfile.TemporaryDirectory() as d:
        os.makedirs(os.path.join(d, "demeter"))
        open(os.path.join(d, "demeter", "__init__.py"), "w").write("")
        open(os.path.join(d, "demeter", "_typing.py"), "w").write(textwrap.dedent(FIXTURE_WORLD))
        m = Model(d)
        assert m.modules["demeter._typing"].funcs["amount"].node.name == "_amount_fast", "W1: the last binding of a def-bound name is followed"
        r = Result("T", "selftest")
        fresh_rule(m, r)          # runs R-WORLD at its end
        txt = " | ".join(f"{f.func}: {f.construct}" for f in r.findings)
        assert "Holder.view: @cached_property" in txt, ("W3 memo on a state reader", txt)
        assert "Holder.pure" not in txt, ("W3 memo on a function of its arguments must stay silent", txt)
        assert "Rec.__post_init__" in txt, ("W5 record constructor rewrites a field", txt)
        assert "DECIMAL_0 is not 0" in txt, ("W6 named constant", txt)
        assert "Holder.items" in txt, ("S2b empty class container", txt)
        assert "module object TEMPLATE" in txt, ("S3 module object written through a local alias", txt)
        assert "Shallow.__deepcopy__" in txt, ("W4 __deepcopy__ that deep-copies nothing", txt)
        ref = " | ".join(r.refusals)
        assert "@swallowing" in txt and "@traced" not in txt and "@traced" not in ref, ("W3 transparent vs result-replacing repository decorator", txt, ref)


FIXTURE_POS = '''
class DemeterError(RuntimeError):
    pass


class Broker:
    def __init__(self):
        self._assets = {}

    def subtract_from_balance(self, token, amount):
        self._assets[token].sub(amount)


class Market:
    def __init__(self):
        self.broker = Broker()


class M(Market):
    def __init__(self):
        super().__init__()
        self.amount = 0

    def pay(self, token, amount):
        self.broker.subtract_from_balance(token, amount)
        self.amount += amount

    def pay_checked(self, token, amount):
        if amount < 0:
            raise DemeterError("negative")
        self.broker.subtract_from_balance(token, amount)
        self.amount += amount
'''


def pos_fixture():
    from .report import Result
    from .rules.posarg import run_posarg
    with tempfile.TemporaryDirectory() as d:
        os.makedirs(os.path.join(d, "demeter"))
        open(os.path.join(d, "demeter", "__init__.py"), "w").write("")
        open(os.path.join(d, "demeter", "m.py"), "w").write(textwrap.dedent(FIXTURE_POS))
        m = Model(d)
        r = Result("T", "selftest")
        run_posarg(m, r, jobs=1)
        got = sorted(f.func for f in r.findings)
        assert "M.pay" in got and "M.pay_checked" not in got, ("R-POS", got, r.notes)


FIXTURE_ORIENT_POOL = """
class UniLpMarket:
    def _convert_pair(self, a0, a1):
        return (a1, a0) if self._is_token0_quote else (a0, a1)

    def collect_fee(self, p):
        t0, t1 = self.raw(p)
        base_get, quote_get = self._convert_pair(t0, t1)
        return base_get, quote_get
"""

FIXTURE_ORIENT_USER = """
from ..uniswap.market import UniLpMarket


class User:
    def __init__(self, pool: UniLpMarket):
        self._pool: UniLpMarket = pool

    def fwd(self, p):
        a, b = self._pool.collect_fee(p)
        return a, b

    def bad(self, p):
        x, y = self.fwd(p)
        self.eth += x
        self.sq += y

    def good(self, p):
        x, y = self._pool.collect_fee(p)
        if self._pool.quote_token == self.weth:
            x, y = y, x
        self.eth += x
        self.sq += y
"""


def main():
    with tempfile.TemporaryDirectory() as d:
        os.makedirs(os.path.join(d, "demeter"))
        open(os.path.join(d, "demeter", "__init__.py"), "w").write("")
        open(os.path.join(d, "demeter", "m.py"), "w").write(textwrap.dedent(FIXTURE))
        m = Model(d)
        seen = {"w": 0, "r": 0}

        class T(Domain):
            def on_write(self, st, ev):
                seen["w"] += 1
                return [st]

            def on_raise(self, st, node, fr, exc):
                seen["r"] += 1
                return [st]

        f = m.func("M.op")
        out, raises = Interp(m, T()).run(f, f.cls)
        assert seen["w"] >= 2 and seen["r"] >= 2 and len(raises) == 2, (seen, len(raises))
    positive_fixtures()
    world_fixtures()
    pos_fixture()
    from .norm import Rat
    from .vn import sym
    a, b = sym("a"), sym("b")
    assert (a + b) * (a - b) == a * a - b * b
    assert a / b * b == a
    print("sa selftest ok")


if __name__ == "__main__":
    main()
