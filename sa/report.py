"""Findings, obligations, known-findings matching, evidence and replay files."""
from __future__ import annotations

import hashlib
import json
import os
import re
from typing import Dict, List, Optional

VERIF = os.path.dirname(os.path.dirname(os.path.abspath(__file__)))
KNOWN_FILE = os.path.join(VERIF, "known_findings.json")


def norm_text(s: str, limit: int = 160) -> str:
    s = re.sub(r"\s+", " ", s.strip())
    # drop string literal contents (messages) so rewording an error message does not move keys
    s = re.sub(r"f?'[^']*'", "'…'", s)
    s = re.sub(r'f?"[^"]*"', "'…'", s)
    return s[:limit]


class Finding:
    def __init__(self, prop: str, rule: str, func: str, construct: str, where: str, message: str,
                 detail: Optional[dict] = None):
        self.prop = prop
        self.rule = rule
        self.func = func
        self.construct = norm_text(construct)
        self.where = where
        self.message = message
        self.detail = detail or {}

    @property
    def key(self) -> str:
        return f"{self.rule}|{self.func}|{self.construct}"

    @property
    def alt_key(self) -> Optional[str]:
        """Second identity of an atomicity finding that does not depend on WHICH function contains the write or the
        rejection (stable when a block is extracted into, or inlined from, a private helper): the user operation that
        was analysed, the text of the write and the text of the rejection."""
        d = self.detail
        if self.rule == "R-ATOM" and isinstance(d, dict) and d.get("entry") and isinstance(d.get("write"), dict) \
                and isinstance(d.get("rejection"), dict):
            w, r = d["write"], d["rejection"]
            return f"R-ATOM|{d['entry']}|{norm_text(w.get('key_text', w.get('text', '')))} >> {norm_text(r.get('key_text', r.get('text', '')))}"
        return None

    @property
    def abs_key(self) -> Optional[str]:
        """Third identity of an atomicity finding, free of source text: the user operation analysed, WHICH state is left
        changed (the first two components of the state path: `Broker._assets`, `SqueethMarket.vault`, `ACTION-LOG`) and
        WHICH rejection is reached afterwards (function containing it, exception class, and the callee when the rejection
        comes out of a call).  Caching `self.vault[k]` in a local, or reading a property once, changes the text of a
        write but not what is written before which rejection."""
        d = self.detail
        if not (self.rule == "R-ATOM" and isinstance(d, dict) and d.get("entry") and isinstance(d.get("write"), dict)
                and isinstance(d.get("rejection"), dict)):
            return None
        path = ".".join(str(d["write"].get("path", "")).split(".")[:2])
        r = d["rejection"]
        kind = "raise"
        txt = r.get("text", "")
        try:
            import ast as _ast
            st = _ast.parse(txt).body[0]
            call = st.value if isinstance(st, (_ast.Expr, _ast.Assign, _ast.AugAssign, _ast.AnnAssign, _ast.Return)) else None
            if isinstance(call, _ast.Call):
                fn = call.func
                kind = "call " + (fn.attr if isinstance(fn, _ast.Attribute) else getattr(fn, "id", "?"))
            elif isinstance(st, _ast.Assert):
                kind = "assert"
            elif not isinstance(st, _ast.Raise):
                kind = "stmt"
        except Exception:  # noqa
            kind = "gate" if txt.startswith("@write_func") else "?"
        return f"R-ATOM|{d['entry']}|{path}|{r.get('func', '')}:{r.get('exception', '')}:{kind}"

    def to_json(self) -> dict:
        return {"property": self.prop, "rule": self.rule, "function": self.func, "construct": self.construct,
                "where": self.where, "message": self.message, "key": self.key, "detail": self.detail}


class Obligation:
    __slots__ = ("rule", "instance", "site", "verdict", "detail")

    def __init__(self, rule: str, instance: str, site: str, verdict: str = "discharged", detail: str = ""):
        self.rule = rule
        self.instance = instance
        self.site = site
        self.verdict = verdict
        self.detail = detail

    def to_json(self) -> dict:
        d = {"rule": self.rule, "instance": self.instance, "site": self.site, "verdict": self.verdict}
        if self.detail:
            d["detail"] = self.detail
        return d


class Result:
    def __init__(self, prop: str, explanation: str):
        self.prop = prop
        self.explanation = explanation
        self.rules: List[str] = []
        self.obligations: List[Obligation] = []
        self.findings: List[Finding] = []
        self.units: Dict[str, object] = {}
        self.assumptions: List[str] = []
        self.not_decided: List[str] = []
        self.notes: List[str] = []
        self.selfcheck: Optional[dict] = None
        self.refusals: List[str] = []     # reasons why nothing can be decided (exit 2 unless a violation was found anyway)

    # -------------------------------------------------------------- helpers
    def ob(self, rule: str, instance: str, site: str, ok: bool = True, detail: str = "") -> Obligation:
        o = Obligation(rule, instance, site, "discharged" if ok else "violated", detail)
        self.obligations.append(o)
        return o

    def find(self, rule: str, func: str, construct: str, where: str, message: str, detail: Optional[dict] = None):
        f = Finding(self.prop, rule, func, construct, where, message, detail)
        for g in self.findings:
            if g.key == f.key:
                g.detail.setdefault("also_at", [])
                if where not in g.detail["also_at"] and where != g.where:
                    g.detail["also_at"].append(where)
                return g
        self.findings.append(f)
        return f

    def floor(self, what: str, got: int, minimum: int):
        """Fail closed when a rule matched fewer instances than confirmed by hand."""
        from .model import AnalysisError

        self.units[what] = got
        if got < minimum and (self.findings or self.refusals):
            # the shortfall is explained by a reported violation (e.g. a mask step that no longer has the shape)
            self.notes.append(f"instance floor for {what} missed ({got} < {minimum}) together with reported findings")
            return
        if got < minimum:
            raise AnalysisError(f"{self.prop}: instance floor missed for {what}: found {got} < {minimum} "
                                f"(anchor vanished or rule no longer matches the code shape)")


def load_known() -> dict:
    if not os.path.exists(KNOWN_FILE):
        return {"known": [], "fixed": []}
    with open(KNOWN_FILE) as fh:
        return json.load(fh)


def finish(res: Result, tier: str, seed: int, wall_s: float, out_dir: Optional[str] = None,
           write_evidence: bool = True, quiet: bool = False) -> int:
    """Print verdict lines, write evidence/replay, return the exit code."""
    known = load_known()
    known_keys = {k["key"]: k for k in known.get("known", []) if k.get("property") == res.prop}
    known_alts = {k["alt"]: k for k in known.get("known", []) if k.get("property") == res.prop and k.get("alt")}
    known_abs = {k["abs"]: k for k in known.get("known", []) if k.get("property") == res.prop and k.get("abs")}
    violations = []
    matched = []
    hit_keys = set()
    for f in res.findings:
        if f.key in known_keys:
            matched.append((f, known_keys[f.key]))
            hit_keys.add(f.key)
        elif f.alt_key is not None and f.alt_key in known_alts:
            # the same (operation, write, rejection) as a listed finding, only located in another function now
            matched.append((f, known_alts[f.alt_key]))
            hit_keys.add(known_alts[f.alt_key]["key"])
        elif f.abs_key is not None and f.abs_key in known_abs:
            # the same operation leaves the same state changed before the same rejection; only the source text differs
            matched.append((f, known_abs[f.abs_key]))
            hit_keys.add(known_abs[f.abs_key]["key"])
        else:
            violations.append(f)
    stale_known = [k for k in known_keys if k not in hit_keys]
    out_dir = out_dir or os.path.join(VERIF, "out")
    lines = []
    n_ob = len(res.obligations)
    n_dis = sum(1 for o in res.obligations if o.verdict == "discharged")
    lines.append(f"[{res.prop}] tier={tier} rules={','.join(res.rules)} obligations={n_ob} discharged={n_dis} "
                 f"findings={len(res.findings)} known={len(matched)} new={len(violations)} wall={wall_s:.2f}s")
    for k, v in res.units.items():
        if isinstance(v, (int, float, str)):
            lines.append(f"[{res.prop}]   analysed {k}: {v}")
    for f, kn in matched:
        what = kn.get("what", f.message)
        lines.append(f"KNOWN-FINDING: property={res.prop} {f.where} {f.func}: {what}")
    for k in stale_known:
        lines.append(f"[{res.prop}] note: known finding no longer present (repaired?): {k}")
    replay_paths = []
    for f in violations:
        os.makedirs(out_dir, exist_ok=True)
        dig = hashlib.sha1(f.key.encode()).hexdigest()[:12]
        path = os.path.join(out_dir, f"{res.prop}-{dig}.json")
        with open(path, "w") as fh:
            json.dump(f.to_json(), fh, indent=1, default=str)
        replay_paths.append(path)
        lines.append(f"  {f.where}: [{f.rule}] {f.func}: {f.message}")
        lines.append(f"    construct: {f.construct}")
        lines.append(f"VIOLATION property={res.prop} replay={path}")
    refused = bool(res.refusals) and not violations
    if refused:
        for r in res.refusals:
            lines.append(f"ANALYSIS-ERROR property={res.prop} {r}")
    if not quiet:
        print("\n".join(lines))
    if write_evidence and not refused:
        write_evidence_file(res, tier, seed, wall_s, matched, violations)
    return 1 if violations else (2 if refused else 0)


def write_evidence_file(res: Result, tier: str, seed: int, wall_s: float, matched, violations):
    n_ob = len(res.obligations)
    n_dis = sum(1 for o in res.obligations if o.verdict == "discharged")
    distinct = len({(o.rule, o.instance) for o in res.obligations})
    samples = [o.to_json() for o in res.obligations[:12]]
    # make sure violated/known obligations are visible among the samples
    samples += [o.to_json() for o in res.obligations if o.verdict != "discharged"][:12]
    cov = {
        "explanation": res.explanation,
        "rules": res.rules,
        "evaluations": max(n_ob, 1),
        "distinct_nontrivial": distinct,
        "rule": "one obligation per (rule, instance, site) enumerated from the current source; non-trivial = the rule "
                "had a concrete construct to prove something about (an instance with a file:line site); distinct = "
                "distinct (rule, instance) pairs",
        "obligations": n_ob,
        "discharged": n_dis,
        "samples": samples or [{"note": "no obligations"}],
        "units": res.units,
        "not_decided": res.not_decided,
        "known_findings_matched": [f.to_json() for f, _kn in matched],
        "new_violations": [f.to_json() for f in violations],
        "notes": res.notes,
        "exhaustive": True,
    }
    if res.selfcheck is not None:
        cov["selfcheck"] = res.selfcheck
    ev = {
        "property_id": res.prop,
        "tier": tier,
        "seed": seed,
        "level": "other",
        "coverage": cov,
        "assumptions": res.assumptions,
        "wall_s": round(wall_s, 3),
        "violations": len(violations),
    }
    d = os.path.join(VERIF, "evidence")
    os.makedirs(d, exist_ok=True)
    tmp = os.path.join(d, f".{res.prop}.json.tmp")
    with open(tmp, "w") as fh:
        json.dump(ev, fh, indent=1, default=str)
    os.replace(tmp, os.path.join(d, f"{res.prop}.json"))
