"""Reference model of the Uniswap v3 LP market's orientation-sensitive operations, written orientation-symmetrically
from the statements C09 / C03 / C01 (base/quote quantities reach token0/token1 primitives only through the orientation)."""

REF_CONVERT_PAIR = '''
def _convert_pair(self, any0, any1):
    if self._is_token0_quote:
        return any1, any0
    return any0, any1
'''

REF_QUOTE_PAIR_TO_TICK = '''
def quote_price_pair_to_tick(pool, lower_quote_price, upper_quote_price):
    t_lo = base_unit_price_to_tick(lower_quote_price, pool.token0.decimal, pool.token1.decimal, pool.is_token0_quote)
    t_hi = base_unit_price_to_tick(upper_quote_price, pool.token0.decimal, pool.token1.decimal, pool.is_token0_quote)
    if pool.is_token0_quote:
        return t_hi, t_lo
    return t_lo, t_hi
'''

REF_GET_VALUE = '''
def _get_value(self, amount0, amount1, pool_price):
    if self._is_token0_quote:
        return amount1 * pool_price + amount0
    return amount0 * pool_price + amount1
'''

REF_TICK_TO_PRICE = '''
def tick_to_price(self, tick):
    return tick_to_base_unit_price(int(tick), self._pool.token0.decimal, self._pool.token1.decimal, self._is_token0_quote)
'''

REF_PRICE_TO_TICK = '''
def price_to_tick(self, price):
    raw = base_unit_price_to_tick(price, self._pool.token0.decimal, self._pool.token1.decimal, self._is_token0_quote)
    return nearest_usable_tick(raw, self.pool_info.tick_spacing)
'''

# out of range the position consists of ONE token: token0 below the range, token1 above it; which of them is the base
# token depends on the orientation
REF_ESTIMATE_LIQUIDITY = '''
def estimate_liquidity(self, value, position):
    price = self.market_status.data.price
    sqrt_now = base_unit_price_to_sqrt_price_x96(price, self.pool_info.token0.decimal, self.pool_info.token1.decimal,
                                                 self.pool_info.is_token0_quote)
    tick_now = sqrt_price_x96_to_tick(sqrt_now)
    lo = get_sqrt_ratio_at_tick(position.lower_tick)
    hi = get_sqrt_ratio_at_tick(position.upper_tick)
    if tick_now <= position.lower_tick:
        if self.pool_info.is_token0_quote:
            amount0 = value
        else:
            amount0 = value / Decimal(price)
        return int(get_liquidity_for_amount0(lo, hi, amount0 * 10**self.pool_info.token0.decimal)), amount0, DECIMAL_0
    elif tick_now >= position.upper_tick:
        if self.pool_info.is_token0_quote:
            amount1 = value / Decimal(price)
        else:
            amount1 = value
        return int(get_liquidity_for_amount1(lo, hi, amount1 * 10**self.pool_info.token1.decimal)), DECIMAL_0, amount1
    else:
        both = self.estimate_amount(value, position.lower_tick, position.upper_tick)
        liq = get_liquidity(sqrt_now, position.lower_tick, position.upper_tick, both[0], both[1],
                            self.pool_info.token0.decimal, self.pool_info.token1.decimal)
        return liq, both[0], both[1]
'''

REF_ESTIMATE_AMOUNT = '''
def estimate_amount(self, value, lower_tick, upper_tick):
    price = self.market_status.data.price
    tick = base_unit_price_to_tick(price, self.pool_info.token0.decimal, self.pool_info.token1.decimal, self.pool_info.is_token0_quote)
    r_amount = Decimal(estimate_ratio(tick, lower_tick, upper_tick) * 10 ** (self.pool_info.token1.decimal - self.pool_info.token0.decimal))
    if self.pool_info.is_token0_quote:
        r_value = r_amount / price
    else:
        r_value = r_amount * price
    v1 = value / (r_value + 1)
    v0 = value - v1
    if self.pool_info.is_token0_quote:
        return v0, v1 / price
    return v0 / price, v1
'''

REF_SWAP = '''
def swap(self, from_amount, from_token, to_token, price=None, throw_action=True):
    if from_token == to_token:
        raise DemeterError("same token")
    if from_token not in [self.quote_token, self.base_token] or to_token not in [self.quote_token, self.base_token]:
        raise DemeterError("foreign token")
    if from_token == self.base_token:
        rate = price if price else self.market_status.data.price
    else:
        rate = price if price else 1 / self.market_status.data.price
    fee = from_amount * self.pool_info.fee_rate
    got = (from_amount - fee) * rate
    self.broker.subtract_from_balance(from_token, from_amount)
    self.broker.add_to_balance(to_token, got)
    if throw_action:
        self._record_action(SwapAction(market=self.market_info, amount=UnitDecimal(from_amount, from_token.name),
                                       price=UnitDecimal(rate, f"{from_token.name}/{to_token.name}"),
                                       fee=UnitDecimal(fee, from_token.name), to_amount=UnitDecimal(got, to_token.name)))
    return fee, got
'''

REF_BUY = '''
def buy(self, base_token_amount, price=None):
    if base_token_amount == 0:
        return DECIMAL_0, DECIMAL_0, DECIMAL_0
    p = price if price else self.market_status.data.price
    spend = base_token_amount * p / (1 - self._pool.fee_rate)
    r = self.swap(spend, self.quote_token, self.base_token, 1 / p, False)
    self._record_action(BuyAction(
        market=self.market_info, base_balance_after=self.broker.get_token_balance_with_unit(self.base_token),
        quote_balance_after=self.broker.get_token_balance_with_unit(self.quote_token),
        amount=UnitDecimal(base_token_amount, self.base_token.name), price=UnitDecimal(p, self._pool_price_unit),
        fee=UnitDecimal(r[0], self.quote_token.name), base_change=UnitDecimal(r[1], self.base_token.name),
        quote_change=UnitDecimal(spend, self.quote_token.name)))
    return r[0], spend, r[1]
'''

REF_SELL = '''
def sell(self, base_token_amount, price=None):
    if base_token_amount == 0:
        return DECIMAL_0, DECIMAL_0, DECIMAL_0
    p = price if price else self.market_status.data.price
    r = self.swap(base_token_amount, self.base_token, self.quote_token, p, False)
    self._record_action(SellAction(
        market=self.market_info, base_balance_after=self.broker.get_token_balance_with_unit(self.base_token),
        quote_balance_after=self.broker.get_token_balance_with_unit(self.quote_token),
        amount=UnitDecimal(base_token_amount, self.base_token.name), price=UnitDecimal(p, self._pool_price_unit),
        fee=UnitDecimal(r[0], self.base_token.name), base_change=UnitDecimal(base_token_amount, self.base_token.name),
        quote_change=UnitDecimal(r[1], self.quote_token.name)))
    return r[0], base_token_amount, r[1]
'''

REF_EVEN_REBALANCE = '''
def even_rebalance(self, price=None):
    if price is None:
        price = self._market_status.data.price
    q = self.broker.get_token_balance(self.quote_token)
    b = self.broker.get_token_balance(self.base_token)
    to_buy = (q / price - b) / (Decimal(2) + self.pool_info.fee_rate)
    if to_buy >= 0:
        self.buy(to_buy)
        return
    to_sell = (b - q / price) / (Decimal(2) - self.pool_info.fee_rate)
    if to_sell >= 0:
        self.sell(to_sell)
        return
'''

# add by value: out of range everything goes to ONE side: above the range (in quote-price terms) all base, below all quote;
# "above" is tick > upper for token0-quote pools and tick < lower otherwise (ticks run opposite to the quote price there)
REF_ADD_BY_VALUE = '''
def add_liquidity_by_value(self, lower_tick, upper_tick, value_to_use=None, trim_tick=True):
    if trim_tick:
        lower_tick = nearest_usable_tick(lower_tick, self.pool_info.tick_spacing)
        upper_tick = nearest_usable_tick(upper_tick, self.pool_info.tick_spacing)
    price = self._market_status.data.price
    tick = self.price_to_tick(price)
    if self._is_token0_quote:
        price0 = Decimal(1)
        price1 = price
    else:
        price0 = price
        price1 = Decimal(1)
    funds = self.broker.get_token_balance(self.quote_token) + self.broker.get_token_balance(self.base_token) * price
    if value_to_use is None:
        value_to_use = funds
    if value_to_use > funds:
        raise DemeterError("not enough")
    if lower_tick >= upper_tick:
        raise DemeterError("order")
    if self._is_token0_quote:
        all_base = tick > upper_tick
    else:
        all_base = tick < lower_tick
    if all_base:
        base_amount = value_to_use / self._market_status.data.price
        short = base_amount - self.broker.get_token_balance(self.base_token)
        fee_q = Decimal(0)
        if short > MIN_ERROR:
            sw = self.swap(short * price, self.quote_token, self.base_token)
            fee_q = sw[0]
        return self.add_liquidity_by_tick(lower_tick, upper_tick, base_amount - fee_q / price, Decimal(0))
    if self._is_token0_quote:
        all_quote = tick < lower_tick
    else:
        all_quote = tick > upper_tick
    if all_quote:
        short = value_to_use - self.broker.get_token_balance(self.quote_token)
        fee_b = Decimal(0)
        if short > 0:
            sw = self.swap(short / price, self.base_token, self.quote_token)
            fee_b = sw[0]
        return self.add_liquidity_by_tick(lower_tick, upper_tick, Decimal(0), value_to_use - fee_b * price)
    ratio = estimate_ratio(tick, lower_tick, upper_tick)
    r_amount = ratio * 10 ** (self.pool_info.token1.decimal - self.pool_info.token0.decimal)
    if self._is_token0_quote:
        r_value = Decimal(r_amount) / price
    else:
        r_value = Decimal(r_amount) * price
    v1 = value_to_use / (r_value + 1)
    v0 = value_to_use - v1
    have0 = self.broker.get_token_balance(self.token0) * price0
    have1 = self.broker.get_token_balance(self.token1) * price1
    if v0 <= have0 and v1 <= have1:
        if self._is_token0_quote:
            return self.add_liquidity_by_tick(lower_tick, upper_tick, v1 / price, v0)
        return self.add_liquidity_by_tick(lower_tick, upper_tick, v0 / price, v1)
    elif v0 > have0 and v1 > have1:
        raise DemeterError("not enough")
    elif v0 < have0 and v1 > have1:
        part = get_swap_value_with_part_balance_used(have0, have1, value_to_use, self.pool_info.fee_rate, r_value)
        if self._is_token0_quote:
            self.swap(part[2], self.quote_token, self.base_token)
            return self.add_liquidity_by_tick(lower_tick, upper_tick, part[1] / price, part[0])
        self.swap(part[2] / price, self.base_token, self.quote_token)
        return self.add_liquidity_by_tick(lower_tick, upper_tick, part[0] / price, part[1])
    elif v0 > have0 and v1 < have1:
        part = get_swap_value_with_part_balance_used(have1, have0, value_to_use, self.pool_info.fee_rate, 1 / r_value)
        if self._is_token0_quote:
            self.swap(part[2] / price, self.base_token, self.quote_token)
            return self.add_liquidity_by_tick(lower_tick, upper_tick, part[0] / price, part[1])
        self.swap(part[2], self.quote_token, self.base_token)
        return self.add_liquidity_by_tick(lower_tick, upper_tick, part[1] / price, part[0])
    else:
        raise NotImplementedError()
'''

REF_REMOVE_PUBLIC = '''
def remove_liquidity(self, position, liquidity=None, collect=True, sqrt_price_x96=-1, remove_dry_pool=True):
    if liquidity and liquidity < 0:
        raise DemeterError("negative")
    r = self.__remove_liquidity(position, liquidity, sqrt_price_x96)
    if self._is_token0_quote:
        base_get = r[1]
        quote_get = r[0]
    else:
        base_get = r[0]
        quote_get = r[1]
    self._record_action(RemoveLiquidityAction(
        market=self.market_info, base_balance_after=self.broker.get_token_balance_with_unit(self.base_token),
        quote_balance_after=self.broker.get_token_balance_with_unit(self.quote_token), position=position,
        base_amount=UnitDecimal(base_get, self.base_token.name), quote_amount=UnitDecimal(quote_get, self.quote_token.name),
        removed_liquidity=r[2], remain_liquidity=self.positions[position].liquidity))
    if collect:
        return self.collect_fee(position, remove_dry_pool=remove_dry_pool)
    return base_get, quote_get
'''

REF_COLLECT_INNER = '''
def __collect_fee(self, position, max_collect_amount0=None, max_collect_amount1=None, collect_to_user=True):
    if max_collect_amount0 is not None and max_collect_amount0 < position.pending_amount0:
        take0 = max_collect_amount0
    else:
        take0 = position.pending_amount0
    if max_collect_amount1 is not None and max_collect_amount1 < position.pending_amount1:
        take1 = max_collect_amount1
    else:
        take1 = position.pending_amount1
    position.pending_amount0 -= take0
    position.pending_amount1 -= take1
    if collect_to_user:
        self.broker.add_to_balance(self.token0, take0)
        self.broker.add_to_balance(self.token1, take1)
    return take0, take1
'''

REF_UNI_BALANCE = '''
def get_market_balance(self):
    price = self._market_status.data.price
    sqrt_now = base_unit_price_to_sqrt_price_x96(price, self._pool.token0.decimal, self._pool.token1.decimal, self._is_token0_quote)
    fee0 = Decimal(0)
    fee1 = Decimal(0)
    dep0 = Decimal(0)
    dep1 = Decimal(0)
    for key, p in self._positions.items():
        if p.transferred:
            continue
        fee0 += p.pending_amount0
        fee1 += p.pending_amount1
        held = V3CoreLib.get_token_amounts(self._pool, key, sqrt_now, p.liquidity)
        dep0 += held[0]
        dep1 += held[1]
    if self._is_token0_quote:
        base_fee = fee1
        quote_fee = fee0
        base_dep = dep1
        quote_dep = dep0
    else:
        base_fee = fee0
        quote_fee = fee1
        base_dep = dep0
        quote_dep = dep1
    liq_value = base_dep * price + quote_dep * Decimal(1)
    fee_value = base_fee * price + quote_fee * Decimal(1)
    return UniLpBalance(
        net_value=liq_value + fee_value, liquidity_value=UnitDecimal(liq_value, self.quote_token.name),
        base_uncollected=UnitDecimal(base_fee, self.base_token.name), quote_uncollected=UnitDecimal(quote_fee, self.quote_token.name),
        base_in_position=UnitDecimal(base_dep, self.base_token.name), quote_in_position=UnitDecimal(quote_dep, self.quote_token.name),
        position_count=len(list(filter(lambda q: not q.transferred, self._positions.values()))))
'''

# ---- public wrappers around the private add / collect primitives (added for the second round of seeded defects) ----
# Defaults: None means "the whole wallet balance of that token"; -1 means "not given".
REF_ADD_PUBLIC = '''
def add_liquidity(self, lower_quote_price, upper_quote_price, quote_max_amount=None, base_max_amount=None):
    if base_max_amount is None:
        base_max_amount = self.broker.get_token_balance(self.base_token)
    if quote_max_amount is None:
        quote_max_amount = self.broker.get_token_balance(self.quote_token)
    if self._is_token0_quote:
        amt0 = quote_max_amount
        amt1 = base_max_amount
    else:
        amt0 = base_max_amount
        amt1 = quote_max_amount
    ticks = V3CoreLib.quote_price_pair_to_tick(self._pool, lower_quote_price, upper_quote_price)
    lo = nearest_usable_tick(ticks[0], self.pool_info.tick_spacing)
    hi = nearest_usable_tick(ticks[1], self.pool_info.tick_spacing)
    r = self._add_liquidity_by_tick(amt0, amt1, lo, hi)
    if self._is_token0_quote:
        base_used = r[2]
        quote_used = r[1]
    else:
        base_used = r[1]
        quote_used = r[2]
    self._record_action(AddLiquidityAction(
        market=self.market_info, base_balance_after=self.broker.get_token_balance_with_unit(self.base_token),
        quote_balance_after=self.broker.get_token_balance_with_unit(self.quote_token),
        base_amount_max=UnitDecimal(base_max_amount, self.base_token.name),
        quote_amount_max=UnitDecimal(quote_max_amount, self.quote_token.name),
        lower_quote_price=UnitDecimal(lower_quote_price, self._pool_price_unit),
        upper_quote_price=UnitDecimal(upper_quote_price, self._pool_price_unit),
        base_amount_actual=UnitDecimal(base_used, self.base_token.name),
        quote_amount_actual=UnitDecimal(quote_used, self.quote_token.name),
        position=r[0], liquidity=int(r[3])))
    return r[0], base_used, quote_used, r[3]
'''

REF_ADD_BY_TICK_PUBLIC = '''
def add_liquidity_by_tick(self, lower_tick, upper_tick, base_max_amount=None, quote_max_amount=None, sqrt_price_x96=-1,
                          tick=-1, trim_tick=True):
    if trim_tick:
        lower_tick = nearest_usable_tick(lower_tick, self.pool_info.tick_spacing)
        upper_tick = nearest_usable_tick(upper_tick, self.pool_info.tick_spacing)
    lo = min(lower_tick, upper_tick)
    hi = max(lower_tick, upper_tick)
    # an explicit sqrt price wins; otherwise an explicit tick (any tick other than the -1 sentinel, negative ticks
    # included); otherwise the private primitive derives the price from the bar
    if sqrt_price_x96 == -1:
        if tick != -1:
            sqrt_price_x96 = tick_to_sqrt_price_x96(tick)
    if base_max_amount is None:
        base_max_amount = self.broker.get_token_balance(self.base_token)
    if quote_max_amount is None:
        quote_max_amount = self.broker.get_token_balance(self.quote_token)
    if self._is_token0_quote:
        amt0 = quote_max_amount
        amt1 = base_max_amount
    else:
        amt0 = base_max_amount
        amt1 = quote_max_amount
    r = self._add_liquidity_by_tick(amt0, amt1, lo, hi, sqrt_price_x96)
    if self._is_token0_quote:
        base_used = r[2]
        quote_used = r[1]
    else:
        base_used = r[1]
        quote_used = r[2]
    self._record_action(AddLiquidityAction(
        market=self.market_info, base_balance_after=self.broker.get_token_balance_with_unit(self.base_token),
        quote_balance_after=self.broker.get_token_balance_with_unit(self.quote_token),
        base_amount_max=UnitDecimal(base_max_amount, self.base_token.name),
        quote_amount_max=UnitDecimal(quote_max_amount, self.quote_token.name),
        lower_quote_price=UnitDecimal(self.tick_to_price(lo), self._pool_price_unit),
        upper_quote_price=UnitDecimal(self.tick_to_price(hi), self._pool_price_unit),
        base_amount_actual=UnitDecimal(base_used, self.base_token.name),
        quote_amount_actual=UnitDecimal(quote_used, self.quote_token.name),
        position=r[0], liquidity=int(r[3])))
    return r[0], base_used, quote_used, r[3]
'''

REF_COLLECT_PUBLIC = '''
def collect_fee(self, position, max_collect_amount0=None, max_collect_amount1=None, remove_dry_pool=True, collect_to_user=True):
    if max_collect_amount0 and max_collect_amount0 < 0:
        raise DemeterError("negative")
    if max_collect_amount1 and max_collect_amount1 < 0:
        raise DemeterError("negative")
    got = self.__collect_fee(self._positions[position], max_collect_amount0, max_collect_amount1, collect_to_user)
    if self._is_token0_quote:
        base_get = got[1]
        quote_get = got[0]
    else:
        base_get = got[0]
        quote_get = got[1]
    self._record_action(CollectFeeAction(
        market=self.market_info, base_balance_after=self.broker.get_token_balance_with_unit(self.base_token),
        quote_balance_after=self.broker.get_token_balance_with_unit(self.quote_token), position=position,
        base_amount=UnitDecimal(base_get, self.base_token.name), quote_amount=UnitDecimal(quote_get, self.quote_token.name)))
    p = self._positions[position]
    if p.pending_amount0 == Decimal(0) and p.pending_amount1 == Decimal(0) and p.liquidity == 0 and remove_dry_pool:
        del self.positions[position]
    return base_get, quote_get
'''

REF_POSITION_AMOUNT = '''
def get_position_amount(self, position_info):
    if position_info not in self.positions:
        return DECIMAL_0, DECIMAL_0
    sqrt_price = base_unit_price_to_sqrt_price_x96(self._market_status.data.price, self._pool.token0.decimal,
                                                   self._pool.token1.decimal, self._is_token0_quote)
    both = V3CoreLib.get_token_amounts(self._pool, position_info, sqrt_price, self.positions[position_info].liquidity)
    return both[0], both[1]
'''

REF_POSITION_STATUS = '''
def get_position_status(self, pos_key):
    require(pos_key in self.positions, "Position not exist")
    price = self._market_status.data.price
    p = self.positions[pos_key]
    liq = self.get_position_amount(pos_key)
    return PositionStatus(
        liquidity=p.liquidity, liquidity_amount0=liq[0], liquidity_amount1=liq[1],
        liquidity_value=self._get_value(liq[0], liq[1], price),
        pending_amount0=p.pending_amount0, pending_amount1=p.pending_amount1,
        pending_value=self._get_value(p.pending_amount0, p.pending_amount1, price),
        amount0=liq[0] + p.pending_amount0, amount1=liq[1] + p.pending_amount1,
        value=self._get_value(liq[0] + p.pending_amount0, liq[1] + p.pending_amount1, price),
        H=p.upper_price / p.init_price, L=p.lower_price / p.init_price, P=price / p.init_price)
'''

REF_REMOVE_ALL = '''
def remove_all_liquidity(self):
    for key in list(self.positions.keys()):
        self.remove_liquidity(key)
'''
