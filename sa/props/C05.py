"""C05 -- each bar runs once, in order, with a fixed phase order; logs align with bars."""
from __future__ import annotations

import ast

from ..model import AnalysisError
from ..report import Result
from ..rules.formula import effects_check, formula_check

EXPLANATION = (
    "R-PHASE: Actuator.run is compared, as an ORDERED effect trace on every path, with a reference run loop written from "
    "the statement: reset, checks, the test range (optionally resampled), the initial status/stamp from the first bar of "
    "THAT index, and for each element of the index exactly once: status refresh, stamp = this bar, snapshot, before_bar, "
    "triggers (when -> do), retirement, market.open for open markets, on_bar, second refresh for markets with a write, "
    "market.update for every market, snapshot, after_bar, account status from this bar's prices and timestamp appended to "
    "the history, notify with the bar's action buffer, buffer cleared; no break/continue/return in the loop. R-RECORD: "
    "the action recorder stamps the current bar before it appends to the run log and to the bar buffer; notify delivers "
    "every element of the live buffer once; write_func raises the has_update flag only after the wrapped call returned. "
    "R-SIB: every market's _resample rebinds its data to a resampled frame (or keeps it when the interval is finer than "
    "the market's); switch_interval resamples every market and the price frame and returns the resampled index; the test "
    "range is the unique first-level index of the market with the most distinct timestamps. The account history frame is "
    "indexed by each status' own timestamp."
)

ANCHORS = ["reset", "_check_backtest", "get_test_range", "switch_interval", "__set_market_snapshot", "get_account_status",
           "init_strategy", "__get_snapshot", "before_bar", "when", "do", "open", "on_bar", "update", "after_bar", "append",
           "notify", "finalize", "_generate_account_status_df", "print_result", "is_out_date"]

REF_RUN = '''
def run(self, print_result=True):
    self.__start_time = time.time()
    self.reset()
    self._check_backtest()
    index_array = self.get_test_range()
    if self.interval != "1min":
        index_array = self.switch_interval(index_array)
    self.__set_market_snapshot(index_array[0], False)
    self._currents.timestamp = index_array[0].to_pydatetime()
    self.init_account_status = self._broker.get_account_status(self._token_prices.head(1).iloc[0], index_array[0].to_pydatetime())
    self.init_strategy()
    row_id = 0
    for bar in index_array:
        prices = self._token_prices.loc[bar]
        self.__set_market_snapshot(bar, False)
        self._currents.timestamp = bar.to_pydatetime()
        snap = self.__get_snapshot(bar, row_id, prices)
        self._strategy.before_bar(snap)
        if self._strategy.triggers:
            for trigger in self._strategy.triggers:
                if trigger.when(snap):
                    trigger.do(snap)
        self._strategy.triggers = [x for x in self._strategy.triggers if not x.is_out_date(self._currents.timestamp)]
        for market in self.broker.markets.values():
            if market.is_open and market.open is not None:
                market.open(snap)
        self._strategy.on_bar(snap)
        self.__set_market_snapshot(bar, True)
        for market in self._broker.markets.values():
            market.update()
        snap = self.__get_snapshot(bar, row_id, prices)
        self._strategy.after_bar(snap)
        status = self._broker.get_account_status(prices, bar.to_pydatetime())
        self._account_status_list.append(status)
        self.notify(self.strategy, self._currents.actions)
        self._currents.actions = []
        row_id += 1
    self.__backtest_finished = True
    self._generate_account_status_df()
    self._strategy.finalize()
    if print_result:
        self.print_result()
    self.__backtest_duration = time.time() - self.__start_time
'''

REF_RECORD = '''
def _record_action_list(self, action):
    action.timestamp = self._currents.timestamp
    action.set_type()
    self._action_list.append(action)
    self._currents.actions.append(action)
    self._log(action.timestamp, f"{action.market}: {action.action_type.name}, {action.comment}")
'''

REF_NOTIFY = '''
def notify(self, strategy, actions):
    if len(actions) < 1:
        return
    for a in actions:
        strategy.notify(a)
        if self.print_action:
            print(a.get_output_str())
'''

REF_SWITCH = '''
def switch_interval(self, index_array):
    for mk, market in self.broker.markets.items():
        market._resample(self.interval)
    self._token_prices = self.token_prices.resample(self.interval).first()
    return pd.Series(0, index=index_array).resample(self.interval).first().index
'''

REF_TEST_RANGE = '''
def get_test_range(self):
    most = max(map(lambda m: len(m.data.index.get_level_values(0).unique()), self._broker.markets.values()))
    widest = list(filter(lambda m: len(m.data.index.get_level_values(0).unique()) == most, self._broker.markets.values()))[0]
    return widest.data.index.get_level_values(0).unique()
'''

REF_BASE_STATUS = '''
def set_market_status(self, data, price):
    self._price_status = price
    if self._data is None or data.timestamp in self._data.index:
        self.is_open = True
    else:
        self.is_open = False
    self.has_update = False
'''

REF_TO_DATAFRAME = """
def to_dataframe(status_list):
    stamps = [s.timestamp for s in status_list]
    if len(stamps) == 0:
        return pd.DataFrame()
    frames = [pd.DataFrame(index=stamps, data=[s.net_value for s in status_list],
                           columns=pd.MultiIndex.from_tuples([("net_value", "")], names=["l1", "l2"]))]
    balances = [s.asset_balances.data for s in status_list]
    names = {t: t.name for t in balances[0].keys()}
    wallet = pd.DataFrame(index=stamps, data=balances)
    wallet.rename(columns=names, inplace=True)
    to_multi_index_df(wallet, "tokens")
    frames.append(wallet)
    for key in status_list[0].market_status.keys():
        mdf = pd.DataFrame(index=stamps, data=[s.market_status[key] for s in status_list])
        to_multi_index_df(mdf, key.name)
        frames.append(mdf)
    return pd.concat(frames, axis=1)
"""


REF_GEN_DF = '''
def _generate_account_status_df(self):
    self._account_status_df = AccountStatus.to_dataframe(self._account_status_list)
    p = self._token_prices.drop(columns=[USD.name]).loc[self._account_status_df.index[0]:self._account_status_df.index[-1]].reindex(self._account_status_df.index)
    to_multi_index_df(p, "price")
    self._account_status_df = pd.concat([self._account_status_df, p], axis=1)
    self._strategy.account_status_df = self._account_status_df
'''


def loop_exits(model, res):
    f = model.func("Actuator.run")
    loops = [n for n in ast.walk(f.node) if isinstance(n, ast.For) and isinstance(n.iter, ast.Name) and n.iter.id == "index_array"]
    if len(loops) != 1:
        raise AnalysisError("C05: the bar loop `for ... in index_array` was not found in Actuator.run")
    lp = loops[0]
    bad = []

    def scan(node, own):
        """own: is the bar loop the nearest enclosing loop of `node`'s children?"""
        for ch in ast.iter_child_nodes(node):
            if isinstance(ch, (ast.FunctionDef, ast.AsyncFunctionDef, ast.Lambda)):
                continue
            if isinstance(ch, ast.Return) or (own and isinstance(ch, (ast.Break, ast.Continue))):
                bad.append(ch)       # break / continue of a nested loop (over markets, triggers) leave the bar's phases intact
            scan(ch, own and not isinstance(ch, (ast.For, ast.While)))

    scan(lp, True)
    res.ob("R-PHASE", "the bar loop iterates the index itself and has no break/continue/return", f.loc(lp), ok=not bad)
    for n in bad:
        res.find("R-PHASE", "Actuator.run", f"`{type(n).__name__.lower()}` inside the bar loop", f.loc(n),
                 "a bar can be cut short or skipped: the bar loop must run all phases for every bar")


def write_func_rule(model, res):
    from .base_refs import write_gate
    write_gate(res, model)


def resample_siblings(model, res):
    n = 0
    for c in model.subclasses("Market"):
        f = c.methods.get("_resample")
        if f is None:
            raise AnalysisError(f"C05: {c.name}._resample not found")
        n += 1
        rebinds = [s for s in ast.walk(f.node) if isinstance(s, ast.Assign) and ast.unparse(s.targets[0]) in ("self._data", "self.data")]
        ok = False
        if rebinds:
            v = rebinds[0].value
            txt = ast.unparse(v)
            ok = ("resample(" in txt) and ("freq" in txt) and "inplace" not in txt
        res.ob("R-SIB", f"{c.name}._resample rebinds the market data to a resampled frame", f.loc(), ok=ok,
               detail=ast.unparse(f.node.body[-1])[:100])
        if not ok:
            res.find("R-SIB", f"{c.name}._resample", "data is not rebound to a resampled frame", f.loc(),
                     f"`{ast.unparse(f.node.body[-1])[:120]}`: unlike its siblings this _resample does not assign "
                     f"`self._data = <resampled frame>` (DataFrame.resample has no freq=/inplace= form and returns a Resampler); any "
                     f"interval other than 1 minute aborts or leaves the data unsampled")
    return n


# per-bar status of the simple markets: base bookkeeping, then THIS bar's row (unless the caller supplied one), then stored
REF_ROW_STATUS = '''
def set_market_status(self, data, price):
    super().set_market_status(data, price)
    if data.data is None:
        data.data = self.data.loc[data.timestamp]
    self._market_status = data
'''

REF_ROW_STATUS_ALWAYS = '''
def set_market_status(self, data, price):
    super().set_market_status(data, price)
    data.data = self.data.loc[data.timestamp]
    self._market_status = data
'''

# before bar 0: the strategy is wired to the broker, data, prices, logs and markets, then initialize() runs; actions made
# there stay in the per-bar buffer and are delivered by the loop at the end of bar 0 - not here
REF_INIT_STRATEGY = '''
def init_strategy(self):
    if not isinstance(self._strategy, Strategy):
        raise DemeterError("not a strategy")
    self._strategy.broker = self._broker
    self._strategy.markets = self._broker.markets
    datas = MarketDict()
    for k in self.broker.markets:
        datas[k] = self.broker.markets[k].data
    datas.set_default_key(self.broker.markets.get_default_key())
    self._strategy.data = datas
    self._strategy.prices = self._token_prices
    self._strategy.account_status = self._account_status_list
    self._strategy.actions = self._action_list
    self._strategy.assets = self.broker.assets
    self._strategy.account_status_df = self.account_status_df
    self._strategy.actuator = self
    self._strategy.comment_last_action = self.comment_last_action
    self._strategy.log = self._log
    for k in self.broker.markets:
        setattr(self._strategy, k.name, self.broker.markets[k])
    for k in self.broker.assets:
        setattr(self._strategy, k.name, self.broker.assets[k])
    self._strategy.initialize()
'''

# what the strategy is handed per bar: this bar's timestamp / row id / prices and EVERY market's current status row
REF_SNAPSHOT = '''
def __get_snapshot(self, timestamp, row_id, current_price):
    snap = Snapshot(timestamp.to_pydatetime(), row_id, current_price)
    for key in self.broker.markets:
        snap.market_status[key] = self.broker.markets[key].market_status.data
    snap.market_status.set_default_key(self.broker.markets.get_default_key())
    return snap
'''

# (re)loading the per-bar status: every market before the bar's hooks; after on_bar only the markets an operation touched
REF_SET_SNAPSHOT = '''
def __set_market_snapshot(self, timestamp, update=False):
    for key in self.broker.markets.keys():
        if not update or self._broker.markets[key].has_update:
            self._broker.markets[key].set_market_status(MarketStatus(timestamp, None), self._token_prices.loc[timestamp])
'''


def run(model, tier="quick"):
    res = Result("C05", EXPLANATION)
    res.rules = ["R-PHASE", "R-RECORD", "R-SIB", "R-FORMULA"]
    effects_check(res, model, "Actuator.run", REF_RUN,
                  "bar loop: one iteration per index element, fixed phase order, stamp before hooks, one status row per bar from "
                  "this bar's prices and timestamp, notify then clear", ANCHORS, ordered=True,
                  opaque=["time"])
    loop_exits(model, res)
    effects_check(res, model, "Actuator._record_action_list", REF_RECORD,
                  "an action is stamped with the current bar, then appended to the run log and to the bar buffer", ["append", "set_type", "_log"], ordered=True)
    effects_check(res, model, "Actuator.notify", REF_NOTIFY, "every element of the live action buffer is delivered once", ["notify", "print"], ordered=True)
    effects_check(res, model, "Actuator.switch_interval", REF_SWITCH, "every market and the price frame are resampled; the resampled index is returned",
                  ["_resample"], ordered=False)
    for cname, ref in (("GmxMarket", REF_ROW_STATUS), ("SqueethMarket", REF_ROW_STATUS), ("GmxV2Market", REF_ROW_STATUS_ALWAYS)):
        effects_check(res, model, cname + ".set_market_status", ref,
                      "per-bar status: base bookkeeping, the row of THIS bar's timestamp, status stored", ["set_market_status"], rule="R-SIB")
    effects_check(res, model, "Actuator.init_strategy", REF_INIT_STRATEGY,
                  "strategy wiring, then initialize(); nothing is delivered to notify() before bar 0 ends",
                  ["initialize", "notify", "setattr", "set_default_key"], aliases={"broker": "self._broker"}, ordered=True)
    effects_check(res, model, "Actuator.__get_snapshot", REF_SNAPSHOT,
                  "snapshot: this bar's timestamp, row id and prices; every market's current status row; default key kept",
                  ["set_default_key"], aliases={"broker": "self._broker"})
    effects_check(res, model, "Actuator.__set_market_snapshot", REF_SET_SNAPSHOT,
                  "status refresh: all markets before the hooks; only updated markets after on_bar; the bar's own prices",
                  ["set_market_status"], aliases={"broker": "self._broker"})
    formula_check(res, model, "Actuator.get_test_range", REF_TEST_RANGE,
                  "the run's index is the distinct first-level timestamps of the market with the most distinct timestamps")
    effects_check(res, model, "Market.set_market_status", REF_BASE_STATUS, "per-bar flags: open iff the bar is in the market's index; has_update cleared", [])
    effects_check(res, model, "Actuator._generate_account_status_df", REF_GEN_DF, "history frame: statuses by their own timestamps plus the prices re-indexed on them",
                  ["to_multi_index_df"], ordered=True, opaque=["to_dataframe"])
    write_func_rule(model, res)
    res.floor("resample_implementations", resample_siblings(model, res), 6)
    # to_dataframe: one row per status under that status' own timestamp; net value, wallet and every market's columns
    effects_check(res, model, "AccountStatus.to_dataframe", REF_TO_DATAFRAME,
                  "account history frame: rows indexed by each status' own timestamp; net value, token balances, then one "
                  "block of columns per market, concatenated column-wise", ["to_multi_index_df", "rename"], ordered=True)
    from ..rules.alias import loop_sharing_rule
    res.units["objects_built_before_a_loop_and_passed_inside"] = loop_sharing_rule(model, res, scope=() if res.prop == "C19" else ("demeter/core/", "demeter/broker/"))
    # constructors establish the relations between fields that the references above take for granted
    from .ctor_refs import constructors
    res.units["constructor_references"] = constructors(res, model, ('market', 'broker'))
    # premise: every market attached to a broker reports its actions to THAT broker's recorder (rebinding is unconditional)
    from . import C19 as _C19
    effects_check(res, model, "Broker.add_market", _C19.REF_ADD_MARKET,
                  "add_market rebinds the market's broker and action callback unconditionally", [], keep_raise_effects=True)
    # the account history's price columns come from this table
    from .price_refs import price_table
    price_table(res, model)
    from ..rules.fresh import fresh_rule
    if "R-FRESH" not in res.rules:
        res.rules.append("R-FRESH")
    fresh_rule(model, res, scope=('demeter/core/', 'demeter/strategy/'))
    res.assumptions = ["the index of the market data is sorted (data)", "user hooks do not mutate the actuator"]
    res.not_decided = ["monotonicity of the index (data)", "R-RECORD over every market operation (each operation's record is part of its ledger "
                       "check under C03/C10/C14/C15/C17)"]
    return res


MANIFEST = {
    "technique": "ordered effect-trace identity of the bar loop against a reference run loop (phase protocol), sibling and shape rules",
    "claim": "On every path of Actuator.run the ordered trace of phase anchors, with their canonical arguments, equals the "
             "statement's protocol (one iteration per index element; refresh, stamp, snapshot, before_bar, triggers, retire, "
             "open, on_bar, second refresh, update, snapshot, after_bar, status row, notify, clear); the recorder stamps then "
             "logs; notify delivers the live buffer (also after initialize()); the index choice, resampling (all six markets), the "
             "history frame (rows keyed by each status' own timestamp, one column block per market) are as stated; no object built "
             "before a loop is shared by the iterations' callees; only @write_func-gated operations write.",
    "note": "Trusted: reference loop in sa/props/C05.py; exceptions inside the loop are not modelled. Not decided: sortedness "
            "of the data index; behaviour of user hooks.",
}
