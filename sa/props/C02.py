"""C02 -- no look-ahead: bars 0..k depend only on data of bars 0..k; inputs stay intact."""
from __future__ import annotations

import ast
from typing import List, Optional

from ..model import AnalysisError, FuncInfo
from ..report import Result
from ..vn import Ctx, Evaluator, Rat, Unreadable, sym

EXPLANATION = (
    "R-TIME bounds what the per-bar code can LOOK AT: every read of an input frame (a market's data frame, the actuator's "
    "price frame) in code that runs inside the bar loop (all per-bar methods of the six markets, the loop body of "
    "Actuator.run, the status/snapshot helpers) is enumerated and must be a point lookup `.loc[k]`, a membership test "
    "`k in frame.index`, a bounded label slice `frame[a:k]`, or metadata (columns, first index element), where the key k "
    "has provenance <= now: the timestamp of the status being installed / the installed status / the loop variable, "
    "through identity, .floor(freq), .to_pydatetime() and `- timedelta(non-negative constant)`. Positional or "
    "whole-frame reads (iloc, tail, max, shift, open upper slices), keys moved forward (+timedelta, round, ceil) or of "
    "unknown provenance are violations. The price preparation must use the previous bar's close (shift(n), n >= 1). "
    "R-INPUT keeps the inputs intact under pandas copy-on-write (pandas >= 3): no in-place sink (item/loc/at/iloc "
    "assignment, del, inplace=True, insert/pop/update, index/columns assignment) on an expression that aliases an input "
    "frame in per-bar code; rows taken from a frame and then mutated are copies; cell objects (order-book lists) only "
    "reach the mutating fill loop through copy.deepcopy; Strategy.add_column is the one documented writer (a user API "
    "whose purpose is to add a column)."
)

PRELOOP = {"__init__", "check_market", "load_data", "load_pkl_data", "_resample", "get_price_from_data",
           "add_statistic_column", "set_token_data", "formatted_str", "description", "__str__", "data"}
FRAME_ROOTS = {"self._data", "self.data", "self._token_prices", "self.token_prices"}
ACTUATOR_INLOOP = ["__set_market_snapshot", "__get_snapshot", "_record_action_list", "notify"]
FORBIDDEN_METHODS = {"iloc", "iat", "tail", "head", "max", "min", "shift", "rolling", "expanding", "last", "first", "idxmax",
                     "idxmin", "mean", "sum", "describe", "sort_index", "sort_values", "values", "to_numpy", "items", "iterrows",
                     "itertuples", "resample", "bfill", "ffill", "fillna"}
INPLACE_MUTATORS = {"insert", "pop", "update", "drop", "rename", "set_index", "reset_index", "sort_index", "sort_values",
                    "fillna", "replace", "clip", "interpolate", "drop_duplicates", "dropna", "eval", "query", "where", "mask"}


def _chain_root(node: ast.AST) -> Optional[str]:
    """Text of `self.x` if node is rooted in it."""
    n = node
    while isinstance(n, (ast.Attribute, ast.Subscript, ast.Call)):
        if isinstance(n, ast.Attribute) and isinstance(n.value, ast.Name) and n.value.id == "self":
            return f"self.{n.attr}"
        n = n.func if isinstance(n, ast.Call) else n.value
    return None


def _parent(n):
    return getattr(n, "_parent", None)


def _maximal_chain(node: ast.AST) -> ast.AST:
    """Climb from `self._data` to the largest enclosing attribute/subscript/call chain."""
    n = node
    while True:
        p = _parent(n)
        if isinstance(p, ast.Attribute) and p.value is n:
            n = p
        elif isinstance(p, ast.Subscript) and p.value is n:
            n = p
        elif isinstance(p, ast.Call) and p.func is n:
            n = p
        else:
            return n


class TimeRule:
    def __init__(self, model, res):
        self.model = model
        self.res = res
        self.reads = 0

    # ------------------------------------------------------------ provenance
    def le_now(self, e: ast.expr, f: FuncInfo, depth=0) -> bool:
        if depth > 8:
            return False
        txt = ast.unparse(e)
        if isinstance(e, ast.Attribute) and e.attr == "timestamp":
            base = ast.unparse(e.value)
            if base in ("self._market_status", "self.market_status"):
                return True
            if isinstance(e.value, ast.Name) and e.value.id in f.params:
                return True  # the status object handed in for this bar
            return False
        if isinstance(e, ast.Constant) and e.value is None:
            return True  # "not given": replaced by the current bar before use (checked through the other definitions)
        if isinstance(e, ast.IfExp):
            return self.le_now(e.body, f, depth + 1) and self.le_now(e.orelse, f, depth + 1)
        if isinstance(e, ast.Name):
            defs = self._defs(f, e.id)
            if e.id in f.params:
                # a parameter: what every caller in the repository passes, and every reassignment
                return all(self.le_now(d, f, depth + 1) for d in defs) and self._callers_pass_le_now(f, e.id, depth)
            if not defs:
                return self._is_bar_loop_var(f, e.id)
            return all(self.le_now(d, f, depth + 1) for d in defs)
        if isinstance(e, ast.Subscript) and isinstance(e.value, ast.Name) and isinstance(e.slice, ast.Constant) \
                and e.slice.value == 0 and self._is_bar_loop_iterable(f, e.value.id):
            return True  # first element of the range the bar loop iterates: the first bar (initialisation before the loop)
        if isinstance(e, ast.Call) and isinstance(e.func, ast.Attribute):
            if e.func.attr in ("floor", "to_pydatetime", "normalize") :
                return self.le_now(e.func.value, f, depth + 1)
            return False
        if isinstance(e, ast.BinOp) and isinstance(e.op, ast.Sub):
            return self.le_now(e.left, f, depth + 1) and self._nonneg_delta(e.right, f)
        if isinstance(e, ast.Subscript) and ast.unparse(e) in ("self.data.index[0]", "self._data.index[0]"):
            return True  # the first row is never in the future of a bar of the same frame
        if isinstance(e, ast.Call) and ast.unparse(e.func).endswith("index[0].to_pydatetime"):
            return True
        return False

    def _bar_loops(self, f: FuncInfo):
        for n in ast.walk(f.node):
            if isinstance(n, ast.For) and any(isinstance(c, ast.Call) and isinstance(c.func, ast.Attribute) and c.func.attr == "on_bar"
                                              for st in n.body for c in ast.walk(st)):
                yield n

    def _is_bar_loop_var(self, f: FuncInfo, name: str) -> bool:
        return any(name in {x.id for x in ast.walk(l.target) if isinstance(x, ast.Name)} for l in self._bar_loops(f))

    def _is_bar_loop_iterable(self, f: FuncInfo, name: str) -> bool:
        return any(isinstance(l.iter, ast.Name) and l.iter.id == name for l in self._bar_loops(f))

    def _callers_pass_le_now(self, f: FuncInfo, pname: str, depth: int) -> bool:
        names = {f.name}
        if f.name.startswith("__") and not f.name.endswith("__"):
            names.add(f.name)
        idx = f.params.index(pname) - (1 if (f.is_method or f.is_classmethod) else 0)
        for g in self.model.all_functions():
            for c in ast.walk(g.node):
                if not (isinstance(c, ast.Call) and ((isinstance(c.func, ast.Attribute) and c.func.attr in names)
                                                     or (isinstance(c.func, ast.Name) and c.func.id in names))):
                    continue
                arg = None
                if 0 <= idx < len(c.args):
                    arg = c.args[idx]
                for k in c.keywords:
                    if k.arg == pname:
                        arg = k.value
                if arg is not None and not self.le_now(arg, g, depth + 1):
                    return False
        return True

    def _defs(self, f: FuncInfo, name: str) -> List[ast.expr]:
        out = []
        for n in ast.walk(f.node):
            if isinstance(n, ast.Assign):
                for t in n.targets:
                    if isinstance(t, ast.Name) and t.id == name:
                        out.append(n.value)
            elif isinstance(n, ast.AnnAssign) and isinstance(n.target, ast.Name) and n.target.id == name and n.value is not None:
                out.append(n.value)
        return out

    def _nonneg_delta(self, e: ast.expr, f: FuncInfo) -> bool:
        if not (isinstance(e, ast.Call) and ast.unparse(e.func) in ("timedelta", "pd.Timedelta", "datetime.timedelta")):
            return False
        ev = Evaluator(self.model)
        vals = list(e.args) + [k.value for k in e.keywords]
        if not vals:
            return False
        for v in vals:
            try:
                alts = ev.ev(v, {}, Ctx(f, 0, f.cls))
            except Unreadable:
                return False
            if len(alts) != 1 or alts[0][0] or not isinstance(alts[0][1], Rat) or not alts[0][1].is_const() \
                    or alts[0][1].const_value() < 0:
                return False
        return True

    # ------------------------------------------------------------- scanning
    def scan_function(self, f: FuncInfo, body=None):
        nodes = []
        for st in (body if body is not None else f.node.body):
            nodes.extend(ast.walk(st))
        seen = set()
        for n in nodes:
            if isinstance(n, ast.Attribute) and isinstance(n.value, ast.Name) and n.value.id == "self" \
                    and f"self.{n.attr}" in FRAME_ROOTS and isinstance(n.ctx, ast.Load):
                chain = _maximal_chain(n)
                if id(chain) in seen:
                    continue
                seen.add(id(chain))
                self.classify(chain, n, f)

    def classify(self, chain: ast.AST, root: ast.Attribute, f: FuncInfo):
        self.reads += 1
        txt = ast.unparse(chain)
        rtxt = ast.unparse(root)
        rest = txt[len(rtxt):]
        p = _parent(chain)
        ok, why = False, ""
        if rest == "":
            # bare reference: `is None` tests, isinstance, membership `x in self._data` (column), property getter return,
            # rebinding source, argument of a loader helper
            if isinstance(p, ast.Compare) and any(isinstance(o, (ast.Is, ast.IsNot)) for o in p.ops):
                ok, why = True, "None test"
            elif isinstance(p, ast.Call) and ast.unparse(p.func) == "isinstance":
                ok, why = True, "type test"
            elif isinstance(p, ast.Return) and f.is_property:
                ok, why = True, "property getter"
            elif isinstance(p, ast.Assign) and any(ast.unparse(t).startswith("self._strategy.") or ast.unparse(t).startswith("self.strategy.") for t in p.targets):
                ok, why = True, "handed to the strategy object (by design the strategy owns a reference to the data)"
            else:
                why = "the whole frame is used"
        elif rest in (".columns", ".index[0]", ".index[0].to_pydatetime()"):
            ok, why = True, "metadata / first row"
        elif rest == ".index":
            if isinstance(p, ast.Compare) and len(p.ops) == 1 and isinstance(p.ops[0], (ast.In, ast.NotIn)) and p.comparators[0] is chain:
                ok = self.le_now(p.left, f)
                why = f"membership of `{ast.unparse(p.left)}`"
            elif isinstance(p, ast.Call) and ast.unparse(p.func) == "isinstance":
                ok, why = True, "type test"
            else:
                why = "the whole index is used"
        elif isinstance(chain, ast.Call) and rest.endswith(".copy()") and rest.startswith(".loc["):
            inner = chain.func.value
            ok, why = self._loc(inner, f)
        elif isinstance(chain, ast.Subscript) and rest.startswith(".loc["):
            ok, why = self._loc(chain, f)
        elif isinstance(chain, ast.Subscript) and isinstance(chain.value, ast.Subscript) and isinstance(chain.value.slice, ast.Slice) \
                and chain.value.value is root:
            sl = chain.value.slice
            if sl.upper is None:
                why = "slice without an upper bound"
            elif sl.step is not None:
                why = "stepped slice"
            else:
                ok = self.le_now(sl.upper, f)
                why = f"label slice up to `{ast.unparse(sl.upper)}`"
        else:
            m = rest.split("(")[0].split("[")[0].lstrip(".").split(".")[0]
            why = f"`{m}` reads beyond a point lookup" if m in FORBIDDEN_METHODS else "unrecognised access form"
        self.res.ob("R-TIME", f"{f.qualname}: `{txt[:90]}` ({why})", f.loc(chain), ok=ok)
        if not ok:
            self.res.find("R-TIME", f.qualname, f"frame read `{txt[:110]}`", f.loc(chain),
                          f"{f.qualname} reads the input frame as `{txt[:160]}`: {why}; per-bar code may only look at rows keyed by "
                          f"a timestamp <= the current bar")

    def _loc(self, sub: ast.Subscript, f: FuncInfo):
        key = sub.slice
        if isinstance(key, ast.Tuple) and key.elts:
            key = key.elts[0]
        if isinstance(key, ast.Slice):
            return False, "slice through .loc"
        good = self.le_now(key, f)
        return good, f"point lookup by `{ast.unparse(key)}`" + ("" if good else " whose provenance is not the current bar")


def time_rule(model, res):
    tr = TimeRule(model, res)
    nfun = 0
    for c in [model.cls("Market")] + sorted(model.subclasses("Market"), key=lambda x: x.name):
        for name, f in list(c.methods.items()) + list(c.setters.items()):
            if name in PRELOOP:
                continue
            nfun += 1
            tr.scan_function(f)
    act = model.cls("Actuator")
    for name in ACTUATOR_INLOOP:
        f = model.find_method(act, name)
        if f is None:
            raise AnalysisError(f"C02: Actuator.{name} not found")
        nfun += 1
        tr.scan_function(f)
    run = model.func("Actuator.run")
    loops = [n for n in ast.walk(run.node) if isinstance(n, ast.For) and isinstance(n.iter, ast.Name) and n.iter.id == "index_array"]
    if len(loops) != 1:
        raise AnalysisError("C02: bar loop not found in Actuator.run")
    tr.scan_function(run, loops[0].body)
    nfun += 1
    return nfun, tr.reads


REF_STAT_COLUMNS = '''
def _add_statistic_column(df, pool_info):
    df["close"] = df["closeTick"].map(lambda t: tick_to_base_unit_price(int(t), pool_info.token0.decimal, pool_info.token1.decimal, pool_info.is_token0_quote))
    df["price"] = df["close"].shift(1)
    df.loc[df.index[0], "price"] = tick_to_base_unit_price(int(df["openTick"].iloc[0]), pool_info.token0.decimal, pool_info.token1.decimal, pool_info.is_token0_quote)
    df["volume0"] = df["inAmount0"].map(lambda a: Decimal(a) / 10**pool_info.token0.decimal)
    df["volume1"] = df["inAmount1"].map(lambda a: Decimal(a) / 10**pool_info.token1.decimal)
'''


def shift_rule(model, res):
    """The prepared columns equal the reference (ledger identity of the stores into the frame): close = price of the bar's
    close tick; the bar PRICE is the previous bar's close (shift by one bar back; the first bar uses its own open tick);
    volumes are the in-amounts in token units."""
    from ..rules.formula import effects_check
    effects_check(res, model, "uniswap.helper._add_statistic_column", REF_STAT_COLUMNS,
                  "bar price = close of the PREVIOUS bar (close.shift(1)); first bar from its open tick; per-token volumes",
                  [], opaque=["tick_to_base_unit_price"], rule="R-TIME")


# ------------------------------------------------------------------------------------------ R-TIME (data preparation)
BACKWARD_METHODS = {"bfill", "backfill", "interpolate"}
PREP_EXCLUDED_PKGS = ("demeter/result/", "demeter/indicator/", "demeter/strategy/", "demeter/utils/")


def _const(e):
    if isinstance(e, ast.Constant):
        return e.value
    if isinstance(e, ast.UnaryOp) and isinstance(e.op, ast.USub) and isinstance(e.operand, ast.Constant) and isinstance(e.operand.value, (int, float)):
        return -e.operand.value
    return Ellipsis      # not a constant


def prep_rule(model, res):
    """Time direction of the data preparation (loaders, gap filling, resampling) - everything outside the analytics
    packages.  (a) A backward fill moves later data into earlier rows: it is admitted only on a frame that was forward
    filled before it on every path of the function (then only the rows before the first datum are touched), or inside
    the fill dispatcher under its `method == "bfill"` test; the column rule table and every call of the dispatching
    fill function must ask for forward fills only.  (b) shift/diff/pct_change take a constant period >= 0... for shift
    >= 1 where a price is built (shift_rule).  (c) centred windows and interpolation use later rows.  (d) Every
    resampling reachable from Actuator.switch_interval - the time index, the price frame, each market's _resample and
    the wrapper they call - uses one binning convention (closed / label / origin / offset), so bar k of every frame
    aggregates the same minutes."""
    n = 0
    fill_funcs = {}        # name -> FuncInfo of repository functions that dispatch on a fill method parameter
    for f in model.all_functions():
        if "method" in f.params and any(isinstance(x, ast.Call) and isinstance(x.func, ast.Attribute) and x.func.attr in ("ffill", "bfill")
                                        for x in ast.walk(f.node)):
            fill_funcs[f.name] = f
    # the column rule table: Rule(agg, fillna_method, fillna_value)
    for m in model.modules.values():
        if m.relpath.startswith(PREP_EXCLUDED_PKGS):
            continue
        for node in ast.walk(m.tree):
            if isinstance(node, ast.Call) and isinstance(node.func, ast.Name) and node.func.id == "Rule":
                meth = node.args[1] if len(node.args) > 1 else next((k.value for k in node.keywords if k.arg == "fillna_method"), None)
                if meth is None:
                    continue
                v = _const(meth)
                n += 1
                ok = v in (None, "ffill", "pad")
                res.ob("R-TIME", f"column rule fills forward only ({ast.unparse(node)[:60]})", f"{m.relpath}:{node.lineno}", ok=ok)
                if not ok:
                    res.find("R-TIME", m.name.split(".", 1)[-1], f"column rule `{ast.unparse(node)[:70]}`", f"{m.relpath}:{node.lineno}",
                             f"`{ast.unparse(node)}` fills gaps with `{ast.unparse(meth)}`: a gap in bar k is filled from a LATER bar")

    def scan_block(f, stmts, ff):
        """ff = names holding a frame that has been forward filled (only leading rows can still be empty)."""
        nonlocal n
        for st in stmts:
            if isinstance(st, (ast.FunctionDef, ast.AsyncFunctionDef, ast.ClassDef)):
                continue
            if isinstance(st, ast.If):
                # the fill dispatcher: `elif method == "bfill": return df.bfill(...)` is value-dependent; its callers are checked
                tests_bfill = any(isinstance(c, ast.Constant) and c.value in ("bfill", "backfill") for c in ast.walk(st.test))
                a = scan_block(f, st.body, set(ff)) if not tests_bfill else set(ff)
                b = scan_block(f, st.orelse, set(ff))
                ff = a & b
                continue
            if isinstance(st, (ast.For, ast.While, ast.With, ast.Try)):
                for blk in ("body", "orelse", "finalbody"):
                    ff = scan_block(f, getattr(st, blk, []) or [], ff) & ff
                for h in getattr(st, "handlers", []):
                    scan_block(f, h.body, set(ff))
                continue
            # expressions of this statement
            for x in ast.walk(st):
                if not isinstance(x, ast.Call):
                    continue
                fn = x.func
                name = fn.attr if isinstance(fn, ast.Attribute) else (fn.id if isinstance(fn, ast.Name) else None)
                kws = {k.arg: k.value for k in x.keywords if k.arg}
                if isinstance(fn, ast.Attribute) and name in BACKWARD_METHODS or (
                        isinstance(fn, ast.Attribute) and name == "fillna" and _const(kws.get("method", ast.Constant(None))) in ("bfill", "backfill")):
                    recv = fn.value.id if isinstance(fn.value, ast.Name) else None
                    ok = name != "interpolate" and recv is not None and recv in ff
                    n += 1
                    res.ob("R-TIME", f"backward fill `{ast.unparse(x)[:50]}` only after a forward fill of the same frame (head rows only)",
                           f.loc(x), ok=ok)
                    if not ok:
                        res.find("R-TIME", f.qualname, f"backward fill `{ast.unparse(x)[:60]}`", f.loc(x),
                                 f"`{ast.unparse(x)[:80]}` in {f.qualname} fills gaps from LATER rows and the frame was not forward filled "
                                 f"before it on every path: a missing bar k takes the data of bar k+1 (look-ahead through data preparation)")
                if name in fill_funcs or (name == "fillna" and isinstance(fn, ast.Name)):
                    mv = kws.get("method")
                    if mv is None and isinstance(fn, ast.Name) and name in fill_funcs:
                        ps = fill_funcs[name].params
                        if "method" in ps and len(x.args) > ps.index("method"):
                            mv = x.args[ps.index("method")]
                    if mv is not None:
                        v = _const(mv)
                        # forwarding the caller's own `method` parameter is fine (checked at that caller's call sites)
                        fwd = isinstance(mv, (ast.Name, ast.IfExp, ast.Attribute)) and f.name in ("fillna", "df_fill_na") + tuple(fill_funcs)
                        ok = v in (None, "ffill", "pad") or fwd
                        n += 1
                        res.ob("R-TIME", f"fill call `{ast.unparse(x)[:50]}` asks for a forward fill", f.loc(x), ok=ok)
                        if not ok:
                            res.find("R-TIME", f.qualname, f"fill call `{ast.unparse(x)[:60]}`", f.loc(x),
                                     f"`{ast.unparse(x)[:80]}` requests fill method `{ast.unparse(mv)}`: gaps are filled from later rows")
                if isinstance(fn, ast.Attribute) and name in ("shift", "diff", "pct_change"):
                    pv = x.args[0] if x.args else kws.get("periods")
                    v = 1 if pv is None else _const(pv)
                    if isinstance(v, (int, float)) and not isinstance(v, bool):
                        ok = v >= 0
                        n += 1
                        res.ob("R-TIME", f"`{ast.unparse(x)[:40]}` looks back (period >= 0)", f.loc(x), ok=ok)
                        if not ok:
                            res.find("R-TIME", f.qualname, f"`{ast.unparse(x)[:60]}`", f.loc(x),
                                     f"`{ast.unparse(x)[:80]}` shifts LATER rows into earlier ones (negative period)")
                if isinstance(fn, ast.Attribute) and name in ("rolling", "ewm", "expanding") and _const(kws.get("center", ast.Constant(False))) is not False:
                    n += 1
                    res.ob("R-TIME", f"window `{ast.unparse(x)[:40]}` is trailing", f.loc(x), ok=False)
                    res.find("R-TIME", f.qualname, f"centred window `{ast.unparse(x)[:60]}`", f.loc(x),
                             f"`{ast.unparse(x)[:80]}` uses a centred window: bar k depends on later bars")
            # forward-filled bookkeeping
            if isinstance(st, (ast.Assign, ast.AnnAssign)) and st.value is not None:
                tg = st.targets[0] if isinstance(st, ast.Assign) else st.target
                if isinstance(tg, ast.Name):
                    v = st.value
                    filled = False
                    if isinstance(v, ast.Call):
                        fn = v.func
                        nm = fn.attr if isinstance(fn, ast.Attribute) else (fn.id if isinstance(fn, ast.Name) else None)
                        kws = {k.arg: k.value for k in v.keywords if k.arg}
                        if isinstance(fn, ast.Attribute) and nm in ("ffill", "pad"):
                            filled = True
                        elif isinstance(fn, ast.Attribute) and nm in ("bfill", "backfill") and isinstance(fn.value, ast.Name) and fn.value.id in ff:
                            filled = True
                        elif nm in ("fillna",) + tuple(fill_funcs) and isinstance(fn, ast.Name):
                            mv = _const(kws["method"]) if "method" in kws else None
                            filled = mv in (None, "ffill", "pad") and forward_by_table
                    if filled:
                        ff = ff | {tg.id}
                    else:
                        ff = ff - {tg.id}
        return ff

    # is the repository's rule-driven fillna forward by its table?  (all Rule(...) methods are forward: checked above)
    forward_by_table = not any(fd.rule == "R-TIME" and "column rule" in fd.construct for fd in res.findings)
    nfun = 0
    for f in model.all_functions():
        if f.module.relpath.startswith(PREP_EXCLUDED_PKGS):
            continue
        nfun += 1
        scan_block(f, f.node.body, set())
    res.units["preparation_functions_scanned"] = nfun
    res.units["time_direction_sites"] = n
    return n


def binning_rule(model, res):
    """(d) one binning convention for every resampling reachable from Actuator.switch_interval."""
    sw = model.func("Actuator.switch_interval")
    sites = []      # (FuncInfo, call node, {closed,label,origin,offset} as source text or None)
    KEYS = ("closed", "label", "origin", "offset")      # `on` / `level` select the time axis, not the bins
    PANDAS_DEFAULT = {"origin": "'start_day'"}            # DataFrame.resample(origin='start_day') is the default
    wrappers = {}
    for m in model.modules.values():
        for fn in m.funcs.values():
            if fn.name == "resample" and any(isinstance(x, ast.Call) and isinstance(x.func, ast.Attribute) and x.func.attr == "resample"
                                             for x in ast.walk(fn.node)):
                wrappers[fn.name] = fn
    funcs = [sw] + [c.methods["_resample"] for c in sorted(model.subclasses("Market"), key=lambda c: c.name) if "_resample" in c.methods]

    def conv(fn, call, binding):
        """convention of one pandas .resample call; `binding` maps a wrapper's parameter to the caller's argument text."""
        out = {}
        pos = ["rule", "axis", "closed", "label"]  # pandas positional order (old signature); only keywords are used in the repo
        kws = {k.arg: k.value for k in call.keywords if k.arg}
        for i, a in enumerate(call.args[1:], start=1):
            if i < len(pos):
                kws.setdefault(pos[i], a)
        for k in KEYS:
            v = kws.get(k)
            if v is None:
                out[k] = None
            elif isinstance(v, ast.Name) and v.id in binding:
                out[k] = binding[v.id]
            else:
                c = _const(v)
                out[k] = None if c is None else ast.unparse(v)
        for k, dv in PANDAS_DEFAULT.items():
            if out.get(k) is not None and out[k].replace('"', "'") == dv:
                out[k] = None
        return out

    for fn in funcs:
        for x in ast.walk(fn.node):
            if not isinstance(x, ast.Call):
                continue
            if isinstance(x.func, ast.Attribute) and x.func.attr == "resample":
                sites.append((fn, x, conv(fn, x, {})))
            elif isinstance(x.func, ast.Name) and x.func.id in wrappers:
                w = wrappers[x.func.id]
                binding = {}
                for i, p in enumerate(w.params):
                    a = x.args[i] if i < len(x.args) else next((k.value for k in x.keywords if k.arg == p), None)
                    if a is None:
                        d = w.defaults.get(p)
                        c = _const(d) if d is not None else None
                        binding[p] = None if (d is None or c is None) else ast.unparse(d)
                    else:
                        c = _const(a)
                        binding[p] = None if c is None else ast.unparse(a)
                for y in ast.walk(w.node):
                    if isinstance(y, ast.Call) and isinstance(y.func, ast.Attribute) and y.func.attr == "resample":
                        sites.append((fn, x, conv(w, y, binding)))
    # the aggregator applied to each resampler: every frame of a run takes the FIRST observation of a bar (the Uniswap
    # wrapper aggregates per column rule, checked with the column table); prices and markets must agree
    aggs = []
    for fn in funcs:
        for x in ast.walk(fn.node):
            if isinstance(x, ast.Call) and isinstance(x.func, ast.Attribute) and isinstance(x.func.value, ast.Call) \
                    and isinstance(x.func.value.func, ast.Attribute) and x.func.value.func.attr == "resample":
                aggs.append((fn, x, x.func.attr))
    if aggs:
        ref_agg = next((a for f_, x, a in aggs if f_ is sw and "index" in ast.unparse(x)), aggs[0][2])
        for fn, x, a in aggs:
            ok = a == ref_agg
            res.ob("R-TIME", f"{fn.qualname}: resampled with `.{a}()` like the bar index (`.{ref_agg}()`)", fn.loc(x), ok=ok)
            if not ok:
                res.find("R-TIME", fn.qualname, f"resampled with .{a}() while the bar index uses .{ref_agg}()", fn.loc(x),
                         f"{fn.qualname}: `{ast.unparse(x)[:80]}` takes the `{a}` observation of each bar, the other frames of the run take "
                         f"the `{ref_agg}` one: within one bar prices and market data come from different minutes (the last minute of "
                         f"bar k is data of the future at the start of bar k)")
    idx = [s for s in sites if s[0] is sw and "index" in ast.unparse(s[1])]
    if not idx:
        raise AnalysisError("C02: the resampling that defines the bar index was not found in Actuator.switch_interval")
    ref = idx[-1][2]
    for fn, call, cv in sites:
        ok = cv == ref
        res.ob("R-TIME", f"{fn.qualname}: `{ast.unparse(call)[:50]}` bins like the bar index ({ {k: v for k, v in cv.items() if v is not None} or 'pandas defaults'})",
               fn.loc(call), ok=ok)
        if not ok:
            diff = {k: (cv[k], ref[k]) for k in cv if cv[k] != ref[k]}
            res.find("R-TIME", fn.qualname, f"resampling `{ast.unparse(call)[:60]}` bins differently from the bar index", fn.loc(call),
                     f"{fn.qualname} resamples with {diff} (this frame, bar index): bar k of this frame aggregates minutes that belong to "
                     f"another bar of the time index / price frame, so bar k can contain data of bar k+1")
    return len(sites)


# ------------------------------------------------------------------------------------------ R-INPUT
def _aliases_frame(e: ast.AST) -> bool:
    """Does expression `e` denote (a view that writes through to) an input frame under copy-on-write?  Only the frame
    object itself does; .loc/.iloc/[] results are CoW-protected copies."""
    txt = ast.unparse(e)
    return txt in FRAME_ROOTS or txt in ("market.data", "market._data", "self.broker.markets[market].data")


def input_rule(model, res):
    n_fun = 0
    n_sinks = 0
    allowed = {"Strategy.add_column"}
    loaders = PRELOOP | {"set_price", "switch_interval", "reset"}
    scope = []
    for c in [model.cls("Market")] + model.subclasses("Market") + [model.cls("Actuator"), model.cls("Broker"), model.cls("Strategy")]:
        for name, f in list(c.methods.items()) + list(c.setters.items()):
            scope.append(f)
    mod = model.modules["demeter.core.backtest"]
    scope.extend(mod.funcs.values())
    scope.extend(model.cls("BacktestManager").methods.values())
    for f in scope:
        n_fun += 1
        for n in ast.walk(f.node):
            tgts = []
            if isinstance(n, ast.Assign):
                tgts = n.targets
            elif isinstance(n, (ast.AugAssign, ast.AnnAssign)):
                tgts = [n.target]
            elif isinstance(n, ast.Delete):
                tgts = n.targets
            sink = None
            for t in tgts:
                for tt in (t.elts if isinstance(t, ast.Tuple) else [t]):
                    # X[...] = , X.loc[...] = , X.at[...] =, X.attr = on a frame alias
                    if isinstance(tt, ast.Subscript):
                        b = tt.value
                        if _aliases_frame(b):
                            sink = (tt, "item assignment on the frame")
                        elif isinstance(b, ast.Attribute) and b.attr in ("loc", "at", "iloc", "iat") and _aliases_frame(b.value):
                            sink = (tt, f".{b.attr}[...] assignment on the frame")
                    elif isinstance(tt, ast.Attribute) and tt.attr in ("index", "columns") and _aliases_frame(tt.value):
                        sink = (tt, f".{tt.attr} assignment on the frame")
            if isinstance(n, ast.Call) and isinstance(n.func, ast.Attribute):
                inplace = any(k.arg == "inplace" and isinstance(k.value, ast.Constant) and k.value.value is True for k in n.keywords)
                if _aliases_frame(n.func.value) and (inplace or n.func.attr in ("insert", "pop", "update")):
                    sink = (n, f"in-place `{n.func.attr}` on the frame")
            if sink is None:
                continue
            n_sinks += 1
            ok = f.qualname in allowed or (f.name in loaders)
            res.ob("R-INPUT", f"{f.qualname}: `{ast.unparse(n)[:80]}`", f.loc(n), ok=ok,
                   detail="documented writer / pre-loop preparation" if ok else sink[1])
            if not ok:
                res.find("R-INPUT", f.qualname, f"in-place write to an input frame: {ast.unparse(n)[:100]}", f.loc(n),
                         f"{f.qualname}: {sink[1]} (`{ast.unparse(n)[:140]}`); a second run on the same inputs would see modified data")
    # rows that are mutated after being taken from the frame must be copies
    for c in model.subclasses("Market"):
        f = c.methods.get("set_market_status")
        if f is None:
            continue
        row_writes = [n for n in ast.walk(f.node) if isinstance(n, ast.Assign) and isinstance(n.targets[0], ast.Attribute)
                      and ast.unparse(n.targets[0].value).endswith(".data") and ast.unparse(n.targets[0].value) != "self.data"
                      and not ast.unparse(n.targets[0]).endswith(".data")]
        if not row_writes:
            continue
        takes = [n for n in ast.walk(f.node) if isinstance(n, ast.Assign) and ast.unparse(n.targets[0]).endswith(".data")
                 and any(ast.unparse(x) in FRAME_ROOTS for x in ast.walk(n.value))]
        ok = bool(takes) and all(isinstance(t.value, ast.Call) and isinstance(t.value.func, ast.Attribute) and t.value.func.attr == "copy"
                                 for t in takes)
        res.ob("R-INPUT", f"{c.name}.set_market_status mutates the status row only after copying it out of the frame", f.loc(), ok=ok)
        if not ok:
            res.find("R-INPUT", f"{c.name}.set_market_status", "status row mutated without a copy", f.loc(),
                     f"{c.name}.set_market_status writes into the row it took from the input frame "
                     f"(`{ast.unparse(row_writes[0])[:100]}`) without `.copy()`")
    return n_fun, n_sinks


def returned_objects_rule(model, res):
    """The balance object a market returns is stored in the account history row of the bar.  A market that keeps the object
    (memo) must never write its fields afterwards - it would rewrite the history of EARLIER bars with later data; a refresh
    builds a new object."""
    n = 0
    for c in sorted(model.subclasses("Market"), key=lambda c: c.name):
        f = c.methods.get("get_market_balance")
        if f is None:
            continue
        n += 1
        returned = {r.value.attr for r in ast.walk(f.node) if isinstance(r, ast.Return) and isinstance(r.value, ast.Attribute)
                    and isinstance(r.value.value, ast.Name) and r.value.value.id == "self"}
        bad = []
        for g in c.methods.values():
            for s in ast.walk(g.node):
                tgts = s.targets if isinstance(s, ast.Assign) else ([s.target] if isinstance(s, (ast.AugAssign, ast.AnnAssign)) else [])
                for t in tgts:
                    if isinstance(t, ast.Attribute) and isinstance(t.value, ast.Attribute) and isinstance(t.value.value, ast.Name) \
                            and t.value.value.id == "self" and t.value.attr in returned:
                        bad.append((g, s))
        res.ob("R-INPUT", f"{c.name}: a returned (memoised) balance object is never modified in place (memo fields: {sorted(returned) or 'none'})",
               f.loc(), ok=not bad)
        for g, s in bad[:2]:
            res.find("R-INPUT", g.qualname, f"in-place write `{ast.unparse(s)[:60]}` to a balance object that was already returned", g.loc(s),
                     f"{g.qualname}: `{ast.unparse(s)[:80]}` modifies the object that get_market_balance returned before; the account "
                     f"history rows of earlier bars hold that same object, so their values change after the fact (bars 0..k depend on "
                     f"what happens later)")
    return n


def run(model, tier="quick"):
    res = Result("C02", EXPLANATION)
    res.rules = ["R-TIME", "R-INPUT"]
    nfun, reads = time_rule(model, res)
    res.floor("in_loop_functions_scanned", nfun, 150)
    res.floor("frame_reads_classified", reads, 14)
    shift_rule(model, res)
    res.floor("time_direction_sites", prep_rule(model, res), 8)
    res.floor("resampling_sites", binning_rule(model, res), 8)
    nf, ns = input_rule(model, res)
    res.units["functions_scanned_for_sinks"] = nf
    res.units["sinks_found"] = ns
    # deepcopy isolation of order-book cells (shared with C15)
    from .C15 import isolation_rule
    res.floor("fill_loop_call_sites", isolation_rule(model, res), 3)
    # objects INSIDE cells (level lists) are shared by reference even under copy-on-write: no mutation may reach them
    from ..rules.alias import cell_mutation_rule
    mutating, _nf = cell_mutation_rule(model, res)
    res.ob("R-INPUT", f"no statement or call mutates an object stored in a frame cell (functions that mutate a parameter: "
                      f"{sorted(mutating)}; every call site hands them fresh objects)", "demeter/", ok=_nf == 0)
    res.floor("functions_mutating_a_parameter", len(mutating), 1)
    res.units["balance_objects_checked"] = returned_objects_rule(model, res)
    from ..rules.fresh import fresh_rule
    if "R-FRESH" not in res.rules:
        res.rules.append("R-FRESH")
    fresh_rule(model, res, scope=('demeter/core/', 'demeter/uniswap/', 'demeter/deribit/', 'demeter/aave/', 'demeter/squeeth/', 'demeter/gmx/', 'demeter/data/'))
    res.assumptions = ["pandas >= 3 copy-on-write: objects obtained from a frame by loc/iloc/[] never write through to it",
                       "the time index of every frame is sorted (data)", "strategy code is out of scope (the Strategy object owns "
                       "references to data and prices by design)"]
    res.not_decided = ["sortedness of the index (data dependent)", "behaviour under pandas < 3 (no copy-on-write)"]
    return res


MANIFEST = {
    "technique": "provenance analysis of every input-frame read in per-bar code (keys <= current bar), time-direction and binning rules over the data preparation, alias/sink analysis for in-place writes under copy-on-write incl. objects inside cells",
    "claim": "Every read of a market data frame or of the price frame that can execute inside the bar loop is a point "
             "lookup, membership test, bounded label slice or metadata access whose key derives from the current bar's "
             "timestamp (floor / minus a non-negative constant allowed); the prepared price column is an earlier close; no "
             "per-bar code writes an input frame in place, rows that are modified are copies, and order-book cell objects "
             "reach any mutating function only as deep copies (parameter-mutation summaries over resolved callees). In the data "
             "preparation a backward fill is admitted only after a forward fill of the same frame (head rows only), column "
             "rules and fill calls ask for forward fills, shifts look back, and every resampling reachable from "
             "switch_interval bins like the bar index. This bounds what bar k can see to rows <= k for every history.",
    "note": "Trusted: pandas >= 3 copy-on-write semantics; the enumeration of frame roots (self._data/self.data, "
            "Actuator._token_prices). Not decided: sortedness of the index, strategy code, pandas < 3.",
}
