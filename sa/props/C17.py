"""C17 -- GMX mint/redeem: fees bounded and rule-based, round trips never profit."""
from __future__ import annotations

import ast

from ..model import AnalysisError
from ..report import Result
from ..rules.formula import effects_check, formula_check

EXPLANATION = (
    "GMX v1 and v2 mint/redeem arithmetic is compared, as canonical piecewise expressions and ledgers, with references "
    "transcribed from Vault.sol / VaultUtils.sol / GlpManager.sol and the GMX v2 MarketUtils / SwapPricingUtils / "
    "ExecuteDepositUtils / ExecuteWithdrawalUtils sources: the fee-basis-points decision tree (rebate arm, average "
    "deviation clamped at the target, tax added to the base) from which 0 <= fee <= base + tax follows by the clamp; "
    "buyUSDG / sellUSDG with the token<->USDG decimals adjustment and the four round-down steps; GLP mint = usdg*supply/"
    "aum and redeem = glp*aum/supply; fee lookups keyed by the USDG amount; pro-rata reward accrual; v2 value per share, "
    "deposit/withdraw fee factors by (type, impact sign), the positive impact capped by the impact pool and minted from the "
    "CAPPED amount, the negative impact deducted; ledgers of buy_glp / sell_glp / deposit / withdraw (holding guards, "
    "amounts moved). Round-trip non-profit is an inequality over pool states and is not decided; the fee bound and all "
    "single-step formulas are."
)

# ------------------------------------------------------------------ v1 references (Vault.sol, VaultUtils.sol, GlpManager.sol)
REF_FEE_BPS = '''
def get_fee_basis_points(self, token, usdg_amount, increase):
    base = self.mint_burn_fee_basis_points
    tax = self.tax_basis_points
    initial = Decimal(self.market_status.data[f"{token.name.lower()}_usdg"])
    if increase:
        nxt = initial + usdg_amount
    else:
        if usdg_amount > initial:
            nxt = 0
        else:
            nxt = initial - usdg_amount
    target = self.get_target_amount(token)
    if target == 0:
        return base
    d0 = abs(initial - target)
    d1 = abs(nxt - target)
    if d1 < d0:
        rebate = tax * d0 / target
        if rebate > base:
            return 0
        return base - rebate
    avg = (d0 + d1) / 2
    avg = avg if avg < target else target
    return base + int(tax * avg / target)
'''

REF_TARGET = '''
def get_target_amount(self, token):
    total = 0
    for t in self._tokens:
        total += self.market_status.data[f"{t.name.lower()}_weight"]
    return self.market_status.data[f"{token.name.lower()}_weight"] * Decimal(self.market_status.data["usdg"]) / total
'''

REF_COLLECT_FEE = "def _collect_swap_fee(self, token, token_amount, fee_point):\n    return token_amount * (10000 - fee_point) / 10000\n"

# Vault.buyUSDG: usdg = adjustForDecimals(tokenAmount * price / 1e30, token, usdg); fee bps from that amount;
# mint = adjustForDecimals(amountAfterFees * price / 1e30, token, usdg)   (USDG has 18 decimals)
REF_BUY_USDG = '''
def buy_usdg(self, token, token_amount):
    price = self.market_status.data[f"{token.name.lower()}_price"]
    gross = (token_amount * 10**18 * price / 10**30).quantize(Decimal("0"), rounding=ROUND_DOWN)
    bps = self.get_buy_usdg_fee_point(token, gross)
    net_tokens = self._collect_swap_fee(token, token_amount, bps)
    return (Decimal(net_tokens) * 10**18 * price / 10**30).quantize(Decimal("0"), rounding=ROUND_DOWN)
'''

# Vault.sellUSDG: redemption = adjustForDecimals(usdg * 1e30 / price, usdg, token); fee bps keyed by the USDG amount
REF_SELL_USDG = '''
def sell_usdg(self, token, usdg_amount):
    redemption = self.get_redemption_amount(token, usdg_amount)
    bps = self.get_sell_usdg_fee_point(token, usdg_amount)
    return self._collect_swap_fee(token, redemption, bps)
'''

REF_REDEMPTION = '''
def get_redemption_amount(self, token, usdg_amount):
    return usdg_amount * 10**30 / Decimal(self.market_status.data[f"{token.name.lower()}_price"])
'''

REF_ADD_LIQ = '''
def _add_liquidity(self, token, amount):
    supply = Decimal(self.market_status.data.glp)
    aum_usdg = (Decimal(self.market_status.data.aum) / Decimal(10**12)).quantize(Decimal("0"), rounding=ROUND_DOWN)
    usdg = self.buy_usdg(token, amount)
    minted = (usdg * supply / aum_usdg).quantize(Decimal("0"), rounding=ROUND_DOWN)
    self._record_action(BuyGlpAction(market=self.market_info, token=token.name, token_amount=amount, mint_amount=minted))
    return minted / 10**self.glp_decimal
'''

# GlpManager.removeLiquidity: usdg = glp * aumInUsdg / supply ; tokenOut = vault.sellUSDG(usdg) in token units
REF_REMOVE_LIQ = '''
def _remove_liquidity(self, token, glp_amount):
    supply = Decimal(self.market_status.data.glp)
    aum_usdg = (Decimal(self.market_status.data.aum) / Decimal(10**12)).quantize(Decimal("0"), rounding=ROUND_DOWN)
    usdg = (glp_amount * 10**self.glp_decimal * aum_usdg / supply).quantize(Decimal("0"), rounding=ROUND_DOWN)
    out = self.sell_usdg(token, usdg) / 10**18
    self._record_action(SellGlpAction(market=self.market_info, token=token.name, glp_amount=glp_amount, token_out=out))
    return out
'''

REF_BUY_GLP = '''
def buy_glp(self, token, amount):
    self.broker.subtract_from_balance(token, amount)
    minted = self._add_liquidity(token, amount)
    self.glp_amount += minted
    return minted
'''

REF_SELL_GLP = '''
def sell_glp(self, token, glp_amount=0):
    if not glp_amount:
        glp_amount = self.glp_amount
    if glp_amount > self.glp_amount:
        raise DemeterError("more than held")
    out = self._remove_liquidity(token, glp_amount)
    self.glp_amount -= glp_amount
    self.broker.add_to_balance(token, out)
    return out
'''

REF_UPDATE_FEE = '''
def _update_fee(self):
    emitted = Decimal(self.market_status.data.interval) * 60
    self.reward += emitted * self.glp_amount / Decimal(self.market_status.data.glp)
'''

REF_V1_BALANCE = '''
def get_market_balance(self):
    glp_value = self.glp_amount * Decimal(self.market_status.data.glp_price)
    reward_value = self.reward * Decimal(self.market_status.data["wavax_price"]) / 10**30
    return GmxBalance(net_value=glp_value + reward_value, reward=self.reward, glp=self.glp_amount)
'''

# ------------------------------------------------------------------ v2 references
REF_USD_TO_GM = "def usdToMarketTokenAmount(_usd_value, _pool_value, _supply):\n    return _usd_value * _supply / _pool_value\n"
REF_GM_TO_USD = "def marketTokenAmountToUsd(marketTokenAmount, poolValue, supply):\n    return marketTokenAmount * poolValue / supply\n"

REF_IMPACT_CAP = '''
def getSwapImpactAmountWithCap(tokenPrice, priceImpactUsd, impactPoolAmount):
    amount = priceImpactUsd / tokenPrice
    if priceImpactUsd > 0:
        if amount > impactPoolAmount:
            return impactPoolAmount, (amount - impactPoolAmount) * tokenPrice
        return amount, 0
    return amount, 0
'''

REF_TOKENS_FROM_GM = '''
def getTokenAmountsFromGM(pool_status, marketTokenAmount):
    long_usd = pool_status.longAmount * pool_status.longPrice
    short_usd = pool_status.shortAmount * pool_status.shortPrice
    value = marketTokenAmount * pool_status.poolValue / pool_status.marketTokensSupply
    return value * long_usd / (long_usd + short_usd) / pool_status.longPrice, value * short_usd / (long_usd + short_usd) / pool_status.shortPrice
'''

REF_SWAP_FEES = '''
def getSwapFees(pool_config, amount, forPositiveImpact, swapPricingType):
    if swapPricingType == SwapPricingType.Swap:
        factor = 0
    elif swapPricingType == SwapPricingType.Shift:
        factor = 0
    elif swapPricingType == SwapPricingType.Atomic:
        factor = 0
    elif swapPricingType == SwapPricingType.Deposit:
        if forPositiveImpact:
            factor = pool_config.depositFeeFactorForPositiveImpact
        else:
            factor = pool_config.depositFeeFactorForNegativeImpact
    elif swapPricingType == SwapPricingType.Withdrawal:
        if forPositiveImpact:
            factor = pool_config.withdrawFeeFactorForPositiveImpact
        else:
            factor = pool_config.withdrawFeeFactorForNegativeImpact
    else:
        factor = 0
    return SwapFees(amount - amount * factor, amount * factor)
'''

# the whitelisted tokens are a SET (TokenInfo hashes by name): registering a token twice does not double its weight
REF_GMX_INIT = '''
def __init__(self, market_info, tokens=None, data=None, data_path="./data"):
    super().__init__(market_info=market_info, data=data, data_path=data_path)
    self.glp_amount = Decimal("0.00")
    self.glp_decimal = 18
    self.reward = Decimal("0.00")
    self.mint_burn_fee_basis_points = 25
    self.tax_basis_points = 60
    self._tokens = set()
    if tokens is not None:
        self.add_token(tokens)
'''
REF_GMX_ADD_TOKEN = '''
def add_token(self, token_info):
    if not isinstance(token_info, list):
        token_info = [token_info]
    for t in token_info:
        self._tokens.add(t)
'''

# ---- GMX v2 price impact (SwapPricingUtils.sol / PricingUtils.sol) -------------------------------------------------
# impact(diff, factor, exponent) = diff^exponent * factor
# same side:   sign(+ iff next diff < initial diff) * | impact(initial) - impact(next) |        (one factor)
# crossover:   sign(+ iff positive > negative) * | impact(initial, positive factor) - impact(next, negative factor) |
# the positive factor never exceeds the negative factor; pool USD values are amount * price, next = value + delta (>= 0)
REF_IMPACT_FACTOR = '''
def applyImpactFactor(diffUsd, impactFactor, impactExponentFactor):
    return impactFactor * diffUsd ** impactExponentFactor
'''

REF_IMPACT_SAME = '''
def getPriceImpactUsdForSameSideRebalance(initialDiffUsd, nextDiffUsd, impactFactor, impactExponentFactor):
    a = PricingUtils.applyImpactFactor(initialDiffUsd, impactFactor, impactExponentFactor)
    b = PricingUtils.applyImpactFactor(nextDiffUsd, impactFactor, impactExponentFactor)
    if nextDiffUsd < initialDiffUsd:
        return abs(a - b)
    return -abs(a - b)
'''

REF_IMPACT_CROSS = '''
def getPriceImpactUsdForCrossoverRebalance(initialDiffUsd, nextDiffUsd, positiveImpactFactor, negativeImpactFactor, impactExponentFactor):
    pos = PricingUtils.applyImpactFactor(initialDiffUsd, positiveImpactFactor, impactExponentFactor)
    neg = PricingUtils.applyImpactFactor(nextDiffUsd, negativeImpactFactor, impactExponentFactor)
    if pos > neg:
        return abs(pos - neg)
    return -abs(pos - neg)
'''

REF_IMPACT_FACTORS = '''
def getAdjustedSwapImpactFactors(pool_config):
    return min(pool_config.swapImpactFactorPositive, pool_config.swapImpactFactorNegative), pool_config.swapImpactFactorNegative
'''

REF_IMPACT_FACTOR_ONE = '''
def getAdjustedSwapImpactFactor(pool_config, isPositive):
    both = MarketUtils.getAdjustedSwapImpactFactors(pool_config)
    if isPositive:
        return both[0]
    return both[1]
'''

REF_IMPACT_INNER = '''
def _getPriceImpactUsd(pool_config, pool_params):
    d0 = abs(pool_params.poolUsdForTokenA - pool_params.poolUsdForTokenB)
    d1 = abs(pool_params.nextPoolUsdForTokenA - pool_params.nextPoolUsdForTokenB)
    same = (pool_params.poolUsdForTokenA <= pool_params.poolUsdForTokenB) == (pool_params.nextPoolUsdForTokenA <= pool_params.nextPoolUsdForTokenB)
    if same:
        return PricingUtils.getPriceImpactUsdForSameSideRebalance(
            d0, d1, MarketUtils.getAdjustedSwapImpactFactor(pool_config, d1 < d0), pool_config.swapImpactExponentFactor)
    f = MarketUtils.getAdjustedSwapImpactFactors(pool_config)
    return PricingUtils.getPriceImpactUsdForCrossoverRebalance(d0, d1, f[0], f[1], pool_config.swapImpactExponentFactor)
'''

REF_NEXT_POOL = '''
def getNextPoolAmountsParams(params, poolAmountForTokenA, poolAmountForTokenB):
    a = poolAmountForTokenA * params.priceForTokenA
    b = poolAmountForTokenB * params.priceForTokenB
    if params.usdDeltaForTokenA < 0 and -params.usdDeltaForTokenA > a:
        raise RuntimeError("delta exceeds pool")
    if params.usdDeltaForTokenB < 0 and -params.usdDeltaForTokenB > b:
        raise RuntimeError("delta exceeds pool")
    return PoolParams(a, b, Calc.sumReturnUint256(a, params.usdDeltaForTokenA), Calc.sumReturnUint256(b, params.usdDeltaForTokenB))
'''

REF_SUM_UINT = '''
def sumReturnUint256(a, b):
    if a + b < 0:
        raise RuntimeError("negative")
    return a + b
'''

REF_NEXT_POOL_USD = '''
def getNextPoolAmountsUsd(params, amounts):
    if params.tokenA_is_long_token:
        return SwapPriceUtils.getNextPoolAmountsParams(params, amounts.long, amounts.short)
    return SwapPriceUtils.getNextPoolAmountsParams(params, amounts.short, amounts.long)
'''

# the impact of the real pool, and - only when that is negative and virtual inventories exist - the worse (smaller) of it
# and the impact computed on the virtual inventory
REF_IMPACT_OUTER = '''
def getPriceImpactUsd(params, pool_status):
    real = SwapPriceUtils._getPriceImpactUsd(
        params.pool_config, SwapPriceUtils.getNextPoolAmountsUsd(params, Amounts(pool_status.longAmount, pool_status.shortAmount)))
    if real >= 0:
        return real
    if not params.includeVirtualInventoryImpact:
        return real
    if pool_status.virtualSwapInventoryLong is None or pool_status.virtualSwapInventoryShort is None:
        return real
    if params.tokenA_is_long_token:
        vp = SwapPriceUtils.getNextPoolAmountsParams(params, pool_status.virtualSwapInventoryLong, pool_status.virtualSwapInventoryShort)
    else:
        vp = SwapPriceUtils.getNextPoolAmountsParams(params, pool_status.virtualSwapInventoryShort, pool_status.virtualSwapInventoryLong)
    virt = SwapPriceUtils._getPriceImpactUsd(params.pool_config, vp)
    return min(virt, real)
'''

# a deposit of both tokens: the impact of the whole deposit is split pro rata to the deposited values; each side mints
# through calc_token_amount with ITS OWN price as the in-price and the other token's as the out-price
REF_MINT_AMOUNT = '''
def get_mint_amount(pool_config, pool_status, long_amount, short_amount):
    lv = long_amount * pool_status.longPrice
    sv = short_amount * pool_status.shortPrice
    impact = SwapPriceUtils.getPriceImpactUsd(
        GetPriceImpactUsdParams(pool_config, pool_status.longPrice, pool_status.shortPrice, lv, sv, True, True), pool_status)
    gm = 0
    lfee = 0
    sfee = 0
    fee_value = 0
    if long_amount > 0:
        r = ExecuteDepositUtils.calc_token_amount(pool_config, pool_status, pool_status.longPrice, pool_status.shortPrice,
                                                  long_amount, impact * lv / (lv + sv))
        gm += r[0]
        fee_value += r[1].totalFee * pool_status.longPrice
        lfee = r[1].totalFee
    if short_amount > 0:
        r2 = ExecuteDepositUtils.calc_token_amount(pool_config, pool_status, pool_status.shortPrice, pool_status.longPrice,
                                                   short_amount, impact * sv / (lv + sv))
        gm += r2[0]
        fee_value += r2[1].totalFee * pool_status.shortPrice
        sfee = r2[1].totalFee
    return LPResult(long_amount=long_amount, short_amount=short_amount, total_usd=lv + sv, gm_amount=gm, long_fee=lfee,
                    short_fee=sfee, gm_usd=gm * PricingUtils.get_gm_price(pool_status.poolValue, pool_status.marketTokensSupply),
                    fee_usd=fee_value, price_impact_usd=impact)
'''

REF_CALC_TOKEN = '''
def calc_token_amount(pool_config, pool_status, tokenInPrice, tokenOutPrice, amount, priceImpactUsd):
    fees = SwapPriceUtils.getSwapFees(pool_config, amount, priceImpactUsd > 0, SwapPricingType.Deposit)
    minted = 0
    net_in = fees.amountAfterFees
    if priceImpactUsd > 0:
        capped = MarketUtils.getSwapImpactAmountWithCap(tokenOutPrice, priceImpactUsd, pool_status.impactPoolAmount)
        minted += capped[0] * tokenOutPrice * pool_status.marketTokensSupply / pool_status.poolValue
    if priceImpactUsd < 0:
        neg = MarketUtils.getSwapImpactAmountWithCap(tokenInPrice, priceImpactUsd, pool_status.impactPoolAmount)
        net_in = net_in + neg[0]
    minted += net_in * tokenInPrice * pool_status.marketTokensSupply / pool_status.poolValue
    return minted, SwapFees(net_in, fees.totalFee)
'''

REF_WITHDRAW_OUT = '''
def getOutputAmount(pool_config, pool_status, marketTokenAmount):
    amounts = MarketUtils.getTokenAmountsFromGM(pool_status, marketTokenAmount)
    lf = SwapPriceUtils.getSwapFees(pool_config, amounts[0], False, SwapPricingType.Withdrawal)
    sf = SwapPriceUtils.getSwapFees(pool_config, amounts[1], False, SwapPricingType.Withdrawal)
    return LPResult(
        long_amount=lf.amountAfterFees, short_amount=sf.amountAfterFees,
        total_usd=lf.amountAfterFees * pool_status.longPrice + sf.amountAfterFees * pool_status.shortPrice,
        gm_amount=marketTokenAmount, gm_usd=marketTokenAmount * (pool_status.poolValue / pool_status.marketTokensSupply),
        long_fee=lf.totalFee, short_fee=sf.totalFee,
        fee_usd=lf.totalFee * pool_status.longPrice + sf.totalFee * pool_status.shortPrice, price_impact_usd=0)
'''

REF_V2_DEPOSIT = '''
def deposit(self, long_amount, short_amount):
    long_amount = float(long_amount)
    short_amount = float(short_amount)
    r = ExecuteDepositUtils.get_mint_amount(self.pool_config, self._market_status.data, long_amount, short_amount)
    self.broker.subtract_from_balance(self.long_token, Decimal(r.long_amount))
    self.broker.subtract_from_balance(self.short_token, Decimal(r.short_amount))
    self.amount += r.gm_amount
    self._record_action(Gmx2DepositAction(
        market=self.market_info, gm_amount=UnitDecimal(r.gm_amount, "GM"), gm_usd=UnitDecimal(r.gm_usd, "USD"),
        long_amount=UnitDecimal(r.long_amount, self.long_token.name), short_amount=UnitDecimal(r.short_amount, self.short_token.name),
        deposit_usd=UnitDecimal(r.total_usd, "USD"), long_fee=UnitDecimal(r.long_fee, self.long_token.name),
        short_fee=UnitDecimal(r.short_fee, self.short_token.name), fee_usd=UnitDecimal(r.fee_usd, "USD"),
        price_impact_usd=UnitDecimal(r.price_impact_usd, "USD")))
    return r
'''

REF_V2_WITHDRAW = '''
def withdraw(self, amount=None):
    if amount is None:
        amount = self.amount
    amount = float(amount)
    if amount < 0:
        raise DemeterError("negative")
    if amount > self.amount:
        raise DemeterError("more than held")
    r = ExecuteWithdrawUtils.getOutputAmount(self.pool_config, self._market_status.data, amount)
    self.amount -= r.gm_amount
    self.broker.add_to_balance(self.long_token, Decimal(r.long_amount))
    self.broker.add_to_balance(self.short_token, Decimal(r.short_amount))
    self._record_action(Gmx2WithdrawAction(
        market=self.market_info, gm_amount=UnitDecimal(r.gm_amount, "GM"), gm_usd=UnitDecimal(r.gm_usd, "USD"),
        long_amount=UnitDecimal(r.long_amount, self.long_token.name), short_amount=UnitDecimal(r.short_amount, self.short_token.name),
        withdraw_usd=UnitDecimal(r.total_usd, "USD"), long_fee=UnitDecimal(r.long_fee, self.long_token.name),
        short_fee=UnitDecimal(r.short_fee, self.short_token.name), fee_usd=UnitDecimal(r.fee_usd, "USD")))
    return r
'''

REF_V2_BALANCE = '''
def get_market_balance(self):
    if self.amount > 0:
        st = self._market_status.data
        parts = MarketUtils.getTokenAmountsFromGM(st, self.amount)
        value = Decimal(self.amount * st.poolValue / st.marketTokensSupply)
        la = Decimal(parts[0])
        sa = Decimal(parts[1])
    else:
        value = Decimal(0)
        la = Decimal(0)
        sa = Decimal(0)
    return GmxV2Balance(net_value=value, gm_amount=Decimal(self.amount), long_amount=la, short_amount=sa)
'''

FX = ["subtract_from_balance", "add_to_balance", "_record_action"]


def run(model, tier="quick"):
    res = Result("C17", EXPLANATION)
    res.rules = ["R-FORMULA", "R-SHAPE", "R-BOUND", "R-PAIR", "R-GUARD"]
    G = "GmxMarket."
    formula_check(res, model, G + "get_fee_basis_points", REF_FEE_BPS,
                  "VaultUtils.getFeeBasisPoints decision tree (rebate / clamped average deviation / tax), hence 0 <= fee <= base+tax",
                  opaque=["get_target_amount"])
    formula_check(res, model, G + "get_target_amount", REF_TARGET, "target USDG = weight * usdg supply / total weights")
    formula_check(res, model, G + "_collect_swap_fee", REF_COLLECT_FEE, "amount after fee = amount*(10000-bps)/10000")
    opq = ["get_buy_usdg_fee_point", "get_sell_usdg_fee_point", "_collect_swap_fee", "get_redemption_amount",
           "buy_usdg", "sell_usdg", "get_fee_basis_points"]
    formula_check(res, model, G + "buy_usdg", REF_BUY_USDG,
                  "buyUSDG: usdg = floor(amount*price/1e30) in 18-decimal USDG units (token decimals adjusted), fee keyed by that amount",
                  opaque=opq)
    formula_check(res, model, G + "sell_usdg", REF_SELL_USDG, "sellUSDG: redemption less fee, fee keyed by the USDG amount", opaque=opq)
    formula_check(res, model, G + "get_redemption_amount", REF_REDEMPTION, "redemption = usdg * 1e30 / price")
    for nm, inc in (("get_buy_usdg_fee_point", "True"), ("get_sell_usdg_fee_point", "False")):
        formula_check(res, model, G + nm, f"def {nm}(self, token, usdg_amount):\n    return self.get_fee_basis_points(token, usdg_amount, {inc})\n",
                      f"{nm}: increment = {inc}", opaque=["get_fee_basis_points"])
    effects_check(res, model, G + "_add_liquidity", REF_ADD_LIQ, "GLP minted = floor(usdg*supply/floor(aum/1e12))/1e18", FX, opaque=opq)
    effects_check(res, model, G + "_remove_liquidity", REF_REMOVE_LIQ,
                  "token out = sellUSDG(floor(glp*1e18*aumUsdg/supply)) in token units (USDG has 18 decimals)", FX, opaque=opq)
    effects_check(res, model, G + "buy_glp", REF_BUY_GLP, "buy: wallet debited by the amount, holding increased by the minted GLP",
                  FX, opaque=["_add_liquidity"])
    effects_check(res, model, G + "sell_glp", REF_SELL_GLP, "sell: rejected above the holding; holding reduced, wallet credited",
                  FX, opaque=["_remove_liquidity"])
    effects_check(res, model, G + "_update_fee", REF_UPDATE_FEE, "reward accrues pro rata: interval*60*own/supply", FX)
    formula_check(res, model, G + "get_market_balance", REF_V1_BALANCE, "v1 value = shares*price + rewards*price/1e30")
    # ---- v2
    MU = "MarketUtils."
    formula_check(res, model, MU + "usdToMarketTokenAmount", REF_USD_TO_GM, "GM minted = usd * supply / pool value")
    formula_check(res, model, MU + "marketTokenAmountToUsd", REF_GM_TO_USD, "GM value = amount * pool value / supply")
    formula_check(res, model, MU + "getSwapImpactAmountWithCap", REF_IMPACT_CAP, "positive impact capped by the impact pool")
    formula_check(res, model, MU + "getTokenAmountsFromGM", REF_TOKENS_FROM_GM, "redeemed tokens pro rata to the pool composition")
    formula_check(res, model, "SwapPriceUtils.getSwapFees", REF_SWAP_FEES, "fee factor by (pricing type, impact sign)")
    formula_check(res, model, "ExecuteDepositUtils.calc_token_amount", REF_CALC_TOKEN,
                  "deposit mint: positive impact minted from the CAPPED amount, negative impact deducted, fee by impact sign",
                  opaque=["getSwapImpactAmountWithCap"])
    formula_check(res, model, "ExecuteWithdrawUtils.getOutputAmount", REF_WITHDRAW_OUT,
                  "withdraw: pro-rata amounts less the withdrawal fee (negative-impact factor)",
                  opaque=["getTokenAmountsFromGM"])
    V = "GmxV2Market."
    effects_check(res, model, V + "deposit", REF_V2_DEPOSIT, "v2 deposit ledger: both legs are paid BEFORE the GM is credited (a rejected deposit mints nothing)", FX, opaque=["get_mint_amount"], ordered=True)
    effects_check(res, model, V + "withdraw", REF_V2_WITHDRAW, "v2 withdraw ledger: rejected when negative or above the holding",
                  FX, opaque=["getOutputAmount"])
    formula_check(res, model, V + "get_market_balance", REF_V2_BALANCE, "v2 value = shares * pool value / supply",
                  opaque=["getTokenAmountsFromGM"])
    effects_check(res, model, G + "__init__", REF_GMX_INIT, "v1 market state: fee constants 25 / 60 bp, token registry is a set holding the given tokens",
                  ["add", "__init__"])
    effects_check(res, model, G + "add_token", REF_GMX_ADD_TOKEN, "token registry: set semantics (a token counts once)", ["add"])
    SP, PU = "SwapPriceUtils.", "PricingUtils."
    formula_check(res, model, PU + "applyImpactFactor", REF_IMPACT_FACTOR, "impact(diff) = diff^exponent * factor")
    formula_check(res, model, PU + "getPriceImpactUsdForSameSideRebalance", REF_IMPACT_SAME,
                  "same-side impact: +|.| iff the imbalance shrinks", opaque=["applyImpactFactor"])
    formula_check(res, model, PU + "getPriceImpactUsdForCrossoverRebalance", REF_IMPACT_CROSS,
                  "crossover impact: positive part from the initial diff, negative from the next diff", opaque=["applyImpactFactor"])
    formula_check(res, model, MU + "getAdjustedSwapImpactFactors", REF_IMPACT_FACTORS, "positive factor capped by the negative factor")
    formula_check(res, model, MU + "getAdjustedSwapImpactFactor", REF_IMPACT_FACTOR_ONE, "factor by sign",
                  opaque=["getAdjustedSwapImpactFactors"])
    formula_check(res, model, SP + "_getPriceImpactUsd", REF_IMPACT_INNER,
                  "impact: same-side vs crossover by whether the imbalance changes sides",
                  opaque=["getPriceImpactUsdForSameSideRebalance", "getPriceImpactUsdForCrossoverRebalance", "getAdjustedSwapImpactFactor",
                          "getAdjustedSwapImpactFactors"])
    formula_check(res, model, "Calc.sumReturnUint256", REF_SUM_UINT, "unsigned sum rejects a negative result")
    formula_check(res, model, SP + "getNextPoolAmountsParams", REF_NEXT_POOL, "pool USD = amount*price; next = pool + delta, delta cannot exceed the pool",
                  opaque=["sumReturnUint256"])
    formula_check(res, model, SP + "getNextPoolAmountsUsd", REF_NEXT_POOL_USD, "token A is the long token or the short token",
                  opaque=["getNextPoolAmountsParams"])
    formula_check(res, model, SP + "getPriceImpactUsd", REF_IMPACT_OUTER,
                  "negative impact is the worse of the real pool's and the virtual inventory's",
                  opaque=["_getPriceImpactUsd", "getNextPoolAmountsUsd", "getNextPoolAmountsParams"])
    formula_check(res, model, "ExecuteDepositUtils.get_mint_amount", REF_MINT_AMOUNT,
                  "deposit: impact split pro rata to the deposited values; each side minted with its own in-price",
                  opaque=["getPriceImpactUsd", "calc_token_amount", "get_gm_price"])
    res.floor("obligations", len(res.obligations), 35)
    # constructors establish the relations between fields that the references above take for granted
    from .ctor_refs import constructors
    res.units["constructor_references"] = constructors(res, model, ('gmx2', 'market'))
    # premises: the token whitelist is a set of TokenInfo (equality and hash by name, so one token is one entry whatever its
    # spelling); the enums that select fee branches have pairwise distinct members
    from .base_refs import token_identity, enum_values_unique
    token_identity(res, model)
    res.units["enums_checked"] = enum_values_unique(res, model, scope=("demeter/gmx/",))
    from ..rules.fresh import fresh_rule
    if "R-FRESH" not in res.rules:
        res.rules.append("R-FRESH")
    fresh_rule(model, res, scope=('demeter/gmx/',))
    res.assumptions = ["data columns: *_price scaled by 1e30, aum by 1e30, glp supply by 1e18 (loader)",
                       "get_mint_amount's split of the price impact between the two sides is not compared (see not_decided)"]
    res.not_decided = ["round trips never profit (inequality over pool states)",
                       "v2 price impact magnitude (getPriceImpactUsd) against the contracts"]
    return res


MANIFEST = {
    "technique": "formula and ledger identity against references transcribed from the GMX v1/v2 contract sources (value numbering to rational normal forms)",
    "claim": "The v1 fee rule (whose clamp gives 0 <= fee <= 25+60 bp), buyUSDG/sellUSDG with decimals adjustment and "
             "round-down steps, GLP mint/redeem, reward accrual, the v2 value-per-share, fee-factor selection, impact cap and "
             "deposit/withdraw amounts, and the four user-operation ledgers (holding guards included) are identical as "
             "canonical expressions to references transcribed from the contracts; the token whitelist is a set keyed by token "
             "identity (constructor and add_token references).",
    "note": "Trusted: the transcriptions in sa/props/C17.py and the data scaling conventions. Not decided: round-trip "
            "non-profit over pool states; the magnitude of the v2 price impact.",
}
