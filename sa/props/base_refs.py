"""References for the small foundational helpers the other rules rely on (their semantics are otherwise TRUSTED by the
typestate / guard / ledger rules): the memo container, the assertion helper, the clamp-to-zero subtraction, the position
manager and the keyed containers."""
from __future__ import annotations

from ..rules.formula import effects_check, formula_check

# the memo container of the Aave views: `empty` is true exactly after reset / construction, false after a set; reset
# discards every stored value
REF_CACHE_RESET = '''
def reset(self):
    self._value = {}
    self.empty = True
'''
REF_CACHE_SET = '''
def set(self, k, v):
    self._value[k] = v
    self.empty = False
'''
REF_CACHE_GET = '''
def get(self, k):
    return self._value[k]
'''
REF_CACHE_VALUE = '''
def value(self):
    return self._value
'''
REF_REQUIRE = '''
def require(condition, error_msg):
    if not condition:
        raise AssertionError(error_msg)
'''
# dust clamp of the scaled balances: anything below 1e-18 (less 1e-27) is zero
REF_SUB_BASE = '''
def sub_base_amount(old_v, value):
    if old_v - value < 1e-18 - 1e-27:
        return 0
    return old_v - value
'''
REF_PM_ADD = '''
def add(self, stock, amount):
    key = str(stock)
    if key not in self.positions:
        self.positions[key] = Decimal(0)
        self.keys.append(stock)
    self.positions[key] = self.positions[key] + amount
    return self.positions[key]
'''
REF_PM_SUB = '''
def subtract(self, stock, amount):
    key = str(stock)
    if key not in self.positions:
        raise DemeterError("unknown")
    if self.positions[key] < amount:
        raise DemeterError("insufficient")
    self.positions[key] = self.positions[key] - amount
    return self.positions[key]
'''
REF_MD_SET = '''
def __setitem__(self, key, value):
    if len(self.data) == 0:
        self._default = key
    self.data[key] = value
    setattr(self, key.name, value)
'''
REF_AD_SET = '''
def __setitem__(self, key, value):
    self.data[key] = value
    setattr(self, key.name, value)
'''


def base_helpers(res, model, which=("cache", "require", "sub_base", "pm", "dicts")):
    n0 = len(res.obligations)
    if "cache" in which:
        effects_check(res, model, "DictCache.reset", REF_CACHE_RESET, "memo reset: values discarded, empty flag raised", [])
        effects_check(res, model, "DictCache.set", REF_CACHE_SET, "memo set: value stored, empty flag cleared", [])
        formula_check(res, model, "DictCache.get", REF_CACHE_GET, "memo get")
        formula_check(res, model, "DictCache.value", REF_CACHE_VALUE, "memo dict")
    if "require" in which:
        formula_check(res, model, "utils.application.require", REF_REQUIRE, "require raises AssertionError iff the condition is false")
    if "sub_base" in which:
        formula_check(res, model, "aave.helper.sub_base_amount", REF_SUB_BASE, "clamp-to-zero subtraction below 1e-18")
    if "pm" in which:
        effects_check(res, model, "PositionManager.add", REF_PM_ADD, "position manager add", ["append"], keep_raise_effects=True)
        effects_check(res, model, "PositionManager.subtract", REF_PM_SUB, "position manager subtract: unknown / insufficient rejected",
                      [], keep_raise_effects=True)
    if "dicts" in which:
        effects_check(res, model, "MarketDict.__setitem__", REF_MD_SET, "market dict: first key becomes the default", ["setattr"])
        effects_check(res, model, "AssetDict.__setitem__", REF_AD_SET, "asset dict set", ["setattr"])
    return len(res.obligations) - n0


# ---- wallet access -------------------------------------------------------------------------------------------------
REF_SET_BALANCE = '''
def set_balance(self, token, amount):
    a = self.__add_asset(token)
    a.balance = amount
    return a
'''
REF_ADD_ASSET = '''
def __add_asset(self, token):
    self._assets[token] = Asset(token, 0)
    return self._assets[token]
'''
REF_GET_TOKEN_BALANCE = '''
def get_token_balance(self, token):
    if token not in self.assets:
        raise DemeterError("unknown token")
    return self._assets[token].balance
'''


def wallet_access(res, model):
    n0 = len(res.obligations)
    effects_check(res, model, "Broker.set_balance", REF_SET_BALANCE, "set balance: a fresh entry holding exactly the amount", ["__add_asset"])
    effects_check(res, model, "Broker.__add_asset", REF_ADD_ASSET, "new wallet entry starts at zero", [])
    formula_check(res, model, "Broker.get_token_balance", REF_GET_TOKEN_BALANCE, "balance of a held token; unknown tokens rejected",
                  aliases={"assets": "self._assets"})
    return len(res.obligations) - n0


# ---- swap sizing helpers of add_liquidity_by_value (orientation-free value algebra) ---------------------------------
# from/to values Vf, Vt, fee rate f, target ratio r = Vf_after / Vt_after:
#   whole balance:  swap = (Vf - r*Vt) / (r - r*f + 1)
#   part balance (target total T <= Vf + Vt): swap = (T - r*Vt - Vt) / (r - r*f + 1); after fee T' = T - swap*f;
#                                             Vt_after = T'/(r+1); Vf_after = T' - Vt_after
REF_SWAP_VALUE = '''
def get_swap_value(swap_from_token_val, swap_to_token_val, fee_rate, final_ratio):
    return (swap_from_token_val - final_ratio * swap_to_token_val) / (1 + final_ratio * (1 - fee_rate))
'''
REF_SWAP_VALUE_PART = '''
def get_swap_value_with_part_balance_used(swap_from_token_val, swap_to_token_val, total_val_after, fee_rate, final_ratio):
    if total_val_after > swap_from_token_val + swap_to_token_val:
        raise DemeterError("too much")
    swap = (total_val_after - (final_ratio + 1) * swap_to_token_val) / (1 + final_ratio * (1 - fee_rate))
    rest = total_val_after - swap * fee_rate
    to_after = rest / (final_ratio + 1)
    return rest - to_after, to_after, swap
'''
# token0/token1 amount ratio of a position at tick t inside (lo, hi), with T = sqrt(1.0001):
#   (T^hi - T^t) / (T^t * T^hi * (T^t - T^lo))
REF_ESTIMATE_RATIO = '''
def estimate_ratio(tick, lower_tick, upper_tick):
    T = math.sqrt(1.0001)
    if not (lower_tick < tick and tick < upper_tick):
        raise DemeterError("out of range")
    return (T**upper_tick - T**tick) / (T**tick * T**upper_tick * (T**tick - T**lower_tick))
'''


def swap_sizing(res, model):
    n0 = len(res.obligations)
    formula_check(res, model, "uniswap.helper.get_swap_value", REF_SWAP_VALUE, "swap size for a target value ratio (whole balance)")
    formula_check(res, model, "uniswap.helper.get_swap_value_with_part_balance_used", REF_SWAP_VALUE_PART,
                  "swap size and resulting values for a target ratio using part of the balance")
    formula_check(res, model, "uniswap.liquitidy_math.estimate_ratio", REF_ESTIMATE_RATIO, "token0/token1 amount ratio inside the range")
    return len(res.obligations) - n0


# ---- identity of tokens, numeric coercion, enums -------------------------------------------------------------------
REF_TOKEN_EQ = '''
def __eq__(self, other):
    if isinstance(other, TokenInfo):
        return self.name == other.name
    return False
'''
REF_TOKEN_HASH = '''
def __hash__(self):
    return self.name.__hash__()
'''
REF_TOKEN_INIT = '''
def __init__(self, name, decimal, address=""):
    self.name = name.upper()
    self.decimal = decimal
    self.address = address.lower()
'''
REF_TO_DECIMAL = '''
def to_decimal(value):
    return Decimal(str(value))
'''
REF_OBJECT_TO_DECIMAL = '''
def object_to_decimal(num):
    if isinstance(num, float) or type(num) == int:
        return Decimal(str(num))
    return num
'''


def token_identity(res, model):
    """Tokens are compared and hashed BY NAME (upper-cased): `quote_token == token0` decides a pool's orientation, wallets
    and price frames are keyed by tokens built independently (with or without an address)."""
    from ..vn import Evaluator
    n0 = len(res.obligations)
    cls = model.cls("TokenInfo")
    for meth, ref, what in (("__eq__", REF_TOKEN_EQ, "token equality is equality of names"),
                            ("__hash__", REF_TOKEN_HASH, "token hash is the hash of the name"),
                            ("__init__", REF_TOKEN_INIT, "token names are upper-cased, addresses lower-cased")):
        f = cls.methods.get(meth)
        if f is None:
            res.ob("R-FORMULA", f"TokenInfo.{meth}: {what}", cls.module.relpath, ok=False)
            res.find("R-FORMULA", f"TokenInfo.{meth}", f"TokenInfo.{meth} is not defined", cls.module.relpath,
                     f"TokenInfo no longer defines {meth}: {what} is what orientation tests (`quote_token == token0`), wallet keys and "
                     f"price columns rely on; the generated / inherited {meth} compares other fields or identities")
            continue
        if meth == "__init__":
            effects_check(res, model, "TokenInfo.__init__", ref, what, [])
        else:
            formula_check(res, model, f"TokenInfo.{meth}", ref, what)
    return len(res.obligations) - n0


def numeric_coercion(res, model):
    """float -> Decimal goes through str() (shortest repr, no binary noise, no fixed number of places): the decorator
    float_param_formatter applies object_to_decimal to every argument of the public operations."""
    n0 = len(res.obligations)
    # BUILTIN_IDENTITY would make to_decimal/object_to_decimal transparent: compare their bodies explicitly
    formula_check(res, model, "utils.application.to_decimal", REF_TO_DECIMAL, "to_decimal(x) = Decimal(str(x))")
    formula_check(res, model, "utils.application.object_to_decimal", REF_OBJECT_TO_DECIMAL,
                  "object_to_decimal: floats and ints through Decimal(str(x)), everything else unchanged")
    param_formatter(res, model)
    return len(res.obligations) - n0


def enum_values_unique(res, model, scope=()):
    """Members of an Enum with equal values are ALIASES: the second name silently denotes the first member (one dict key,
    one registry entry).  Every Enum class in scope has pairwise distinct member values."""
    import ast as _ast
    n = 0
    for m in model.modules.values():
        if scope and not m.relpath.startswith(tuple(scope)):
            continue
        for c in m.classes.values():
            if not any(_ast.unparse(b).split(".")[-1] in ("Enum", "IntEnum", "StrEnum") for b in c.base_exprs):
                continue
            seen = {}
            dups = []
            for st in c.node.body:
                if isinstance(st, _ast.Assign) and len(st.targets) == 1 and isinstance(st.targets[0], _ast.Name):
                    key = _ast.dump(st.value)
                    if key in seen:
                        dups.append((st.targets[0].id, seen[key], st))
                    else:
                        seen[key] = st.targets[0].id
            n += 1
            res.ob("R-CONST", f"enum {c.name}: {len(seen)} members with pairwise distinct values", f"{m.relpath}:{c.node.lineno}", ok=not dups)
            for name, first, st in dups:
                res.find("R-CONST", c.name, f"{c.name}.{name} has the value of {c.name}.{first}", f"{m.relpath}:{st.lineno}",
                         f"{c.name}.{name} = {_ast.unparse(st.value)[:60]} repeats the value of {c.name}.{first}: Python makes it an alias, so "
                         f"results stored under {name} overwrite / are reported as {first}")
    return n


# ---- the write gate ------------------------------------------------------------------------------------------------------
REF_WRITE_GATE = '''
def wrapper_func(*args, **kwargs):
    market = args[0]
    if not market.is_open:
        raise DemeterError("closed")
    result = func(*args, **kwargs)
    market.has_update = True
    return result
'''


def write_gate(res, model, rule="R-PHASE"):
    """write_func's wrapper equals the reference as an ordered ledger: the closed-market rejection comes first; the wrapped
    operation runs with the caller's arguments; `has_update` is raised only AFTER it returned normally (a rejected
    operation neither raises the flag nor clears one raised by an earlier accepted operation of the bar)."""
    import ast as _ast
    from ..model import AnalysisError
    from ..rules.formula import nested_func
    wf = model.func("broker.market.write_func")
    inner = [n for n in _ast.walk(wf.node) if isinstance(n, _ast.FunctionDef) and n is not wf.node]
    if len(inner) != 1:
        raise AnalysisError("write_func: wrapper function not found")
    return effects_check(res, model, nested_func(model, "broker.market.write_func", inner[0].name), REF_WRITE_GATE,
                         "write gate: reject when closed, call, then raise has_update (never before, never cleared here)",
                         [wf.params[0] if wf.params else "func"], ordered=True, keep_raise_effects=True, rule=rule)


def gate_coverage(res, model, cls_name: str, fields, why: str, rule="R-PHASE", floor: int = 1):
    """Every method of `cls_name` that stores into one of `fields` of the market's own records (`x.liquidity = ...`,
    `x.liquidity += ...`, a record constructed with the field and put into the market's state) runs under the write
    gate: it carries `@write_func` itself, or it is private and every method of the class that calls it does
    (transitively).  The gate is what raises `has_update`, and `has_update` is what makes the bar loop refresh the
    market's status after the operation - the only place where values derived from those fields are recomputed."""
    import ast as _ast
    c = model.cls(cls_name)
    meths = {}
    for k in reversed(model.mro(c)):
        meths.update(k.methods)

    def writes(f):
        out = []
        for n in _ast.walk(f.node):
            tg = []
            if isinstance(n, _ast.Assign):
                tg = n.targets
            elif isinstance(n, (_ast.AugAssign, _ast.AnnAssign)):
                tg = [n.target]
            for t in tg:
                if isinstance(t, _ast.Attribute) and t.attr in fields and not (isinstance(t.value, _ast.Name) and t.value.id == "self"):
                    out.append(n)
        return out

    def mangled(nm):
        return nm

    def callers(name):
        out = []
        for g in meths.values():
            for n in _ast.walk(g.node):
                if isinstance(n, _ast.Call) and isinstance(n.func, _ast.Attribute) and isinstance(n.func.value, _ast.Name) \
                        and n.func.value.id == "self" and n.func.attr == name and g.name != name:
                    out.append(g)
                    break
        return out

    def gated(f, seen=()):
        if "write_func" in f.decorators:
            return True
        if not f.name.startswith("_") or f.name in seen:
            return False
        cs = callers(f.name)
        return bool(cs) and all(gated(g, seen + (f.name,)) for g in cs)

    n = 0
    for name, f in sorted(meths.items()):
        if name == "__init__":
            continue
        ws = writes(f)
        if not ws:
            continue
        n += 1
        ok = gated(f)
        res.ob(rule, f"{cls_name}.{name} writes {sorted({w.targets[0].attr if isinstance(w, _ast.Assign) else w.target.attr for w in ws})} under the write gate", f.loc(ws[0]), ok=ok)
        if not ok:
            res.find(rule, f.qualname, f"writes {sorted(fields)[0]} outside the write gate", f.loc(ws[0]),
                     f"{f.qualname} changes `{_ast.unparse(ws[0])[:70]}` but neither it nor all of its callers run under @write_func: "
                     f"`has_update` is not raised, so the bar loop does not refresh the market status after the operation ({why})")
    res.floor(f"gate_coverage_{cls_name}", n, floor)
    return n


# ---- the argument formatter ------------------------------------------------------------------------------------------
REF_PARAM_FORMATTER = '''
def wrapper_func(*args, **kwargs):
    converted = ()
    for a in args:
        converted += (object_to_decimal(a),)
    for name, value in kwargs.items():
        kwargs[name] = object_to_decimal(value)
    return func(*converted, **kwargs)
'''


def param_formatter(res, model, rule="R-SHAPE"):
    """float_param_formatter's wrapper (shape rule; the accumulation of a tuple of piecewise conversions is outside the
    evaluator's language).  On every path the wrapped operation is called exactly once and its result returned; the
    positional block it receives is built only from `object_to_decimal(<each positional argument>)`, the keyword block is
    the wrapper's own keyword dict with every value replaced by `object_to_decimal(value)` (in place or as a new dict
    built by a comprehension over `.items()`); the only case distinction allowed is `if not kwargs` (no keyword block to
    pass); nothing else is called, nothing is rounded, dropped or reordered."""
    import ast as _ast
    from ..model import AnalysisError
    wf = model.func("utils.application.float_param_formatter")
    inner = [n for n in wf.node.body if isinstance(n, _ast.FunctionDef)]
    if len(inner) != 1 or not wf.params:
        raise AnalysisError("float_param_formatter: wrapper function not found")
    w, fn = inner[0], wf.params[0]
    va, kw = (w.args.vararg.arg if w.args.vararg else None), (w.args.kwarg.arg if w.args.kwarg else None)
    problems = []
    calls = [n for st in w.body for n in _ast.walk(st) if isinstance(n, _ast.Call)]      # (the @wraps decorator is not part of the body)
    fcalls = [c for c in calls if isinstance(c.func, _ast.Name) and c.func.id == fn]
    conv = [c for c in calls if isinstance(c.func, _ast.Name) and c.func.id == "object_to_decimal"]
    other = [c for c in calls if c not in fcalls and c not in conv and not (isinstance(c.func, _ast.Attribute) and c.func.attr in ("items", "keys"))
             and not (isinstance(c.func, _ast.Name) and c.func.id in ("tuple", "list", "dict"))]

    def only_if_no_kwargs(node):
        """Is `node` inside the true arm of `if not <kwargs>`?"""
        p, child = getattr(node, "_parent", None), node
        while p is not None and p is not w:
            if isinstance(p, _ast.If) and isinstance(p.test, _ast.UnaryOp) and isinstance(p.test.op, _ast.Not) \
                    and isinstance(p.test.operand, _ast.Name) and p.test.operand.id == kw and child in p.body:
                return True
            child, p = p, getattr(p, "_parent", None)
        return False

    # names that hold the converted keyword block: the wrapper's own dict, or a dict built over its items with converted values
    kw_names = {kw}
    for st in _ast.walk(w):
        if isinstance(st, _ast.Assign) and len(st.targets) == 1 and isinstance(st.targets[0], _ast.Name) and isinstance(st.value, _ast.DictComp):
            dc = st.value
            if len(dc.generators) == 1 and _ast.unparse(dc.generators[0].iter) == f"{kw}.items()" and not dc.generators[0].ifs \
                    and isinstance(dc.value, _ast.Call) and dc.value in conv and isinstance(dc.key, _ast.Name):
                kw_names.add(st.targets[0].id)
    if not fcalls:
        problems.append("the wrapped function is never called")
    for c in fcalls:
        star = [a for a in c.args if isinstance(a, _ast.Starred)]
        has_kw = any(k.arg is None and isinstance(k.value, _ast.Name) and k.value.id in kw_names for k in c.keywords)
        if len(c.args) != 1 or len(star) != 1 or any(k.arg is not None for k in c.keywords) or len(c.keywords) > 1:
            problems.append("the wrapped function is not called as func(*converted, **kwargs)")
        elif not has_kw and not (not c.keywords and only_if_no_kwargs(c)):
            problems.append("the keyword block is not passed on (outside `if not kwargs`)")
        par = getattr(c, "_parent", None)
        if not isinstance(par, _ast.Return):
            problems.append("the result of the wrapped function is not returned as it is")
        p = par
        while p is not None and p is not w:
            if isinstance(p, (_ast.For, _ast.While, _ast.Try, _ast.With)):
                problems.append("the call of the wrapped function is inside a loop or handler")
                break
            p = getattr(p, "_parent", None)
    # exactly one call per path: the last statement of the wrapper returns a call, every other call sits in an `if not kwargs` arm
    last = w.body[-1] if w.body else None
    if not (isinstance(last, _ast.Return) and last.value in fcalls):
        problems.append("the normal path does not end in `return func(...)`")
    for c in fcalls:
        if c is not getattr(last, "value", None) and not only_if_no_kwargs(c):
            problems.append("a second call of the wrapped function outside `if not kwargs`")
    if len(conv) < 2:
        problems.append("not both argument blocks are converted by object_to_decimal")
    for c in conv:
        if not (len(c.args) == 1 and isinstance(c.args[0], _ast.Name) and not c.keywords):
            problems.append(f"object_to_decimal is applied to `{_ast.unparse(c.args[0]) if c.args else ''}`, not to the plain argument")
        par = getattr(c, "_parent", None)
        if not isinstance(par, (_ast.Tuple, _ast.Assign, _ast.AugAssign, _ast.List, _ast.GeneratorExp, _ast.ListComp, _ast.DictComp, _ast.Starred)):
            problems.append(f"the converted value is transformed again: `{_ast.unparse(par)[:50]}`")
    if other:
        problems.append(f"other calls in the wrapper: {[_ast.unparse(c)[:30] for c in other][:3]}")
    its = {_ast.unparse(l.iter) for l in _ast.walk(w) if isinstance(l, (_ast.For, _ast.comprehension))}
    if not ({va} & its) or not ({f"{kw}.items()", kw, f"{kw}.keys()"} & its):
        problems.append("the conversion does not loop over all positional and all keyword arguments")
    for n in _ast.walk(w):
        if isinstance(n, (_ast.IfExp, _ast.Break, _ast.Continue)) or (isinstance(n, _ast.comprehension) and n.ifs):
            problems.append("the wrapper distinguishes cases (some arguments could be skipped)")
        if isinstance(n, _ast.If) and not (isinstance(n.test, _ast.UnaryOp) and isinstance(n.test.op, _ast.Not)
                                           and isinstance(n.test.operand, _ast.Name) and n.test.operand.id == kw and not n.orelse):
            problems.append(f"the wrapper distinguishes cases on `{_ast.unparse(n.test)[:40]}`")
    problems = sorted(set(problems))
    ok = not problems
    res.ob(rule, "float_param_formatter: one call of the wrapped operation per path with every argument coerced by object_to_decimal",
           wf.loc(), ok=ok, detail="; ".join(problems)[:300])
    if not ok:
        res.find(rule, "utils.application.float_param_formatter", "argument formatter is not the plain coercion of every argument", wf.loc(),
                 "float_param_formatter wraps the user operations of every market; its wrapper no longer calls the operation exactly once "
                 "with each positional and keyword argument passed through object_to_decimal unchanged: " + "; ".join(problems))
    return 1


def _param_formatter_by_identity(res, model, rule="R-FORMULA"):
    """float_param_formatter's wrapper: the wrapped operation is called once with EVERY positional and keyword argument
    passed through object_to_decimal (nothing dropped, reordered, rounded or otherwise changed) and its result returned."""
    import ast as _ast
    from ..model import AnalysisError
    from ..rules.formula import nested_func
    wf = model.func("utils.application.float_param_formatter")
    inner = [n for n in _ast.walk(wf.node) if isinstance(n, _ast.FunctionDef) and n is not wf.node]
    if len(inner) != 1:
        raise AnalysisError("float_param_formatter: wrapper function not found")
    return effects_check(res, model, nested_func(model, "utils.application.float_param_formatter", inner[0].name), REF_PARAM_FORMATTER,
                         "argument formatter: one call of the wrapped operation with every argument coerced by object_to_decimal",
                         [wf.params[0] if wf.params else "func"], opaque=["object_to_decimal"], ordered=True, rule=rule)
