"""C10 -- Aave balances accrue exactly with the indices; operations move the stated amounts."""
from __future__ import annotations

from ..report import Result
from ..rules.formula import effects_check, formula_check
from . import aave_refs as R

EXPLANATION = (
    "Formula and ledger identity against a reference model of the Aave market written from the statement: the scaled "
    "balance codec (amount = base*index, base = amount/index), the views (value = base * liquidity_index resp. "
    "variable_borrow_index of the SAME token * price of the SAME token; supply/borrow detail objects), the residue clamp, "
    "and the ledgers of supply, withdraw, borrow, repay (cash and collateral variants) and the two internal deduction "
    "helpers: on every path the wallet primitive is called with the stated amount of the stated token, the position's "
    "scaled amount changes by amount/index with the current index of that token, caches are reset, a position that "
    "reaches zero is deleted, and the recorded action carries the same quantities. With the codec identity, balance = "
    "amount * index_now / index_then is an algebraic consequence for a single supply."
)

FX = ["subtract_from_balance", "add_to_balance", "_record_action", "reset", "set", "__sub_supply_amount", "__sub_borrow_amount"]
OPQ = ["sub_base_amount", "get_supply", "get_borrow", "health_factor", "max_ltv", "supplies", "borrows", "collateral_value",
       "supplies_value", "borrows_value", "get_max_borrow_amount", "_get_swap_amount", "rate_to_apy", "get_min_withdraw_kept_amount",
       "get_max_borrow_value"]


def ledgers(res, model, names):
    M = "AaveV3Market."
    table = {
        "supply": (R.REF_SUPPLY, "supply debits `amount` of the token and adds amount/liquidity_index(token) to its scaled supply"),
        "withdraw": (R.REF_WITHDRAW, "withdraw: bounded by the supply; trial HF check on the reduced collateral with rollback; "
                                     "then deducts amount/index and credits `amount`"),
        "borrow": (R.REF_BORROW, "borrow: preconditions (flag, collateral, LTV incl. the new debt, HF > 1); adds "
                                 "amount/variable_borrow_index(token) and credits `amount`"),
        "repay": (R.REF_REPAY, "repay: bounded by the debt; with collateral the payback is capped by the collateral balance "
                               "(same units), cash variant debits the wallet; deducts from the debt"),
        "__sub_supply_amount": (R.REF_SUB_SUPPLY, "supply deduction by amount/liquidity_index(token), resets, delete at zero"),
        "__sub_borrow_amount": (R.REF_SUB_BORROW, "debt deduction by amount/variable_borrow_index(token), resets, delete at zero"),
        "change_collateral": (R.REF_CHANGE_COLLATERAL, "collateral flag change with HF check and rollback"),
    }
    for n in names:
        src, what = table[n]
        effects_check(res, model, M + n, src, what, FX, opaque=OPQ, keep_raise_effects=True)


def views(res, model):
    M = "AaveV3Market."
    effects_check(res, model, M + "supplies_value", R.REF_SUPPLIES_VALUE,
                  "supply value = base * liquidity_index[token] * price[token]", ["set"], opaque=[])
    effects_check(res, model, M + "borrows_value", R.REF_BORROWS_VALUE,
                  "debt value = base * variable_borrow_index[token] * price[token]", ["set"], opaque=[])
    effects_check(res, model, M + "collateral_value", R.REF_COLLATERAL_VALUE,
                  "collateral view = supplies flagged as collateral", ["set"], opaque=["supplies_value"])
    formula_check(res, model, M + "get_supply", R.REF_GET_SUPPLY, "supply detail uses the token's own index and rate",
                  opaque=["rate_to_apy", "supplies_value"])
    formula_check(res, model, M + "get_borrow", R.REF_GET_BORROW, "debt detail uses the token's own borrow index and rate",
                  opaque=["rate_to_apy", "borrows_value"])


def run(model, tier="quick"):
    res = Result("C10", EXPLANATION)
    res.rules = ["R-FORMULA", "R-PAIR", "R-TOKEN"]
    formula_check(res, model, "AaveV3CoreLib.get_amount", R.REF_GET_AMOUNT, "amount = base * index")
    formula_check(res, model, "AaveV3CoreLib.get_base_amount", R.REF_GET_BASE, "base = amount / index")
    formula_check(res, model, "aave.helper.sub_base_amount", R.REF_SUB_BASE, "residue below 1e-18 is clamped to zero")
    formula_check(res, model, "AaveV3Market._get_swap_amount", R.REF_SWAP_AMOUNT, "collateral swap at the bar's prices")
    views(res, model)
    ledgers(res, model, ["supply", "withdraw", "borrow", "repay", "__sub_supply_amount", "__sub_borrow_amount"])
    res.floor("obligations", len(res.obligations), 15)
    # every Aave figure is read through the memo caches: their typestate (no stale read, no stale exit) is a premise here
    from ..rules.cache import run_cache
    if "R-CACHE" not in res.rules:
        res.rules.append("R-CACHE")
    res.units["aave_cache_writer_methods"] = run_cache(model, res, "AaveV3Market", res.prop)[0]
    # constructors establish the relations between fields that the references above take for granted
    from .ctor_refs import constructors
    res.units["constructor_references"] = constructors(res, model, ('aave', 'market'))
    # premise: the wallet primitives the Aave operations call move exactly the stated amount (dust rule: RELATIVE 1e-5)
    from . import C03 as _C03
    _wfx = ["sub", "add", "subtract_from_balance", "add_to_balance", "__add_asset", "_record_action_callback"]
    effects_check(res, model, "Asset.sub", _C03.REF_ASSET_SUB, "wallet debit: overdraft rejected, dust (<1e-5 relative) snaps to zero", _wfx)
    effects_check(res, model, "Asset.add", _C03.REF_ASSET_ADD, "wallet credit adds the amount", _wfx)
    effects_check(res, model, "Broker.subtract_from_balance", _C03.REF_BROKER_SUB, "broker debit: unknown token rejected unless negative balances are allowed", _wfx)
    effects_check(res, model, "Broker.add_to_balance", _C03.REF_BROKER_ADD, "broker credit: creates the entry when missing", _wfx)
    from .base_refs import write_gate
    write_gate(res, model, rule="R-PAIR")     # a closed market REJECTS an operation (never returns normally with nothing moved)
    from ..rules.fresh import fresh_rule
    if "R-FRESH" not in res.rules:
        res.rules.append("R-FRESH")
    fresh_rule(model, res, scope=('demeter/aave/',))
    res.assumptions = ["indices in the data are positive (data)", "Decimal division error is not analysed"]
    res.not_decided = ["split/merge equality to 1e-18 over arbitrary interleavings (Decimal rounding of repeated divisions)"]
    return res


MANIFEST = {
    "technique": "formula and ledger identity against a reference model (value numbering to rational normal forms)",
    "claim": "Scaled-balance codec, views (index and price keyed by the same token) and the ledgers of supply, withdraw, "
             "borrow, repay and the deduction helpers are identical, path by path, to a reference model written from the "
             "statement: stated amounts move between wallet and position, scaled amounts change by amount/index of the "
             "right token, zero positions disappear. Identity of expressions, hence for every index path and amount.",
    "note": "Trusted: reference model sa/props/aave_refs.py; opaque helpers compared separately. Not decided: Decimal "
            "rounding across split/merged operations (1e-18 clause).",
}
