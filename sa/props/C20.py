"""C20 -- performance metrics equal their definitions."""
from __future__ import annotations

import ast

from ..model import AnalysisError
from ..norm import Rat
from ..report import Result
from ..rules.formula import formula_check
from ..vn import Evaluator, Unreadable, sym

EXPLANATION = (
    "Formula identity (R-FORMULA): each metric function is brought to a canonical piecewise rational form over "
    "pandas/numpy atoms by a syntactic value-numbering evaluator and compared with a reference written from the "
    "metric's definition (different program shape, same mathematics): return value / rate, the six arms of the "
    "annualised return (all three input forms reduce to growth**(365/days)-1 resp. total/(days/365)), return "
    "multiples and rates, volatility, Sharpe ratio, alpha/beta, and the whole metric registry "
    "(performance_metrics: which value feeds which metric, interval/duration in days). R-ARGMAX decides that the "
    "drawdown criterion that selects (peak, trough) and the reported quantity are the same function up to a constant "
    "factor, R-SIGN that the reported drawdown cannot be negative, R-ARGROLE that positional arguments are passed in "
    "their roles. Not decided: floating-point equality with a direct recomputation on concrete series; pandas/numpy "
    "semantics of shift/pct_change/std/cov/prod are trusted."
)

REF_ANNUALIZED = '''
def annualized_return(duration_in_day, init_value=None, final_value=None, return_rates=None, net_values=None, interest_type="compound"):
    years = duration_in_day / 365
    if interest_type == "single":
        if init_value is not None and final_value is not None:
            total = final_value / init_value - 1
        elif net_values is not None:
            total = net_values.iloc[-1] / net_values.iloc[0] - 1
        elif return_rates is not None:
            raise DemeterError("undefined")
        else:
            raise DemeterError("undefined")
        return total / years
    elif interest_type == "compound":
        if init_value is not None and final_value is not None:
            growth = final_value / init_value
        elif net_values is not None:
            growth = ((net_values / net_values.shift(1)).fillna(1).replace([np.inf, -np.inf], 1)).prod()
        elif return_rates is not None:
            growth = (1 + return_rates).prod()
        else:
            raise DemeterError("undefined")
        return growth ** (1 / years) - 1
'''

REFS = [
    ("result.metrics.calculator.return_value", "def f(init_equity, final_equity):\n    return final_equity - init_equity\n",
     "total return = final - initial"),
    ("result.metrics.calculator.return_rate",
     "def f(init_equity, final_equity):\n    if init_equity > 0:\n        return (final_equity - init_equity) / init_equity\n    return np.inf\n",
     "return rate = (final - initial) / initial, inf for non-positive initial"),
    ("result.metrics.calculator.return_multiple",
     "def f(net_value):\n    prev = net_value.shift(1)\n    return (net_value / prev).fillna(1).replace([np.inf, -np.inf], 1)\n",
     "multiple(t) = value(t)/value(t-1), first := 1"),
    ("result.metrics.calculator.return_rate_series",
     "def f(net_value):\n    return net_value.pct_change().fillna(0).replace([np.inf, -np.inf], 0)\n",
     "rate(t) = pct change, first := 0"),
    ("result.metrics.calculator.volatility",
     "def f(returns, interval_in_day):\n    periods_per_year = 365 / interval_in_day\n    return np.sqrt(periods_per_year) * returns.std()\n",
     "volatility = std(returns) * sqrt(365 / interval)"),
    ("result.metrics.calculator.sharpe_ratio",
     '''
def f(interval_in_day, duration_in_day, values, annualized_risk_free_rate):
    multiples = (values / values.shift(1)).dropna()
    growth = (1 + (multiples - 1)).prod()
    mean_yearly = growth ** (365 / duration_in_day) - 1
    std_yearly = multiples.std() * np.sqrt(365 / interval_in_day)
    return (mean_yearly - annualized_risk_free_rate) / std_yearly
''', "Sharpe = (annualised return - risk free) / annualised volatility"),
    ("result.metrics.calculator.alpha_beta",
     '''
def f(values, benchmark, duration_in_day):
    rp = (values / values.shift(1)).dropna()
    rb = (benchmark / benchmark.shift(1)).dropna()
    c = np.cov(rp, rb)
    beta = c[0, 1] / c[1, 1]
    apy_p = (1 + (rp - 1)).prod() ** (365 / duration_in_day) - 1
    apy_b = (1 + (rb - 1)).prod() ** (365 / duration_in_day) - 1
    return apy_p - beta * apy_b, beta
''', "beta = cov(p,b)/var(b) on positional return series, alpha = apy_p - beta*apy_b"),
]

REF_METRICS = '''
def performance_metrics(values, annualized_risk_free_rate=0.03, benchmark=None):
    values = values.apply(lambda x: float(x))
    first = values.iloc[0]
    last = values.iloc[-1]
    t0 = values.index[0]
    step = values.index[1] - t0
    step_days = step.value / 1e9 / 86400
    t_end = values.index[len(values) - 1]
    days = (t_end - t0 + step).value / 1e9 / 86400
    if benchmark is not None:
        benchmark = benchmark.apply(lambda x: float(x))
        ab = alpha_beta(values, benchmark, days)
        a = ab[0]
        b = ab[1]
        b0 = benchmark.iloc[0]
        b1 = benchmark.iloc[-1]
        b_ret = return_rate(b0, b1)
        b_apr = annualized_return(days, init_value=b0, final_value=b1)
    else:
        a = np.nan
        b = np.nan
        b_ret = np.nan
        b_apr = np.nan
    return {
        MetricEnum.start_period: values.index[0],
        MetricEnum.end_period: values.index[-1],
        MetricEnum.start_val: first,
        MetricEnum.end_val: last,
        MetricEnum.duration: (values.index[-1] - values.index[0]) + step,
        MetricEnum.return_value: return_value(first, last),
        MetricEnum.return_rate: return_rate(first, last),
        MetricEnum.annualized_return: annualized_return(days, init_value=first, final_value=last),
        MetricEnum.max_draw_down: max_draw_down(values),
        MetricEnum.sharpe_ratio: sharpe_ratio(interval_in_day=step_days, duration_in_day=days, values=values,
                                              annualized_risk_free_rate=annualized_risk_free_rate),
        MetricEnum.volatility: volatility(values.pct_change().dropna(), step_days),
        MetricEnum.alpha: a,
        MetricEnum.beta: b,
        MetricEnum.benchmark_rate: b_ret,
        MetricEnum.annualized_benchmark_rate: b_apr,
    }
'''


def _expr(model, f, node, env_names):
    ev = Evaluator(model)
    from ..vn import Ctx
    env = {n: sym(n) for n in env_names}
    alts = ev.ev(node, env, Ctx(f, 0))
    if len(alts) != 1 or alts[0][0]:
        raise Unreadable("piecewise")
    return alts[0][1]


def argmax_rule(model, res):
    """The expression maximised when (peak, trough) are chosen and the reported expression must be the same
    function of (H, L) up to a constant factor."""
    f = model.func("result.metrics.calculator._withdraw_with_high_low")
    g = model.func("result.metrics.calculator.max_draw_down")
    # criterion: variable compared with the running best inside the loop: `if X > best: best = X; hi = ...; lo = ...`
    crit = None
    best_init = None
    for n in ast.walk(f.node):
        if isinstance(n, ast.If) and isinstance(n.test, ast.Compare) and len(n.test.ops) == 1 \
                and isinstance(n.test.ops[0], (ast.Gt, ast.GtE)) and isinstance(n.test.left, ast.Name) \
                and isinstance(n.test.comparators[0], ast.Name):
            cand, best = n.test.left.id, n.test.comparators[0].id
            if any(isinstance(s, ast.Assign) and isinstance(s.targets[0], ast.Name) and s.targets[0].id == best
                   and isinstance(s.value, ast.Name) and s.value.id == cand for s in n.body):
                crit = (cand, best, n)
    if crit is None:
        raise AnalysisError("C20: arg-max shape not found in _withdraw_with_high_low (R-ARGMAX cannot be decided)")
    cand, best, ifnode = crit
    arr = f.params[0]
    cdef = None
    for n in ast.walk(f.node):
        if isinstance(n, ast.Assign) and isinstance(n.targets[0], ast.Name) and n.targets[0].id == cand \
                and not (isinstance(n.value, ast.Constant)):
            cdef = n.value
        for t in (n.targets if isinstance(n, ast.Assign) else []):
            elts = t.elts if isinstance(t, ast.Tuple) else [t]
            vals = n.value.elts if isinstance(n.value, ast.Tuple) and isinstance(t, ast.Tuple) else [n.value]
            for e, v in zip(elts, vals):
                if isinstance(e, ast.Name) and e.id == best and n not in ast.walk(ifnode):
                    best_init = v
    if cdef is None:
        raise AnalysisError("C20: criterion definition not found (R-ARGMAX)")
    src = ast.unparse(cdef)
    # the two index variables recorded together with the best value: `g_hi = hi; g_lo = lo`
    recorded = [(s_.targets[0].id, s_.value.id) for s_ in ifnode.body if isinstance(s_, ast.Assign)
                and isinstance(s_.targets[0], ast.Name) and isinstance(s_.value, ast.Name) and s_.targets[0].id != best]
    frets = [n for n in ast.walk(f.node) if isinstance(n, ast.Return) and isinstance(n.value, ast.Tuple)]
    if len(recorded) != 2 or len(frets) != 1:
        raise AnalysisError("C20: recorded peak/trough indices not recognised in the drawdown helper (R-ARGMAX)")
    ret_names = [e.id if isinstance(e, ast.Name) else None for e in frets[0].value.elts]
    local_names = sorted({n.id for n in ast.walk(f.node) if isinstance(n, ast.Name)})
    gexpr = _expr(model, f, cdef, local_names)
    idx_syms = []
    for gname, iname in recorded:
        idx_syms.append((gname, _expr(model, f, ast.parse(f"{arr}[{iname}]", mode="eval").body, local_names)))
    # reported expression in max_draw_down
    rets = [n for n in ast.walk(g.node) if isinstance(n, ast.Return)]
    if len(rets) != 1:
        raise AnalysisError("C20: max_draw_down has no single return (R-ARGMAX)")
    unpack = None
    for n in ast.walk(g.node):
        if isinstance(n, ast.Assign) and isinstance(n.targets[0], ast.Tuple) and isinstance(n.value, ast.Call) \
                and ast.unparse(n.value.func) == f.name:
            unpack = [e.id if isinstance(e, ast.Name) else None for e in n.targets[0].elts]
    if unpack is None or len(unpack) != len(ret_names):
        raise AnalysisError("C20: call of the drawdown helper not recognised in max_draw_down (R-ARGMAX)")
    gl_names = sorted({n.id for n in ast.walk(g.node) if isinstance(n, ast.Name)})
    fexpr = _expr(model, g, rets[0].value, gl_names)
    series = g.params[0]
    rep_syms = []
    for gname, _ in recorded:
        k = ret_names.index(gname)
        rep_syms.append(_expr(model, g, ast.parse(f"{series}.iloc[{unpack[k]}]", mode="eval").body, gl_names))
    H, L = idx_syms[0][1], idx_syms[1][1]
    Hr, Lr = rep_syms[0], rep_syms[1]
    hsym, lsym = sym("H"), sym("L")

    def subst(e: Rat, a: Rat, b: Rat):
        # rewrite through atoms: rebuild polynomial with a->H, b->L
        from ..norm import Poly
        aa, ba = a.single_atom(), b.single_atom()

        def sp(p: Poly):
            out = Rat.const(0)
            for m, c in p.t.items():
                term = Rat.const(c)
                for at, e2 in m:
                    base = hsym if at == aa else lsym if at == ba else Rat.atom(at)
                    term = term * (base ** e2)
                out = out + term
            return out
        return sp(e.n) / sp(e.d)

    if not isinstance(gexpr, Rat) or not isinstance(fexpr, Rat):
        raise AnalysisError("C20: drawdown expressions unreadable")
    gg = subst(gexpr, H, L)
    ff = subst(fexpr, Hr, Lr)
    ratio = ff / gg
    ok = ratio.is_const()
    res.ob("R-ARGMAX", f"criterion `{cand} = {src}` vs reported `{ast.unparse(rets[0].value)}`", f.loc(cdef), ok=ok,
           detail=f"criterion g(H,L) = {gg!r}; reported f(H,L) = {ff!r}; f/g = {ratio!r}")
    if not ok:
        res.find("R-ARGMAX", "result.metrics.calculator.max_draw_down",
                 "drawdown: selection criterion and reported quantity differ", g.loc(rets[0]),
                 f"(peak, trough) are chosen to maximise g(H,L) = {gg!r} but f(H,L) = {ff!r} is reported; f/g = "
                 f"{ratio!r} is not constant, so the reported value need not be the maximum of f",
                 {"criterion": repr(gg), "reported": repr(ff)})
    # sign: the running best must start at 0 (an empty/rising series has drawdown 0), not below
    neg = False
    if best_init is not None:
        txt = ast.unparse(best_init)
        neg = txt.startswith("-") or "inf" in txt
    res.ob("R-SIGN", f"running maximum of the drawdown starts at `{ast.unparse(best_init) if best_init is not None else '?'}`",
           f.loc(), ok=not neg, detail="must start at 0 so that a never-falling series reports 0")
    if neg:
        res.find("R-SIGN", "result.metrics.calculator._withdraw_with_high_low",
                 "drawdown running maximum initialised below zero", f.loc(),
                 f"the running maximum `{best}` starts at `{ast.unparse(best_init)}`; on a never-falling series every "
                 f"candidate is negative and the reported drawdown is negative instead of 0",
                 {"init": ast.unparse(best_init)})


ROLES = ["init", "final", "interval", "duration", "values", "returns", "benchmark", "risk", "rate"]


def argrole_rule(model, res):
    f = model.func("result.metrics.core.performance_metrics")
    n_sites = 0
    from ..model import FuncInfo
    # the registry function and the private helpers of its module that it calls (a block moved into a helper stays covered)
    nodes = list(ast.walk(f.node))
    for n0 in list(nodes):
        if isinstance(n0, ast.Call) and isinstance(n0.func, ast.Name) and n0.func.id.startswith("_"):
            h = model.resolve_name(f.module, n0.func.id)
            if isinstance(h, FuncInfo) and h.module is f.module:
                nodes.extend(ast.walk(h.node))
    for n in nodes:
        if not (isinstance(n, ast.Call) and isinstance(n.func, ast.Name)):
            continue
        callee = model.resolve_name(f.module, n.func.id)
        if not isinstance(callee, FuncInfo) or callee.module.name != "demeter.result.metrics.calculator":
            continue
        n_sites += 1
        bad = []
        for p, a in zip(callee.params, n.args):
            if not isinstance(a, ast.Name):
                continue
            pr = {r for r in ROLES if r in p}
            ar = {r for r in ROLES if r in a.id}
            # special: 'init'/'final' vs '..._init'/'..._final'; conflict when the argument carries a role the
            # parameter does not and the parameter carries one the argument does not
            if pr and ar and not (pr & ar):
                bad.append((p, a.id))
        res.ob("R-ARGROLE", f"{ast.unparse(n)[:90]}", f.loc(n), ok=not bad,
               detail="" if not bad else f"argument/parameter role mismatch: {bad}")
        for p, a in bad:
            res.find("R-ARGROLE", "result.metrics.core.performance_metrics", f"{n.func.id}: argument {a} passed as {p}",
                     f.loc(n), f"`{ast.unparse(n)}` passes `{a}` for parameter `{p}` of {callee.qualname}")
    return n_sites


# Maximum drawdown from its definition: scan once; the running peak is the largest value before bar i; the candidate is
# the RELATIVE decline from that peak to bar i; the best candidate and its (peak, trough) indices are kept, starting from
# "no decline" (0 at index 0) so that a never-falling series reports 0; the reported number is recomputed from the series
# at exactly those indices of the FULL series.
REF_DRAWDOWN_SCAN = '''
def _withdraw_with_high_low(arr):
    best = 0
    best_peak = 0
    best_trough = 0
    peak = 0
    for i in range(1, len(arr)):
        if arr[i - 1] > arr[peak]:
            peak = i - 1
        decline = (arr[peak] - arr[i]) / arr[peak]
        if decline > best:
            best_trough = i
            best_peak = peak
            best = decline
    return best, best_peak, best_trough
'''

REF_MAX_DRAWDOWN = '''
def max_draw_down(net_value):
    r = _withdraw_with_high_low(net_value.to_list())
    hi = net_value.iloc[r[1]]
    lo = net_value.iloc[r[2]]
    return (hi - lo) / hi
'''


def drawdown_rule(model, res):
    """R-ARGMAX by identity with the reference scan (canonical loop transfer relation: names and the order of the
    independent updates do not matter): the criterion that selects (peak, trough) is the relative decline that is
    reported, the running peak is taken over the bars BEFORE i of the whole series, the start value is 'no decline', and
    max_draw_down reads the full series at the returned indices."""
    formula_check(res, model, "result.metrics.calculator._withdraw_with_high_low", REF_DRAWDOWN_SCAN,
                  "drawdown scan: running peak over bars < i, candidate = relative decline, best kept with its indices, start = no decline",
                  rule="R-ARGMAX")
    formula_check(res, model, "result.metrics.calculator.max_draw_down", REF_MAX_DRAWDOWN,
                  "reported drawdown = (peak - trough)/peak of the full series at the scan's indices", opaque=["_withdraw_with_high_low"],
                  rule="R-ARGMAX")


def run(model, tier="quick"):
    res = Result("C20", EXPLANATION)
    res.rules = ["R-FORMULA", "R-SIB", "R-ARGMAX", "R-SIGN", "R-ARGROLE"]
    formula_check(res, model, "result.metrics.calculator.annualized_return", REF_ANNUALIZED,
                  "annualised return: end points, net-value series and return series agree (6 arms)")
    for q, src, what in REFS:
        formula_check(res, model, q, src, what)
    opaque = ["alpha_beta", "return_rate", "annualized_return", "return_value", "max_draw_down", "sharpe_ratio",
              "volatility"]
    formula_check(res, model, "result.metrics.core.performance_metrics", REF_METRICS,
                  "metric registry: each metric is computed from the series in its role; interval and duration in days",
                  opaque=opaque)
    drawdown_rule(model, res)
    from .base_refs import enum_values_unique
    res.floor("metric_enums", enum_values_unique(res, model, scope=("demeter/result/",)), 1)   # registry keys must not alias
    n = argrole_rule(model, res)
    res.floor("registry_call_sites", n, 8)
    res.floor("formula_targets", sum(1 for o in res.obligations if o.rule == "R-FORMULA"), 9)
    from ..rules.fresh import fresh_rule
    if "R-FRESH" not in res.rules:
        res.rules.append("R-FRESH")
    fresh_rule(model, res, scope=('demeter/result/',))
    res.assumptions = ["pandas/numpy semantics of shift, pct_change, fillna, replace, dropna, std, prod, cov are trusted",
                       "Timedelta.value is nanoseconds (value/1e9/86400 = days)"]
    res.not_decided = ["numerical agreement with a direct recomputation on concrete series (floating point)",
                       "alpha/beta when the benchmark index differs from the value index (pandas alignment is data dependent)"]
    return res

MANIFEST = {
    "technique": "formula identity by syntactic value numbering to exact rational normal forms (incl. the drawdown scan as a canonical loop), plus argument-role rule",
    "claim": "Each metric function (return value/rate, six arms of the annualised return, return multiples/rates, "
             "volatility, Sharpe, alpha/beta) and the metric registry are shown identical, as canonical piecewise rational "
             "expressions over pandas/numpy atoms, to references written from the definitions; the drawdown scan equals the "
             "reference scan as a canonical loop (running peak over the bars before i of the whole series, candidate = the "
             "relative decline that is reported, start = no decline) and max_draw_down reads the full series at the scan's "
             "indices. Holds for every input because it is an identity of expressions.",
    "note": "Trusted: pandas/numpy semantics of the atoms (shift, pct_change, std, cov, prod, Timedelta.value); the "
            "reference transcriptions in sa/props/C20.py. Not decided: floating-point agreement with a recomputation.",
}
