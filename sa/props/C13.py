"""C13 -- Aave derived views always equal a from-scratch recomputation."""
from __future__ import annotations

from ..report import Result
from ..rules.cache import run_cache, who_writes
from ..rules.formula import effects_check, formula_check
from . import aave_refs as R

EXPLANATION = (
    "Typestate analysis of the memo caches of AaveV3Market (R-CACHE). The DictCache fields, their fill getters and "
    "their dependencies (which position fields / status objects the fill expressions read, transitively through other "
    "cached getters) are derived from the source. Every method of AaveV3Market is then walked with callees inlined, "
    "tracking per cache E(mpty)/F(illed, consistent)/S(tale because of listed writes): a write to a dependency makes "
    "a filled cache stale, reset() empties it, a fill under `if cache.empty` fills it. A read of a cached value in S "
    "or leaving the method in S (by return, or by a rejection for user operations) is a violation. Because the "
    "invariant 'no cache is stale' is established at every method boundary, it covers every interleaving of reads "
    "and writes. With valid caches every view is the recomputation by construction (the fill expression IS the "
    "from-scratch formula)."
)


def run(model, tier="quick"):
    res = Result("C13", EXPLANATION)
    res.rules = ["R-CACHE", "R-EFFECT", "R-FORMULA", "R-PAIR", "R-CONST"]
    n_writers, caches = run_cache(model, res, "AaveV3Market", "C13")
    res.floor("caches_found", len(caches), 5)
    res.floor("dependency_writer_methods", n_writers, 6)
    res.floor("reset_events", res.units["reset_events"], 20)
    who_writes(model, res, "AaveV3Market", ["_supplies", "_borrows"] + caches, ["demeter/aave/market.py"])
    from ..rules.cache import cache_escape_rule
    ng, nsites = cache_escape_rule(model, res, "AaveV3Market", caches)
    res.floor("memo_getters_handing_out_their_container", ng, 3)
    res.floor("memo_hand_over_sites", nsites, 3)
    # the formulas of the views that are not risk figures (those are compared under C11 / C10)
    views = ["total_supply_value", "total_borrows_value", "supply_apy", "borrow_apy", "supplies_value", "borrows_value", "safe_div_zero",
             "rate_to_apy"]
    formula_check(res, model, "AaveV3Market.ltv", R.REF_LTV, "ltv = total debt value / total supply value (inf without supplies)", opaque=views)
    formula_check(res, model, "AaveV3CoreLib.get_apy", R.REF_GET_APY, "apy = value-weighted mean of the per-token APYs", opaque=views)
    formula_check(res, model, "AaveV3CoreLib.safe_div_zero", R.REF_SAFE_DIV, "a/b, 0 when b is 0")
    from ..interp import const_value
    from ..model import AnalysisError
    _cls = model.cls("AaveV3CoreLib")
    _y = model.class_const(_cls, "SECONDS_IN_A_YEAR")
    if _y is None:
        raise AnalysisError("C13: AaveV3CoreLib.SECONDS_IN_A_YEAR anchor not found")
    _ok = const_value(_y[1]) == 365 * 24 * 3600
    res.ob("R-CONST", "SECONDS_IN_A_YEAR == 365 days (code and reference both read it by name)", _cls.module.relpath + f":{_y[1].lineno}", ok=_ok)
    if not _ok:
        res.find("R-CONST", "AaveV3CoreLib", "SECONDS_IN_A_YEAR != 31536000", _cls.module.relpath + f":{_y[1].lineno}",
                 "the compounding period of rate_to_apy is not the Aave v3 year of 365 days")
    formula_check(res, model, "AaveV3CoreLib.rate_to_apy", R.REF_RATE_TO_APY,
                  "apy = per-second rate compounded over a year: (1 + r/Y)**Y - 1 (test_apy_to_rate samples one value)")
    formula_check(res, model, "AaveV3CoreLib.safe_rounding", R.REF_SAFE_ROUNDING,
                  "reported risk figures: the value quantized to the step in the context's (half-even) rounding, inf / nan passed through")
    formula_check(res, model, "AaveV3Market.total_apy", R.REF_TOTAL_APY, "net apy = (supply apy*supplies - borrow apy*debts)/(supplies - debts)",
                  opaque=views)
    vop = ["get_supply", "get_borrow", "supplies_value", "borrows_value", "get_apy", "supplies"]
    effects_check(res, model, "AaveV3Market.supplies", R.REF_SUPPLIES_VIEW, "supplies view: every supply, filled once per cache epoch", ["set"], opaque=vop)
    effects_check(res, model, "AaveV3Market.borrows", R.REF_BORROWS_VIEW, "borrows view: every debt, filled once per cache epoch", ["set"], opaque=vop)
    effects_check(res, model, "AaveV3Market.supply_apy", R.REF_SUPPLY_APY, "supply apy: each supply's own liquidity rate, value-weighted", [], opaque=vop)
    effects_check(res, model, "AaveV3Market.borrow_apy", R.REF_BORROW_APY, "borrow apy: each debt's own variable borrow rate, value-weighted", [], opaque=vop)
    effects_check(res, model, "AaveV3Market.set_market_status", R.REF_AAVE_SET_STATUS,
                  "new bar: this bar's row, prices stored, all five caches emptied", ["set_market_status", "reset"])
    from .base_refs import base_helpers
    res.units["memo_container_methods"] = base_helpers(res, model, ("cache",))   # the typestate rule trusts reset/set/empty
    # constructors establish the relations between fields that the references above take for granted
    from .ctor_refs import constructors
    res.units["constructor_references"] = constructors(res, model, ('aave',))
    from ..rules.fresh import fresh_rule
    if "R-FRESH" not in res.rules:
        res.rules.append("R-FRESH")
    fresh_rule(model, res, scope=('demeter/aave/',))
    res.assumptions = [
        "the only memo caches are the DictCache-typed fields assigned in AaveV3Market.__init__ (discovered, not listed)",
        "a supply whose collateral flag is False does not contribute to the collateral view (collateral-conditional reset idiom)",
        "uncaught exceptions raised inside the bar-end liquidation abort the run (stale-at-raise is only checked for user operations)",
    ]
    res.not_decided = ["values of the views themselves (formula identity of the fill expressions is checked under C10/C11)"]
    return res

MANIFEST = {
    "technique": "typestate analysis of memo caches (empty / filled-consistent / stale) over inlined method bodies (caches and their dependencies discovered from the source, instance- and class-level), escape analysis of the containers the memo getters hand out (parameter-mutation summaries), formula identity of the derived views, shared-state rule (R-FRESH)",
    "claim": "For every method of AaveV3Market (callees inlined, all paths): after a write to anything a DictCache's fill "
             "expression reads (derived from the source), the cache is reset before it is read and before the method is "
             "left (by return; by rejection for user operations). As this holds at every method boundary it covers every "
             "interleaving of view reads with supply/withdraw/borrow/repay/collateral change/liquidation/new bar. With "
             "valid caches each view is its from-scratch formula by construction. Plus a who-writes check that no other "
             "module writes the positions or caches. The helpers the views are built from (safe_div_zero, safe_rounding, "
             "rate_to_apy with the 365-day year constant) each equal their own reference.",
    "note": "Trusted: dependency derivation through the interpreter's read events; the collateral-conditional idiom (a "
            "non-collateral supply is not part of the collateral view); saved-copy restore recognition. Stale-at-raise is "
            "not checked inside bar-end liquidation (an uncaught exception there aborts the run).",
}
