"""C09 -- token order is immaterial: mirrored pools give the same economic results."""
from __future__ import annotations

from ..report import Result
from ..rules.formula import effects_check, formula_check
from . import uni_refs as U
from .C07 import UNI_ALIASES, check_alias_anchor

EXPLANATION = (
    "Orientation discipline by comparison with a reference model of the Uniswap market that is written "
    "orientation-symmetrically (every base/quote quantity reaches a token0/token1 primitive through an explicit test of "
    "is_token0_quote, and the two orientations are mirror images by construction): _convert_pair, the quote-price-pair "
    "to tick swap, _get_value, tick/price helpers, estimate_liquidity (out of range the single token held is token0 below "
    "/ token1 above, and whether that is the base token depends on the orientation), estimate_amount, swap/buy/sell, "
    "even_rebalance, add_liquidity_by_value (all five arms, both swap directions, the ratio and its inverse), the public "
    "remove/collect wrappers and the market balance. Identity of canonical expressions / ledgers on every path, hence for "
    "every pool state and both orientations. The price/tick codecs' orientation handling is C06, the fee path is C08."
)

FX = ["subtract_from_balance", "add_to_balance", "_record_action", "swap", "add_liquidity_by_tick", "buy", "sell",
      "collect_fee", "__remove_liquidity", "__collect_fee"]
OPQ = ["base_unit_price_to_sqrt_price_x96", "sqrt_price_x96_to_tick", "get_sqrt_ratio_at_tick", "get_liquidity_for_amount0",
       "get_liquidity_for_amount1", "get_liquidity", "estimate_amount", "base_unit_price_to_tick", "estimate_ratio",
       "nearest_usable_tick", "price_to_tick", "get_swap_value_with_part_balance_used", "get_token_balance",
       "get_token_balance_with_unit", "tick_to_base_unit_price", "get_token_amounts"]


def run(model, tier="quick"):
    res = Result("C09", EXPLANATION)
    res.rules = ["R-ORIENT", "R-FORMULA", "R-PAIR", "R-SIB"]
    M = "UniLpMarket."
    if not check_alias_anchor(model):
        from ..model import AnalysisError
        raise AnalysisError("C09: orientation alias anchor not found in UniLpMarket.__init__")
    formula_check(res, model, M + "_convert_pair", U.REF_CONVERT_PAIR, "(0,1) -> (base, quote): swapped iff token0 is quote")
    formula_check(res, model, "V3CoreLib.quote_price_pair_to_tick", U.REF_QUOTE_PAIR_TO_TICK,
                  "price bounds -> tick bounds: swapped iff token0 is quote", opaque=["base_unit_price_to_tick"])
    formula_check(res, model, M + "_get_value", U.REF_GET_VALUE, "value = base*price + quote, by orientation")
    formula_check(res, model, M + "tick_to_price", U.REF_TICK_TO_PRICE, "tick -> quote price with the pool's orientation", opaque=OPQ, aliases=UNI_ALIASES)
    formula_check(res, model, M + "price_to_tick", U.REF_PRICE_TO_TICK, "quote price -> usable tick with the pool's orientation", opaque=OPQ, aliases=UNI_ALIASES)
    formula_check(res, model, M + "estimate_liquidity", U.REF_ESTIMATE_LIQUIDITY,
                  "out of range: one token only (token0 below, token1 above); its amount is value or value/price by orientation", opaque=OPQ, aliases=UNI_ALIASES)
    formula_check(res, model, M + "estimate_amount", U.REF_ESTIMATE_AMOUNT, "in range split of a value into token0/token1 amounts", opaque=OPQ, aliases=UNI_ALIASES)
    effects_check(res, model, M + "swap", U.REF_SWAP, "swap: rate is price or 1/price by direction; fee on the input", FX, opaque=OPQ, aliases=UNI_ALIASES)
    effects_check(res, model, M + "buy", U.REF_BUY, "buy base with quote", FX, opaque=OPQ, aliases=UNI_ALIASES)
    effects_check(res, model, M + "sell", U.REF_SELL, "sell base for quote", FX, opaque=OPQ, aliases=UNI_ALIASES)
    effects_check(res, model, M + "even_rebalance", U.REF_EVEN_REBALANCE, "even rebalance buys or sells the value difference", FX, opaque=OPQ, aliases=UNI_ALIASES)
    effects_check(res, model, M + "add_liquidity_by_value", U.REF_ADD_BY_VALUE,
                  "add by value: out-of-range arms chosen by orientation-aware tick tests; in-range swaps use the ratio in one "
                  "direction and its inverse in the other", FX, opaque=OPQ, aliases=UNI_ALIASES)
    effects_check(res, model, M + "remove_liquidity", U.REF_REMOVE_PUBLIC, "remove: amounts reported in base/quote by orientation", FX, opaque=OPQ, aliases=UNI_ALIASES)
    effects_check(res, model, M + "add_liquidity", U.REF_ADD_PUBLIC,
                  "add by price: bounds -> usable ticks, base/quote maxima mapped to token0/1 by orientation, used amounts mapped back",
                  FX + ["_add_liquidity_by_tick"], opaque=OPQ + ["quote_price_pair_to_tick", "tick_to_price"], aliases=UNI_ALIASES)
    effects_check(res, model, M + "add_liquidity_by_tick", U.REF_ADD_BY_TICK_PUBLIC,
                  "add by tick: bounds ordered, explicit sqrt price > explicit tick (any tick but the -1 sentinel) > bar price, "
                  "amounts mapped by orientation", FX + ["_add_liquidity_by_tick"],
                  opaque=OPQ + ["tick_to_sqrt_price_x96", "tick_to_price"], aliases=UNI_ALIASES)
    effects_check(res, model, M + "collect_fee", U.REF_COLLECT_PUBLIC,
                  "collect: amounts reported in base/quote by orientation; the dry position is deleted only when nothing is left",
                  FX, opaque=OPQ, aliases=UNI_ALIASES)
    formula_check(res, model, M + "get_position_amount", U.REF_POSITION_AMOUNT,
                  "position amounts at the bar price with the pool's orientation", opaque=OPQ, aliases=UNI_ALIASES)
    formula_check(res, model, M + "get_position_status", U.REF_POSITION_STATUS,
                  "position status: liquidity + pending amounts valued by orientation", opaque=OPQ + ["get_position_amount", "_get_value"],
                  aliases=UNI_ALIASES)
    effects_check(res, model, M + "remove_all_liquidity", U.REF_REMOVE_ALL, "remove every position", FX + ["remove_liquidity"],
                  opaque=OPQ, aliases=UNI_ALIASES)
    effects_check(res, model, M + "__collect_fee", U.REF_COLLECT_INNER, "collect: each token clamped by ITS OWN pending amount", FX, opaque=OPQ, aliases=UNI_ALIASES)
    formula_check(res, model, M + "get_market_balance", U.REF_UNI_BALANCE,
                  "market value: fees and deposits mapped to base/quote by orientation, transferred positions skipped",
                  opaque=[x for x in OPQ if x != "get_token_amounts"] + ["get_amounts"],     # get_token_amounts inlined: its zero-liquidity shortcut is visible
                  aliases=UNI_ALIASES)
    # direction symmetry of the fee path (a mirrored pool sees the opposite tick direction) and of tick trimming
    from . import C08, C06
    from ..rules.formula import nested_func
    effects_check(res, model, "V3CoreLib.update_fee", C08.REF_UPDATE_FEE,
                  "fee weight depends on the tick path only through the sorted four points and |path| (direction-symmetric)",
                  ["calc_amounts"], opaque=["in_range"])
    effects_check(res, model, nested_func(model, "V3CoreLib.update_fee", "calc_amounts"), C08.REF_CALC,
                  "per-token accrual uses each token's own volume and decimals", [], opaque=["from_atomic_unit"])
    nu = [r for r in C06.REFS if r[0].endswith("nearest_usable_tick")][0]
    formula_check(res, model, nu[0], nu[1], "tick trimming is round-half-even of tick/spacing (symmetric under negation)")
    from .base_refs import token_identity, numeric_coercion
    token_identity(res, model)       # `quote_token == token0` decides the orientation: equality must be by name
    numeric_coercion(res, model)
    from .base_refs import swap_sizing
    swap_sizing(res, model)      # the value algebra add_liquidity_by_value feeds with orientation-mapped values
    res.floor("obligations", len(res.obligations), 27)
    # premise: the primitive that stores a position keeps its bounds by orientation on EVERY path (new key and re-used key)
    from .C07 import uni_ledgers
    uni_ledgers(res, model)
    from ..rules.orientx import orientation_rule
    if "R-ORIENT" not in res.rules:
        res.rules.append("R-ORIENT")
    res.units["base_quote_pairs_consumed_outside_uniswap"] = orientation_rule(model, res)["sites"]
    # constructors establish the relations between fields that the references above take for granted
    from .ctor_refs import constructors
    res.units["constructor_references"] = constructors(res, model, ('pool',))
    # the pool's price feed is keyed by base / quote, never by token0 / token1
    from .price_refs import price_feeds
    res.units["price_feed_references"] = price_feeds(res, model, which=("uniswap",))
    from ..rules.fresh import fresh_rule
    if "R-FRESH" not in res.rules:
        res.rules.append("R-FRESH")
    fresh_rule(model, res, scope=('demeter/uniswap/',))
    res.assumptions = ["the reference model in sa/props/uni_refs.py is orientation-symmetric by inspection (each arm pair is a mirror image)"]
    res.not_decided = ["the 1e-12 / 0.1% numerical agreement between mirrored runs (floating point / Decimal)",
                       "a mechanical mirror-duality proof of the reference itself"]
    return res


MANIFEST = {
    "technique": "formula and ledger identity of every orientation-sensitive Uniswap market function against an orientation-symmetric reference model",
    "claim": "Every function of the Uniswap market that takes or returns prices, values or base/quote amounts equals, as a "
             "canonical piecewise expression / ledger, a reference model in which base/quote quantities reach token0/token1 "
             "primitives only through is_token0_quote tests and whose two orientations mirror each other; so no code path "
             "treats the orientations asymmetrically.",
    "note": "Trusted: the reference model (uni_refs.py) and its symmetry by inspection. Not decided: numerical tolerance of "
            "mirrored runs.",
}
