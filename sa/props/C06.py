"""C06 -- tick <-> sqrt-price conversions agree with Uniswap v3 TickMath."""
from __future__ import annotations

import ast
from decimal import Decimal, getcontext

from ..interp import const_value
from ..model import AnalysisError
from ..report import Result
from ..rules.formula import formula_check
from ..vn import Ctx, Evaluator, Rat, Unreadable, abs_of, sym

EXPLANATION = (
    "R-SHAPE: get_sqrt_ratio_at_tick has exactly the TickMath structure - |tick| <= 887272 asserted, the initial ratio "
    "selected by bit 0, then 19 independent top-level steps `if |tick| & 2^k: ratio = (ratio*C_k) >> 128` for k = 1..19 in "
    "order (no elif / nesting / missing mask), inversion by floor((2^256-1)/ratio) iff tick > 0, and the final division by "
    "2^32 rounding up. R-CONST with a semantic oracle: every C_k equals 2^128 * 1.0001^(-2^k/2) to within one unit "
    "(computed with 120-digit decimals), so a changed digit is caught without a frozen table. Given these premises each "
    "floor loses < 1 unit of Q128.128, which yields the stated error bound and strict monotonicity (adjacent ticks differ "
    "by >= 2e5 units at the minimum); the checker verifies the premises, the lemma is argued in DESIGN.md. R-SIGN: the "
    "sqrt->tick conversion must floor (math.floor) the logarithm, because int() truncates towards zero and is a ceiling "
    "for negative ticks. R-FORMULA: the price<->sqrt<->tick codecs are the inverse pipelines (invert iff token0 is quote, "
    "scale by 10^(d0-d1), square / sqrt, * 2^96) and nearest_usable_tick is round(tick/spacing)*spacing kept inside +/-887272."
)

MAX_TICK = 887272

REFS = [
    ("uniswap.helper._from_x96", "def f(number):\n    return Decimal(number) / Decimal(2**96)\n", "Q96 -> real"),
    ("uniswap.helper._to_x96", "def f(sqrt_price):\n    if not isinstance(sqrt_price, Decimal):\n        sqrt_price = Decimal(sqrt_price)\n    return int(Decimal(2**96) * sqrt_price)\n",
     "real -> Q96 (truncate)"),
    ("uniswap.helper.sqrt_price_x96_to_base_unit_price",
     '''
def f(sqrt_price_x96, token_0_decimal, token_1_decimal, is_token0_quote):
    s = _from_x96(sqrt_price_x96)
    token1_per_token0 = s * s * Decimal(10 ** (token_0_decimal - token_1_decimal))
    if is_token0_quote:
        return Decimal(1 / token1_per_token0)
    return token1_per_token0
''', "sqrtX96 -> quote price: square, scale by 10^(d0-d1), invert iff token0 is quote"),
    ("uniswap.helper.base_unit_price_to_sqrt_price_x96",
     '''
def f(price, token_0_decimal, token_1_decimal, is_token0_quote):
    if is_token0_quote:
        p = 1 / price
    else:
        p = price
    atomic = p / Decimal(10 ** (token_0_decimal - token_1_decimal))
    return _to_x96(Decimal.sqrt(atomic))
''', "quote price -> sqrtX96: invert iff token0 is quote, unscale, sqrt, * 2^96"),
    ("uniswap.helper.tick_to_base_unit_price",
     '''
def f(tick, token_0_decimal, token_1_decimal, is_token0_quote):
    s = _from_x96(get_sqrt_ratio_at_tick(tick))
    p = s ** 2 * Decimal(10 ** (token_0_decimal - token_1_decimal))
    if is_token0_quote:
        return Decimal(1 / p)
    return p
''', "tick -> quote price through TickMath"),
    ("uniswap.helper.base_unit_price_to_tick",
     '''
def f(price, token_0_decimal, token_1_decimal, is_token0_quote):
    if is_token0_quote:
        p = 1 / price
    else:
        p = price
    return _sqrt_price_to_tick(Decimal.sqrt(p / Decimal(10 ** (token_0_decimal - token_1_decimal))))
''', "quote price -> tick: same pipeline as price -> sqrt, then floor log"),
    ("uniswap.helper.sqrt_price_x96_to_tick", "def f(sqrt_price_x96):\n    return _sqrt_price_to_tick(_from_x96(sqrt_price_x96))\n",
     "sqrtX96 -> tick"),
    ("uniswap.helper.tick_to_sqrt_price_x96", "def f(tick):\n    return get_sqrt_ratio_at_tick(tick)\n", "tick -> sqrtX96 is TickMath"),
    ("uniswap.helper.nearest_usable_tick",
     '''
def f(tick, tick_spacing):
    r = round(tick / tick_spacing) * tick_spacing
    if r < -887272:
        return r + tick_spacing
    elif r > 887272:
        return r - tick_spacing
    return r
''', "nearest multiple of the spacing, kept inside the valid range"),
]


def _hex(node):
    v = const_value(node)
    return v if isinstance(v, int) else None


REF_HEAD = """
def head(tick):
    tick = int(tick)
    a = abs(tick)
    assert a <= 887272
    return a
"""
REF_HEAD_NOINT = """
def head(tick):
    a = abs(tick)
    assert a <= 887272
    return a
"""
REF_TAIL = """
def tail(tick, ratio):
    if tick > 0:
        ratio = (2 ** 256 - 1) // ratio
    return (ratio >> 32) + (0 if ratio % (1 << 32) == 0 else 1)
"""


def _normalise(body):
    """Drop bare annotations; `if c: x = a / else: x = b` (one Name, both arms) becomes `x = a if c else b`."""
    out = []
    for s in body:
        if isinstance(s, ast.Expr) and isinstance(s.value, ast.Constant):
            continue
        if isinstance(s, ast.AnnAssign) and s.value is None:
            continue
        if isinstance(s, ast.If) and len(s.body) == 1 and len(s.orelse) == 1 \
                and all(isinstance(x, ast.Assign) and len(x.targets) == 1 and isinstance(x.targets[0], ast.Name) for x in (s.body[0], s.orelse[0])) \
                and s.body[0].targets[0].id == s.orelse[0].targets[0].id:
            n = ast.Assign(targets=[ast.Name(id=s.body[0].targets[0].id, ctx=ast.Store())],
                           value=ast.IfExp(test=s.test, body=s.body[0].value, orelse=s.orelse[0].value))
            ast.copy_location(n, s)
            ast.fix_missing_locations(n)
            out.append(n)
            continue
        out.append(s)
    return out


def _inline_private_helpers(model, f, body, depth=0):
    """Statement-level inlining of `x = _helper(args)` / `return _helper(args)` for private module-level helpers of the
    same module that end in their only `return` (a function split into helpers keeps its shape for the rules below)."""
    import copy
    if depth > 3:
        return body
    mod_funcs = {st.name: st for st in f.module.tree.body if isinstance(st, ast.FunctionDef)}
    caller_names = {n.id for st in body for n in ast.walk(st) if isinstance(n, ast.Name)} | set(f.params)
    out = []
    changed = False
    for st in body:
        call, tgt = None, None
        if isinstance(st, ast.Assign) and len(st.targets) == 1 and isinstance(st.targets[0], ast.Name) and isinstance(st.value, ast.Call):
            call, tgt = st.value, st.targets[0].id
        elif isinstance(st, ast.AnnAssign) and isinstance(st.target, ast.Name) and isinstance(st.value, ast.Call):
            call, tgt = st.value, st.target.id
        elif isinstance(st, ast.Return) and isinstance(st.value, ast.Call):
            call = st.value
        h = mod_funcs.get(call.func.id) if call is not None and isinstance(call.func, ast.Name) and call.func.id.startswith("_") else None
        if h is None or call.keywords or h.args.vararg or h.args.kwarg or h.args.kwonlyargs or len(call.args) != len(h.args.args) \
                or not all(isinstance(a, (ast.Name, ast.Constant)) for a in call.args):
            out.append(st)
            continue
        hb = [x for x in h.body if not (isinstance(x, ast.Expr) and isinstance(x.value, ast.Constant))]
        rets = [n for x in hb for n in ast.walk(x) if isinstance(n, ast.Return)]
        if not hb or len(rets) != 1 or rets[0] is not hb[-1] or rets[0].value is None:
            out.append(st)
            continue
        params = [a.arg for a in h.args.args]
        locs = {n.id for x in hb for n in ast.walk(x) if isinstance(n, ast.Name) and isinstance(n.ctx, ast.Store)}
        ren = {}
        for p_, a in zip(params, call.args):
            ren[p_] = a
        for l in locs:
            if l in params:
                ren.pop(l, None)     # a parameter the helper rebinds: keep it as a local of that name (copy-in below)
            if l in caller_names and l != tgt and l not in params:
                ren[l] = ast.Name(id=l + "__h", ctx=ast.Load())

        class R(ast.NodeTransformer):
            def visit_Name(self, n):
                r = ren.get(n.id)
                if r is None:
                    return n
                if isinstance(r, ast.Name):
                    return ast.copy_location(ast.Name(id=r.id, ctx=n.ctx), n)
                return ast.copy_location(copy.deepcopy(r), n) if isinstance(n.ctx, ast.Load) else n

        new = []
        for p_, a in zip(params, call.args):
            if p_ in locs and not (isinstance(a, ast.Name) and a.id == p_):
                new.append(ast.Assign(targets=[ast.Name(id=p_, ctx=ast.Store())], value=copy.deepcopy(a)))
        for x in hb[:-1]:
            new.append(R().visit(copy.deepcopy(x)))
        rv = R().visit(copy.deepcopy(hb[-1].value))
        if tgt is not None:
            if not (isinstance(rv, ast.Name) and rv.id == tgt):
                new.append(ast.Assign(targets=[ast.Name(id=tgt, ctx=ast.Store())], value=rv))
        else:
            new.append(ast.Return(value=rv))
        for x in new:
            ast.copy_location(x, st)
            ast.fix_missing_locations(x)
        out.extend(new)
        changed = True
    return _inline_private_helpers(model, f, out, depth + 1) if changed else out


def _mask_test(t):
    """`name & C != 0` -> (name, C)"""
    if isinstance(t, ast.Compare) and len(t.ops) == 1 and isinstance(t.ops[0], ast.NotEq) and _hex(t.comparators[0]) == 0 \
            and isinstance(t.left, ast.BinOp) and isinstance(t.left.op, ast.BitAnd):
        l, r = t.left.left, t.left.right
        if isinstance(l, ast.Name) and _hex(r) is not None:
            return l.id, _hex(r)
        if isinstance(r, ast.Name) and _hex(l) is not None:
            return r.id, _hex(l)
    return None


def _piece_paths(model, f, name, params, stmts, retname=None):
    src = f"def {name}({', '.join(params)}):\n" + "".join("    " + ln + "\n" for st in stmts for ln in ast.unparse(st).splitlines())
    if retname is not None:
        src += f"    return {retname}\n"
    if not stmts and retname is None:
        src += "    pass\n"
    return _src_paths(model, f, src)


def _src_paths(model, f, src):
    from ..rules.formula import ref_func
    from ..model import FuncInfo
    rf = ref_func(model, f, src)
    rf = FuncInfo(f.module, None, rf.node)
    return Evaluator(model)._function_paths_ctx(rf, {}, None, 0, None)


def tickmath_shape(model, res):
    from ..vn import same_function
    f = model.func("uniswap.liquitidy_math.get_sqrt_ratio_at_tick")
    body = _normalise(_inline_private_helpers(model, f, _normalise(f.node.body)))
    tick = f.params[0]
    problems = []
    # the first statement that tests a bit of |tick| starts the product; everything before it defines |tick|
    first = None
    for k, st in enumerate(body):
        t = st.value.test if isinstance(st, (ast.Assign, ast.AnnAssign)) and isinstance(st.value, ast.IfExp) else (
            st.test if isinstance(st, ast.If) else None)
        if t is not None and _mask_test(t) is not None:
            first = k
            absvar = _mask_test(t)[0]
            break
    if first is None:
        raise AnalysisError("C06: no `|tick| & mask` step found in get_sqrt_ratio_at_tick")
    try:
        head = _piece_paths(model, f, "head", [tick], body[:first], absvar)
        ok_head = any(same_function(head, _src_paths(model, f, r))[0] for r in (REF_HEAD, REF_HEAD_NOINT))
        why = same_function(head, _src_paths(model, f, REF_HEAD))[1]
    except Unreadable as e:
        raise AnalysisError(f"C06: |tick| definition not readable in get_sqrt_ratio_at_tick ({e})")
    res.ob("R-SHAPE", f"the masks are applied to |tick|, and |tick| <= {MAX_TICK} is asserted before", f.loc(body[0]), ok=ok_head)
    if not ok_head:
        problems.append((body[max(0, first - 1)], f"the head of the function is not `a = |tick|; assert a <= {MAX_TICK}`: {why[:300]}"))
    i = first
    # initial ratio
    st = body[i]
    consts = {}
    init_ok = False
    rvar = None
    if isinstance(st, (ast.Assign, ast.AnnAssign)) and isinstance(st.value, ast.IfExp):
        tg = st.targets[0] if isinstance(st, ast.Assign) else st.target
        rvar = tg.id if isinstance(tg, ast.Name) else None
        if _mask_test(st.value.test) == (absvar, 1):
            c0, one = _hex(st.value.body), _hex(st.value.orelse)
            init_ok = one == 1 << 128 and c0 is not None
            consts[0] = (c0, st)
    res.ob("R-SHAPE", "initial ratio: C_0 if bit 0 else 2^128", f.loc(st), ok=init_ok)
    if not init_ok:
        problems.append((st, "initial ratio is not `C_0 if |tick| & 1 else 2^128`"))
    i += 1
    # 19 steps
    k = 1
    while i < len(body) and isinstance(body[i], ast.If) and k <= 19:
        st = body[i]
        good = not st.orelse and len(st.body) == 1 and _mask_test(st.test) == (absvar, 1 << k)
        c = None
        if good:
            a = st.body[0]
            good = isinstance(a, ast.Assign) and ast.unparse(a.targets[0]) == rvar and isinstance(a.value, ast.BinOp) \
                and isinstance(a.value.op, ast.RShift) and _hex(a.value.right) == 128 \
                and isinstance(a.value.left, ast.BinOp) and isinstance(a.value.left.op, ast.Mult)
            if good:
                l, r = a.value.left.left, a.value.left.right
                if ast.unparse(l) == rvar:
                    c = _hex(r)
                elif ast.unparse(r) == rvar:
                    c = _hex(l)
                good = c is not None
        if not good:
            break
        consts[k] = (c, st)
        k += 1
        i += 1
    steps_ok = k == 20
    res.ob("R-SHAPE", "19 independent steps `if |tick| & 2^k: ratio = (ratio*C_k) >> 128`, k = 1..19 in order", f.loc(),
           ok=steps_ok, detail=f"recognised {k - 1} steps")
    if not steps_ok:
        where = body[i] if i < len(body) else f.node
        problems.append((where, f"step k={k} (mask {hex(1 << k)}) is missing, nested (elif), out of order or not of the form "
                                f"`if |tick| & {hex(1 << k)} != 0: ratio = (ratio * C) >> 128`"))
    # inversion and final round-up: the rest of the body as a function of (tick, ratio)
    if rvar is not None and steps_ok:
        try:
            tail = _piece_paths(model, f, "tail", [tick, rvar], body[i:])
            ref = _src_paths(model, f, REF_TAIL.replace("ratio", rvar).replace("tick", tick))
            tail_ok, why = same_function(tail, ref)
        except Unreadable as e:
            raise AnalysisError(f"C06: tail of get_sqrt_ratio_at_tick not readable ({e})")
        res.ob("R-SHAPE", "inversion floor((2^256-1)/ratio) iff tick > 0, then division by 2^32 rounding up", f.loc(body[i] if i < len(body) else f.node),
               ok=tail_ok)
        if not tail_ok:
            problems.append((body[i] if i < len(body) else f.node,
                             f"after the 19 steps the function is not `if tick > 0: ratio = (2^256-1)//ratio; return (ratio >> 32) + "
                             f"(0 if ratio % 2^32 == 0 else 1)`: {why[:400]}"))
    for node, msg in problems:
        res.find("R-SHAPE", f.qualname, msg.split(":")[0][:120], f.loc(node), f"get_sqrt_ratio_at_tick: {msg}")
    # constants: closed form oracle
    getcontext().prec = 120
    n = 0
    base = Decimal("1.0001")
    for kk, (c, st) in sorted(consts.items()):
        if c is None:
            continue
        exact = (Decimal(2) ** 128) / (base ** (Decimal(2 ** kk) / 2))
        ok = abs(Decimal(c) - exact) < 1
        n += 1
        res.ob("R-CONST", f"C_{kk} = 2^128 * 1.0001^(-2^{kk}/2) within one unit", f.loc(st), ok=ok,
               detail=f"|C - exact| = {abs(Decimal(c) - exact):.3f}")
        if not ok:
            res.find("R-CONST", f.qualname, f"magic constant C_{kk} differs from the closed form", f.loc(st),
                     f"C_{kk} = {hex(c)} but 2^128*1.0001^(-{2 ** kk}/2) = {exact:.1f}")
    getcontext().prec = 28
    return n


def floor_rule(model, res):
    formula_check(res, model, "uniswap.helper._sqrt_price_to_tick",
                  "def _sqrt_price_to_tick(sqrt_price):\n    return math.floor(math.log(sqrt_price, SQRT_1p0001))\n",
                  "sqrt -> tick floors the logarithm (the greatest tick whose sqrt price does not exceed the input; int() would "
                  "truncate towards zero, the ceiling for negative ticks)", rule="R-SIGN")


def log_base_rule(model, res):
    """R-CONST with a numeric oracle: the base of the logarithm in sqrt-price -> tick is sqrt(1.0001).  The defining
    expression of the module constant is folded with 50-digit decimals (literals, Decimal(...), math.sqrt, .sqrt(), ** 0.5)
    and must agree with sqrt(1.0001) to 1e-15 relative (double precision); a truncated literal shifts every tick by
    tick * error / ln(sqrt(1.0001))."""
    from decimal import Decimal as D, getcontext, localcontext
    f = model.func("uniswap.helper._sqrt_price_to_tick")
    names = [n.id for n in ast.walk(f.node) if isinstance(n, ast.Name)]
    mod = f.module
    cands = [st for st in mod.tree.body if isinstance(st, ast.Assign) and isinstance(st.targets[0], ast.Name) and st.targets[0].id in names]
    if not cands:
        return 0

    def fold(e):
        if isinstance(e, ast.Constant) and isinstance(e.value, (int, float, str)):
            return D(str(e.value))
        if isinstance(e, ast.Call):
            fn = ast.unparse(e.func)
            if fn in ("Decimal", "float", "decimal.Decimal") and len(e.args) == 1:
                return fold(e.args[0])
            if fn in ("math.sqrt", "sqrt", "Decimal.sqrt", "np.sqrt", "numpy.sqrt") and len(e.args) == 1:
                return fold(e.args[0]).sqrt()
            if isinstance(e.func, ast.Attribute) and e.func.attr == "sqrt" and not e.args:
                return fold(e.func.value).sqrt()
            if isinstance(e.func, ast.Attribute) and e.func.attr == "ln" and not e.args:
                return fold(e.func.value).ln()
            if fn in ("math.log", "log", "np.log", "numpy.log") and len(e.args) == 1:
                return fold(e.args[0]).ln()
        if isinstance(e, ast.BinOp) and isinstance(e.op, ast.Pow):
            b, x = fold(e.left), fold(e.right)
            if x == D("0.5"):
                return b.sqrt()
            if x == int(x):
                return b ** int(x)
        if isinstance(e, ast.BinOp) and isinstance(e.op, (ast.Mult, ast.Div, ast.Add, ast.Sub)):
            a, b = fold(e.left), fold(e.right)
            return {ast.Mult: a * b, ast.Div: a / b, ast.Add: a + b, ast.Sub: a - b}[type(e.op)]
        raise ValueError(ast.unparse(e))

    n = 0
    with localcontext() as ctx:
        ctx.prec = 50
        want = D("1.0001").sqrt()
        for st in cands:
            try:
                got = fold(st.value)
            except (ValueError, ArithmeticError):
                res.refusals.append(f"C06: cannot fold the constant `{ast.unparse(st)[:80]}` used by _sqrt_price_to_tick")
                continue
            n += 1
            ok = abs(got - want) / want <= D("1e-15")
            # the logarithm of the base (ln sqrt(1.0001) or ln 1.0001) is the same constant in another role; HOW it is used is
            # decided by the formula identity of _sqrt_price_to_tick
            if not ok and any(abs(got - w) / w <= D("1e-15") for w in (want.ln(), D("1.0001").ln())):
                res.ob("R-CONST", f"{st.targets[0].id} = ln of the tick base to double precision", f"{mod.relpath}:{st.lineno}", ok=True)
                continue
            res.ob("R-CONST", f"{st.targets[0].id} = sqrt(1.0001) to double precision (relative error {abs(got - want) / want:.2E})",
                   f"{mod.relpath}:{st.lineno}", ok=ok)
            if not ok:
                res.find("R-CONST", "uniswap.helper." + st.targets[0].id, f"log base {ast.unparse(st.value)[:50]} is not sqrt(1.0001)",
                         f"{mod.relpath}:{st.lineno}",
                         f"`{ast.unparse(st)[:90]}`: the base of the tick logarithm differs from sqrt(1.0001) by a relative "
                         f"{abs(got - want) / want:.2E}; the computed tick is off by about tick * {abs(got - want) / want / D('0.00005'):.1E}, "
                         f"so prices between ticks map to the wrong tick for large |tick|")
    return n


def run(model, tier="quick"):
    res = Result("C06", EXPLANATION)
    res.rules = ["R-SHAPE", "R-CONST", "R-SIGN", "R-FORMULA"]
    res.floor("magic_constants", tickmath_shape(model, res), 20)
    floor_rule(model, res)
    res.floor("log_base_constants", log_base_rule(model, res), 1)
    opq = ["get_sqrt_ratio_at_tick", "_sqrt_price_to_tick", "_to_x96", "_from_x96"]
    for q, src, what in REFS:
        o = [x for x in opq if not q.endswith("." + x)]
        formula_check(res, model, q, src, what, opaque=o)
    from . import uni_refs as U
    from .C07 import UNI_ALIASES
    from .C09 import OPQ as UOPQ
    formula_check(res, model, "UniLpMarket.tick_to_price", U.REF_TICK_TO_PRICE,
                  "market helper tick -> quote price uses token0/token1 decimals and the pool's orientation", opaque=UOPQ, aliases=UNI_ALIASES)
    formula_check(res, model, "UniLpMarket.price_to_tick", U.REF_PRICE_TO_TICK,
                  "market helper quote price -> usable tick uses token0/token1 decimals and the pool's orientation", opaque=UOPQ, aliases=UNI_ALIASES)
    from .base_refs import numeric_coercion
    numeric_coercion(res, model)     # float prices reach the helpers through float_param_formatter -> object_to_decimal
    from ..rules.fresh import fresh_rule
    if "R-FRESH" not in res.rules:
        res.rules.append("R-FRESH")
    fresh_rule(model, res, scope=('demeter/uniswap/',))
    res.assumptions = ["error-bound lemma of TickMath given the verified structure and constants (DESIGN.md section 4 C06)",
                       "float math.log accuracy exactly at tick boundaries is not analysed"]
    res.not_decided = ["floating-point accuracy of math.log at exact tick boundaries",
                       "the numerical bound itself (follows from the verified premises by the standard TickMath argument)"]
    return res


MANIFEST = {
    "technique": "structural shape rule for the TickMath fold with a closed-form constant oracle, rounding-direction rule, formula identity of the price/tick codecs, log-base constant oracle (exact rational comparison), shared-state rule (R-FRESH)",
    "claim": "get_sqrt_ratio_at_tick is structurally the TickMath algorithm (bound assert, 20 mask steps in order and "
             "independent, inversion iff tick > 0 with 2^256-1, final round-up) and each magic constant equals its closed "
             "form to within one unit; the sqrt->tick conversion floors; the four price codecs and nearest_usable_tick are "
             "identical, as canonical expressions, to the inverse pipelines of the statement; the log base of the sqrt->tick conversion is computed from 1.0001 (or agrees with its correctly rounded closed form); the float-to-Decimal coercion of the wrapped market methods goes through str(). These are the premises from "
             "which the stated bound, monotonicity and boundary values follow.",
    "note": "Trusted: the standard TickMath error argument given the premises; float log accuracy at exact boundaries is "
            "not decided.",
}
