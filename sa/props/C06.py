"""C06 -- tick <-> sqrt-price conversions agree with Uniswap v3 TickMath."""
from __future__ import annotations

import ast
from decimal import Decimal, getcontext

from ..interp import const_value
from ..model import AnalysisError
from ..report import Result
from ..rules.formula import formula_check
from ..vn import Ctx, Evaluator, Rat, Unreadable, abs_of, sym

EXPLANATION = (
    "R-SHAPE: get_sqrt_ratio_at_tick has exactly the TickMath structure - |tick| <= 887272 asserted, the initial ratio "
    "selected by bit 0, then 19 independent top-level steps `if |tick| & 2^k: ratio = (ratio*C_k) >> 128` for k = 1..19 in "
    "order (no elif / nesting / missing mask), inversion by floor((2^256-1)/ratio) iff tick > 0, and the final division by "
    "2^32 rounding up. R-CONST with a semantic oracle: every C_k equals 2^128 * 1.0001^(-2^k/2) to within one unit "
    "(computed with 120-digit decimals), so a changed digit is caught without a frozen table. Given these premises each "
    "floor loses < 1 unit of Q128.128, which yields the stated error bound and strict monotonicity (adjacent ticks differ "
    "by >= 2e5 units at the minimum); the checker verifies the premises, the lemma is argued in DESIGN.md. R-SIGN: the "
    "sqrt->tick conversion must floor (math.floor) the logarithm, because int() truncates towards zero and is a ceiling "
    "for negative ticks. R-FORMULA: the price<->sqrt<->tick codecs are the inverse pipelines (invert iff token0 is quote, "
    "scale by 10^(d0-d1), square / sqrt, * 2^96) and nearest_usable_tick is round(tick/spacing)*spacing kept inside +/-887272."
)

MAX_TICK = 887272

REFS = [
    ("uniswap.helper._from_x96", "def f(number):\n    return Decimal(number) / Decimal(2**96)\n", "Q96 -> real"),
    ("uniswap.helper._to_x96", "def f(sqrt_price):\n    if not isinstance(sqrt_price, Decimal):\n        sqrt_price = Decimal(sqrt_price)\n    return int(Decimal(2**96) * sqrt_price)\n",
     "real -> Q96 (truncate)"),
    ("uniswap.helper.sqrt_price_x96_to_base_unit_price",
     '''
def f(sqrt_price_x96, token_0_decimal, token_1_decimal, is_token0_quote):
    s = _from_x96(sqrt_price_x96)
    token1_per_token0 = s * s * Decimal(10 ** (token_0_decimal - token_1_decimal))
    if is_token0_quote:
        return Decimal(1 / token1_per_token0)
    return token1_per_token0
''', "sqrtX96 -> quote price: square, scale by 10^(d0-d1), invert iff token0 is quote"),
    ("uniswap.helper.base_unit_price_to_sqrt_price_x96",
     '''
def f(price, token_0_decimal, token_1_decimal, is_token0_quote):
    if is_token0_quote:
        p = 1 / price
    else:
        p = price
    atomic = p / Decimal(10 ** (token_0_decimal - token_1_decimal))
    return _to_x96(Decimal.sqrt(atomic))
''', "quote price -> sqrtX96: invert iff token0 is quote, unscale, sqrt, * 2^96"),
    ("uniswap.helper.tick_to_base_unit_price",
     '''
def f(tick, token_0_decimal, token_1_decimal, is_token0_quote):
    s = _from_x96(get_sqrt_ratio_at_tick(tick))
    p = s ** 2 * Decimal(10 ** (token_0_decimal - token_1_decimal))
    if is_token0_quote:
        return Decimal(1 / p)
    return p
''', "tick -> quote price through TickMath"),
    ("uniswap.helper.base_unit_price_to_tick",
     '''
def f(price, token_0_decimal, token_1_decimal, is_token0_quote):
    if is_token0_quote:
        p = 1 / price
    else:
        p = price
    return _sqrt_price_to_tick(Decimal.sqrt(p / Decimal(10 ** (token_0_decimal - token_1_decimal))))
''', "quote price -> tick: same pipeline as price -> sqrt, then floor log"),
    ("uniswap.helper.sqrt_price_x96_to_tick", "def f(sqrt_price_x96):\n    return _sqrt_price_to_tick(_from_x96(sqrt_price_x96))\n",
     "sqrtX96 -> tick"),
    ("uniswap.helper.tick_to_sqrt_price_x96", "def f(tick):\n    return get_sqrt_ratio_at_tick(tick)\n", "tick -> sqrtX96 is TickMath"),
    ("uniswap.helper.nearest_usable_tick",
     '''
def f(tick, tick_spacing):
    r = round(tick / tick_spacing) * tick_spacing
    if r < -887272:
        return r + tick_spacing
    elif r > 887272:
        return r - tick_spacing
    return r
''', "nearest multiple of the spacing, kept inside the valid range"),
]


def _hex(node):
    v = const_value(node)
    return v if isinstance(v, int) else None


def tickmath_shape(model, res):
    f = model.func("uniswap.liquitidy_math.get_sqrt_ratio_at_tick")
    body = [s for s in f.node.body if not (isinstance(s, ast.Expr) and isinstance(s.value, ast.Constant))]
    tick = f.params[0]
    problems = []

    def canon(node, names):
        ev = Evaluator(model)
        alts = ev.ev(node, {n: sym(n) for n in names}, Ctx(f, 0))
        if len(alts) != 1 or alts[0][0]:
            raise Unreadable("piecewise")
        return alts[0][1]

    i = 0
    # optional int() coercion
    if isinstance(body[i], ast.Assign) and ast.unparse(body[i]) == f"{tick} = int({tick})":
        i += 1
    # abs
    st = body[i]
    absvar = None
    if isinstance(st, ast.Assign) and isinstance(st.targets[0], ast.Name):
        try:
            v = canon(st.value, [tick])
            if v == abs_of(sym(tick)):
                absvar = st.targets[0].id
        except Unreadable:
            pass
    if absvar is None:
        raise AnalysisError("C06: |tick| definition not recognised in get_sqrt_ratio_at_tick")
    i += 1
    # bound assert
    st = body[i]
    bound_ok = isinstance(st, ast.Assert) and ast.unparse(st.test) in (f"{absvar} <= {MAX_TICK}", f"{MAX_TICK} >= {absvar}")
    res.ob("R-SHAPE", f"|tick| <= {MAX_TICK} is asserted", f.loc(st), ok=bound_ok)
    if not bound_ok:
        problems.append((st, f"the tick bound assertion is `{ast.unparse(st)[:60]}`, expected |tick| <= {MAX_TICK}"))
    else:
        i += 1
    # initial ratio
    st = body[i]
    consts = {}
    init_ok = False
    rvar = None
    if isinstance(st, (ast.Assign, ast.AnnAssign)) and isinstance(st.value, ast.IfExp):
        tg = st.targets[0] if isinstance(st, ast.Assign) else st.target
        rvar = tg.id if isinstance(tg, ast.Name) else None
        t = st.value.test
        if ast.unparse(t) in (f"{absvar} & 1 != 0", f"{absvar} & 0x1 != 0") or (
                isinstance(t, ast.Compare) and isinstance(t.left, ast.BinOp) and isinstance(t.left.op, ast.BitAnd)
                and ast.unparse(t.left.left) == absvar and _hex(t.left.right) == 1 and isinstance(t.ops[0], ast.NotEq)
                and _hex(t.comparators[0]) == 0):
            c0, one = _hex(st.value.body), _hex(st.value.orelse)
            init_ok = one == 1 << 128 and c0 is not None
            consts[0] = (c0, st)
    res.ob("R-SHAPE", "initial ratio: C_0 if bit 0 else 2^128", f.loc(st), ok=init_ok)
    if not init_ok:
        problems.append((st, "initial ratio is not `C_0 if |tick| & 1 else 2^128`"))
    i += 1
    # 19 steps
    k = 1
    while i < len(body) and isinstance(body[i], ast.If) and k <= 19:
        st = body[i]
        t = st.test
        good = (not st.orelse and len(st.body) == 1 and isinstance(t, ast.Compare) and isinstance(t.left, ast.BinOp)
                and isinstance(t.left.op, ast.BitAnd) and ast.unparse(t.left.left) == absvar
                and _hex(t.left.right) == 1 << k and isinstance(t.ops[0], ast.NotEq) and _hex(t.comparators[0]) == 0)
        c = None
        if good:
            a = st.body[0]
            good = isinstance(a, ast.Assign) and ast.unparse(a.targets[0]) == rvar and isinstance(a.value, ast.BinOp) \
                and isinstance(a.value.op, ast.RShift) and _hex(a.value.right) == 128 \
                and isinstance(a.value.left, ast.BinOp) and isinstance(a.value.left.op, ast.Mult)
            if good:
                l, r = a.value.left.left, a.value.left.right
                if ast.unparse(l) == rvar:
                    c = _hex(r)
                elif ast.unparse(r) == rvar:
                    c = _hex(l)
                good = c is not None
        if not good:
            break
        consts[k] = (c, st)
        k += 1
        i += 1
    steps_ok = k == 20
    res.ob("R-SHAPE", "19 independent steps `if |tick| & 2^k: ratio = (ratio*C_k) >> 128`, k = 1..19 in order", f.loc(),
           ok=steps_ok, detail=f"recognised {k - 1} steps")
    if not steps_ok:
        where = body[i] if i < len(body) else f.node
        problems.append((where, f"step k={k} (mask {hex(1 << k)}) is missing, nested (elif), out of order or not of the form "
                                f"`if |tick| & {hex(1 << k)} != 0: ratio = (ratio * C) >> 128`"))
    # inversion
    inv_ok = False
    if i < len(body) and isinstance(body[i], ast.If):
        st = body[i]
        if ast.unparse(st.test) == f"{tick} > 0" and not st.orelse and len(st.body) == 1:
            try:
                v = canon(st.body[0].value, [rvar])
                from ..vn import floor_of
                want = floor_of(Rat.const((1 << 256) - 1) / sym(rvar))
                inv_ok = v == want or v == Rat.atom(("int", want))
            except Unreadable:
                pass
        res.ob("R-SHAPE", "inversion floor((2^256-1)/ratio) iff tick > 0", f.loc(st), ok=inv_ok, detail=ast.unparse(st.test))
        if not inv_ok:
            problems.append((st, f"inversion step is `if {ast.unparse(st.test)}: {ast.unparse(st.body[0])[:70]}`"))
        i += 1
    else:
        problems.append((f.node, "inversion step `if tick > 0` not found after the 19 mask steps"))
    # final round-up
    fin_ok = False
    rest = body[i:]
    retexpr = None
    for s in rest:
        if isinstance(s, ast.Assign):
            retexpr = s.value
        if isinstance(s, ast.Return) and not isinstance(s.value, ast.Name):
            retexpr = s.value
    if retexpr is not None:
        txt = ast.unparse(retexpr).replace(" ", "")
        fin_ok = txt in (f"({rvar}>>32)+(0if{rvar}%(1<<32)==0else1)", f"({rvar}>>32)+(1if{rvar}%(1<<32)!=0else0)",
                         f"({rvar}>>32)+(0if{rvar}%4294967296==0else1)")
    res.ob("R-SHAPE", "final step divides by 2^32 rounding up", f.loc(), ok=fin_ok)
    if not fin_ok:
        problems.append((f.node, "the final Q128.128 -> Q64.96 step is not `(ratio >> 32) + (0 if ratio % 2^32 == 0 else 1)` (round up)"))
    for node, msg in problems:
        res.find("R-SHAPE", f.qualname, msg, f.loc(node), f"get_sqrt_ratio_at_tick: {msg}")
    # constants: closed form oracle
    getcontext().prec = 120
    n = 0
    base = Decimal("1.0001")
    for kk, (c, st) in sorted(consts.items()):
        if c is None:
            continue
        exact = (Decimal(2) ** 128) / (base ** (Decimal(2 ** kk) / 2))
        ok = abs(Decimal(c) - exact) < 1
        n += 1
        res.ob("R-CONST", f"C_{kk} = 2^128 * 1.0001^(-2^{kk}/2) within one unit", f.loc(st), ok=ok,
               detail=f"|C - exact| = {abs(Decimal(c) - exact):.3f}")
        if not ok:
            res.find("R-CONST", f.qualname, f"magic constant C_{kk} differs from the closed form", f.loc(st),
                     f"C_{kk} = {hex(c)} but 2^128*1.0001^(-{2 ** kk}/2) = {exact:.1f}")
    getcontext().prec = 28
    return n


def floor_rule(model, res):
    f = model.func("uniswap.helper._sqrt_price_to_tick")
    rets = [n for n in ast.walk(f.node) if isinstance(n, ast.Return)]
    if len(rets) != 1:
        raise AnalysisError("C06: _sqrt_price_to_tick shape changed")
    v = rets[0].value
    ok = isinstance(v, ast.Call) and ast.unparse(v.func) in ("math.floor", "floor") and len(v.args) == 1 \
        and isinstance(v.args[0], ast.Call) and ast.unparse(v.args[0].func) in ("math.log", "log")
    if not ok and isinstance(v, ast.Call) and ast.unparse(v.func) == "int" and isinstance(v.args[0], ast.Call) \
            and ast.unparse(v.args[0].func) in ("math.floor", "floor"):
        ok = True
    res.ob("R-SIGN", "sqrt -> tick floors the logarithm (sign of the log is unknown)", f.loc(rets[0]), ok=ok,
           detail=ast.unparse(v))
    if not ok:
        res.find("R-SIGN", f.qualname, "logarithm is not floored", f.loc(rets[0]),
                 f"`{ast.unparse(v)}`: int() truncates towards zero, which is the ceiling for negative ticks; the greatest "
                 f"tick whose sqrt price does not exceed the input requires math.floor (a price strictly between ticks -6 "
                 f"and -5 maps to -5)")


def run(model, tier="quick"):
    res = Result("C06", EXPLANATION)
    res.rules = ["R-SHAPE", "R-CONST", "R-SIGN", "R-FORMULA"]
    res.floor("magic_constants", tickmath_shape(model, res), 20)
    floor_rule(model, res)
    opq = ["get_sqrt_ratio_at_tick", "_sqrt_price_to_tick", "_to_x96", "_from_x96"]
    for q, src, what in REFS:
        o = [x for x in opq if not q.endswith("." + x)]
        formula_check(res, model, q, src, what, opaque=o)
    res.assumptions = ["error-bound lemma of TickMath given the verified structure and constants (DESIGN.md section 4 C06)",
                       "float math.log accuracy exactly at tick boundaries is not analysed"]
    res.not_decided = ["floating-point accuracy of math.log at exact tick boundaries",
                       "the numerical bound itself (follows from the verified premises by the standard TickMath argument)"]
    return res


MANIFEST = {
    "technique": "structural shape rule for the TickMath fold with a closed-form constant oracle, rounding-direction rule, formula identity of the price/tick codecs",
    "claim": "get_sqrt_ratio_at_tick is structurally the TickMath algorithm (bound assert, 20 mask steps in order and "
             "independent, inversion iff tick > 0 with 2^256-1, final round-up) and each magic constant equals its closed "
             "form to within one unit; the sqrt->tick conversion floors; the four price codecs and nearest_usable_tick are "
             "identical, as canonical expressions, to the inverse pipelines of the statement. These are the premises from "
             "which the stated bound, monotonicity and boundary values follow.",
    "note": "Trusted: the standard TickMath error argument given the premises; float log accuracy at exact boundaries is "
            "not decided.",
}
