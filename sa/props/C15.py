"""C15 -- option orders fill best-first at displayed sizes; cash, fee and position exact."""
from __future__ import annotations

import ast

from ..interp import const_value
from ..model import AnalysisError
from ..report import Result
from ..rules.formula import effects_check, formula_check
from ..vn import Ctx, Evaluator, Rat, Unreadable, minmax, sym

EXPLANATION = (
    "Deribit order handling is compared, as canonical expressions, with a reference model written from the statement: "
    "fee = round(min(rate*contracts, 12.5%*premium), fee step) with the rates 0.03% (trade) from the token table; "
    "check_transaction (instrument present/open, minimum size, amount rounding, limit price from USD, mark-price caps "
    "`< multiple*mark` for asks and `> mark/multiple` for bids, limit filter, available size) ; buy/sell ledgers "
    "(effects: cash debit = sum(price*size) + fee resp. credit = sum - fee computed from the *filled* levels, the book "
    "written back from the full displayed list minus the fills, position amounts and size-weighted averages, the action "
    "record) ; equity = cash + sum(amount * mark) on open bars. R-SHAPE checks the fill loop: levels visited in list "
    "order, take = min(level size, remaining), remaining and level reduced by the same take, stop when filled; the "
    "limit arm fills only levels whose price equals the limit. R-GUARD: sell is rejected without/over the holding. "
    "R-INPUT: the fill loop only ever sees a deepcopy of the book. Holds for every book and order because these are "
    "identities of expressions / shape facts on all paths."
)

OPAQUE = ["round_decimal", "get_new_order_list", "check_transaction", "_deduct_order_amount", "get_trade_fee",
          "get_average_price", "_find_available_orders", "__get_trade_amount", "_is_open"]

REF_FIND_LEVEL = '''
def _find_available_orders(price, order_list):
    error = Decimal("0.001")
    return list(filter(lambda x: (1 - error) * price < x[0] < (1 + error) * price, order_list))
'''

REF_FEE = '''
def get_trade_fee(self, amount, total_premium):
    cap = Decimal("0.125") * total_premium
    flat = self.token_config.trade_fee_rate * amount
    fee = flat if flat < cap else cap
    return round_decimal(fee, self.decimal)
'''

REF_AVG = '''
def get_average_price(orders):
    qty = sum([o.amount for o in orders])
    if qty == 0:
        return 0
    return sum([o.amount * Decimal(o.price) for o in orders]) / qty
'''

REF_CHECK = '''
def check_transaction(self, instrument_name, amount, price_in_token, price_in_usd, is_buy, max_mark_price_multiple=None):
    if instrument_name not in self._market_status.data.index:
        raise DemeterError("unknown instrument")
    instrument = self._market_status.data.loc[instrument_name]
    if instrument.state != "open":
        raise DemeterError("closed")
    if amount < self.token_config.min_amount:
        raise DemeterError("dust")
    n = self.__get_trade_amount(amount)
    limit = price_in_token
    if price_in_usd is not None and price_in_token is None:
        limit = price_in_usd / instrument.underlying_price
    if is_buy:
        if max_mark_price_multiple is not None:
            book = list(filter(lambda lvl: lvl[0] < max_mark_price_multiple * Decimal(instrument.mark_price), instrument.asks))
        else:
            book = instrument.asks
    else:
        if max_mark_price_multiple is not None:
            book = list(filter(lambda lvl: lvl[0] > Decimal(instrument.mark_price) / max_mark_price_multiple, instrument.bids))
        else:
            book = instrument.bids
    if limit is not None:
        book = DeribitOptionMarket._find_available_orders(limit, book)
        if len(book) < 1:
            raise DemeterError("no level")
        limit = Decimal(str(book[0][0]))
        available = Decimal(book[0][1])
    else:
        available = sum([Decimal(lvl[1]) for lvl in book])
    if n > available:
        raise DemeterError("insufficient depth")
    return n, instrument, limit
'''

REF_BUY = '''
def buy(self, instrument_name, amount, price_in_token=None, price_in_usd=None, max_mark_price_multiple=None):
    chk = self.check_transaction(instrument_name, amount, price_in_token, price_in_usd, True, max_mark_price_multiple)
    n = chk[0]
    instrument = chk[1]
    limit = chk[2]
    if max_mark_price_multiple is not None:
        book = list(filter(lambda lvl: lvl[0] < max_mark_price_multiple * Decimal(instrument.mark_price), instrument.asks))
    else:
        book = instrument.asks
    fills = self._deduct_order_amount(n, copy.deepcopy(book), limit)
    premium = Decimal(sum([Decimal(f.amount) * Decimal(f.price) for f in fills]))
    fee = self.get_trade_fee(n, premium)
    self._subtract_from_balance(premium + fee)
    self.market_status.data.at[instrument_name, "asks"] = get_new_order_list(instrument.asks, fills)
    avg = Order.get_average_price(fills)
    if instrument_name not in self.positions.keys():
        self.positions[instrument_name] = OptionPosition(
            instrument_name=instrument_name, expiry_time=instrument.expiry_time, strike_price=instrument.strike_price,
            type=OptionKind(instrument.type), amount=n, avg_buy_price=avg, buy_amount=n,
            avg_sell_price=Decimal(0), sell_amount=Decimal(0))
    else:
        pos = self.positions[instrument_name]
        pos.avg_buy_price = Order.get_average_price([Order(avg, n), Order(pos.avg_buy_price, pos.buy_amount)])
        pos.buy_amount += n
        pos.amount += n
    self._record_action(BuyAction(
        market=self._market_info, instrument_name=instrument_name, type=OptionKind(instrument.type), average_price=avg,
        amount=n, total_premium=premium, mark_price=Decimal(str(instrument.mark_price)),
        underlying_price=Decimal(str(instrument.underlying_price)), fee=fee, orders=fills))
    return fills, fee
'''

REF_SELL = '''
def sell(self, instrument_name, amount, price_in_token=None, price_in_usd=None, max_mark_price_multiple=None):
    chk = self.check_transaction(instrument_name, amount, price_in_token, price_in_usd, False, max_mark_price_multiple)
    n = chk[0]
    instrument = chk[1]
    limit = chk[2]
    if instrument_name not in self.positions.keys():
        raise DemeterError("nothing held")
    if n > self.positions[instrument_name].amount:
        raise DemeterError("more than held")
    if max_mark_price_multiple is not None:
        book = list(filter(lambda lvl: lvl[0] > Decimal(instrument.mark_price) / max_mark_price_multiple, instrument.bids))
    else:
        book = list(instrument.bids)
    fills = self._deduct_order_amount(n, copy.deepcopy(book), limit)
    self.market_status.data.at[instrument_name, "bids"] = get_new_order_list(instrument.bids, fills)
    premium = Decimal(sum([Decimal(f.amount) * Decimal(f.price) for f in fills]))
    fee = self.get_trade_fee(n, premium)
    self._add_to_balance(premium - fee)
    avg = Order.get_average_price(fills)
    pos = self.positions[instrument_name]
    pos.avg_sell_price = Order.get_average_price([Order(avg, n), Order(pos.avg_sell_price, pos.sell_amount)])
    pos.sell_amount += n
    pos.amount -= n
    if pos.amount <= Decimal(0):
        del self.positions[instrument_name]
    self._record_action(SellAction(
        market=self._market_info, instrument_name=instrument_name, type=OptionKind(instrument.type), average_price=avg,
        amount=n, total_premium=premium, mark_price=Decimal(str(instrument.mark_price)),
        underlying_price=Decimal(str(instrument.underlying_price)), fee=fee, orders=fills))
    return fills, fee
'''

REF_BALANCE = '''
def get_market_balance(self):
    if self._is_open():
        premium = Decimal(0)
        d = Decimal(0)
        g = Decimal(0)
        for p in self.positions.values():
            if p.instrument_name not in self.market_status.data.index:
                continue
            row = self.market_status.data.loc[p.instrument_name]
            value = p.amount * round_decimal(row.mark_price, self.decimal)
            premium += value
            d += value * round_decimal(row.delta, self.decimal)
            g += value * round_decimal(row.gamma, self.decimal)
        self._balance_cache = OptionMarketBalance(self.balance + premium, self.balance, premium, d, g)
    elif self._balance_cache is None:
        self._balance_cache = OptionMarketBalance(self.balance, self.balance, Decimal(0), Decimal(0), Decimal(0))
    elif self._balance_cache.balance != self.balance:
        kept = self._balance_cache
        self._balance_cache = OptionMarketBalance(kept.premium + self.balance, self.balance, kept.premium, kept.delta, kept.gamma)
    return self._balance_cache
'''

REF_TRADE_AMOUNT = '''
def __get_trade_amount(self, amount):
    if amount < self.token_config.min_amount:
        return self.token_config.min_amount
    return round_decimal(amount, self.token_config.min_trade_decimal)
'''


def const_rule(model, res):
    cls = model.cls("DeribitOptionMarket")
    cc = model.class_const(cls, "TOKEN_CONFIGS")
    mf = model.class_const(cls, "MAX_FEE_RATE")
    if cc is None or mf is None or not isinstance(cc[1], ast.Dict):
        raise AnalysisError("C15: TOKEN_CONFIGS / MAX_FEE_RATE anchors not found")
    from decimal import Decimal
    ok = const_value(mf[1]) == Decimal("0.125")
    res.ob("R-CONST", "MAX_FEE_RATE == 12.5%", cls.module.relpath + f":{mf[1].lineno}", ok=ok)
    if not ok:
        res.find("R-CONST", "DeribitOptionMarket", "MAX_FEE_RATE != 0.125", cls.module.relpath + f":{mf[1].lineno}",
                 f"fee cap is {ast.unparse(mf[1])}, the statement says 12.5% of the premium")
    n = 0
    for k, v in zip(cc[1].keys, cc[1].values):
        if not isinstance(v, ast.Call):
            continue
        kws = {kw.arg: const_value(kw.value) for kw in v.keywords}
        for name, want in (("trade_fee_rate", Decimal("0.0003")), ("delivery_fee_rate", Decimal("0.00015"))):
            n += 1
            good = kws.get(name) == want
            res.ob("R-CONST", f"TOKEN_CONFIGS[{ast.unparse(k)}].{name} == {want}", cls.module.relpath + f":{v.lineno}", ok=good)
            if not good:
                res.find("R-CONST", "DeribitOptionMarket", f"TOKEN_CONFIGS[{ast.unparse(k)}].{name} != {want}",
                         cls.module.relpath + f":{v.lineno}", f"{name} is {kws.get(name)}, the statement says {want}")
    return n


def _canon(model, f, node, names):
    ev = Evaluator(model)
    env = {n: sym(n) for n in names}
    alts = ev.ev(node, env, Ctx(f, 0, f.cls))
    if len(alts) != 1 or alts[0][0]:
        raise Unreadable("piecewise")
    return alts[0][1]


# cash account of the option market: deposit moves `amount` wallet -> cash, withdraw cash -> wallet (rejected when the
# cash would become negative), both recorded; the book write-back is a NEW list (deep copy minus the fills)
REF_DEPOSIT = '''
def deposit(self, amount):
    self.broker.subtract_from_balance(self.token, amount)
    self._add_to_balance(amount)
    self._record_action(DepositAction(market=self._market_info, token=self.token.name, amount=amount))
    return self.balance
'''

REF_WITHDRAW = '''
def withdraw(self, amount):
    left = self._subtract_from_balance(amount)
    self.broker.add_to_balance(self.token, amount)
    self._record_action(WithdrawAction(market=self._market_info, token=self.token.name, amount=amount))
    return left
'''

REF_CASH_ADD = '''
def _add_to_balance(self, amount):
    self.balance = self.balance + amount
    return self.balance
'''

REF_CASH_SUB = '''
def _subtract_from_balance(self, amount):
    if self.balance - amount < Decimal(0):
        raise InsufficientBalanceError("not enough cash")
    self.balance = self.balance - amount
    return self.balance
'''

REF_ESTIMATE = '''
def estimate_cost(self, instrument_name, amount, trade_type="buy", price_in_token=None):
    n = self.__get_trade_amount(amount)
    row = self.data.loc[(self._market_status.timestamp, instrument_name)]
    if trade_type == "buy":
        book = row.asks
    else:
        book = row.bids
    fills = self._deduct_order_amount(n, copy.deepcopy(book), price_in_token)
    premium = Decimal(sum([Decimal(t.amount) * Decimal(t.price) for t in fills]))
    return premium + self.get_trade_fee(n, premium)
'''

REF_NEW_BOOK = '''
def get_new_order_list(old, used):
    book = copy.deepcopy(old)
    for fill in used:
        for level in book:
            if level[0] == float(fill[0]):
                level[1] -= float(fill[1])
                break
    return book
'''

# per-bar status: the base class stores prices and resets the flags; the option market loads the hourly snapshot that
# contains the bar (floor to the hour - never a later snapshot) unless the caller supplied one
REF_SET_STATUS = '''
def set_market_status(self, data, price):
    super().set_market_status(data, price)
    if data.data is None:
        hour = data.timestamp.floor(DERIBIT_OPTION_FREQ)
        if hour in self._data.index:
            data.data = self._data.loc[hour].copy()
        else:
            data.data = pd.DataFrame(columns=self._data.columns)
            if self._is_open():
                logging.warning("no data")
    self._market_status = data
'''

REF_BASE_SET_STATUS = '''
def set_market_status(self, data, price):
    self._price_status = price
    if self._data is None or data.timestamp in self._data.index:
        self.is_open = True
    else:
        self.is_open = False
    self.has_update = False
'''

REF_FILL = '''
def _deduct_order_amount(self, amount, orders, price_in_token):
    fills = []
    if price_in_token is None:
        remaining = amount
        for level in orders:
            if level[1] == 0 or level[1] == Decimal(0):
                continue
            take = min(Decimal(str(level[1])), remaining)
            level[1] -= float(take)
            remaining -= take
            fills.append(Order(Decimal(str(level[0])), take))
            if level[1] > 0 or remaining == Decimal(0):
                break
    else:
        for level in orders:
            if Decimal(str(level[0])) == price_in_token:
                level[1] -= amount
                fills.append(Order(price_in_token, amount))
    return fills
'''


def fill_loop_shape(model, res):
    """The fill loop equals the reference procedure as a canonical loop (value numbering of its one-iteration transfer
    relation): market orders walk the levels in list order, skip empty levels, take min(displayed size, remaining) from
    each, shrink the level by what was taken, record a fill at the level's price, and stop when the level is not
    exhausted or nothing remains; limit orders fill the whole amount at the level whose price equals the limit."""
    effects_check(res, model, "DeribitOptionMarket._deduct_order_amount", REF_FILL,
                  "fill loop: best-first in list order, min(level size, remaining) per level, level shrunk by the take, stop "
                  "conditions; limit orders only at the matching level", [], rule="R-SHAPE")


def isolation_rule(model, res):
    """R-INPUT: every call of _deduct_order_amount passes a deepcopy as the order list."""
    n = 0
    for f in model.all_functions():
        for c in ast.walk(f.node):
            if isinstance(c, ast.Call) and isinstance(c.func, ast.Attribute) and c.func.attr == "_deduct_order_amount":
                n += 1
                arg = c.args[1] if len(c.args) > 1 else None
                ok = False
                if isinstance(arg, ast.Name):
                    # every definition of the local that reaches the call: the last unconditional one must be a deepcopy
                    assigns = [s for s in ast.walk(f.node) if isinstance(s, ast.Assign) and isinstance(s.targets[0], ast.Name)
                               and s.targets[0].id == arg.id and s.lineno < c.lineno]
                    top = [s for s in assigns if s in f.node.body]
                    if top:
                        last = sorted(top, key=lambda s: s.lineno)[-1]
                        later_cond = [s for s in assigns if s.lineno > last.lineno]
                        ok = isinstance(last.value, ast.Call) and ast.unparse(last.value.func) in ("copy.deepcopy", "deepcopy") \
                            and not later_cond
                elif isinstance(arg, ast.Call):
                    ok = ast.unparse(arg.func) in ("copy.deepcopy", "deepcopy")
                res.ob("R-INPUT", f"{f.qualname}: order list passed to the fill loop is a deepcopy", f.loc(c), ok=ok)
                if not ok:
                    res.find("R-INPUT", f.qualname, "fill loop receives a list that shares level objects with the book",
                             f.loc(c), f"{f.qualname} passes `{ast.unparse(arg) if arg is not None else '?'}` to "
                                       f"_deduct_order_amount without an unconditional copy.deepcopy; the loop mutates levels in place")
    return n


def run(model, tier="quick"):
    res = Result("C15", EXPLANATION)
    res.rules = ["R-FORMULA", "R-PAIR", "R-SHAPE", "R-CONST", "R-GUARD", "R-INPUT"]
    nconst = const_rule(model, res)
    res.floor("fee_constants", nconst, 4)
    formula_check(res, model, "DeribitOptionMarket.get_trade_fee", REF_FEE,
                  "trade fee = round(min(rate*contracts, 12.5%*premium), fee step)", opaque=["round_decimal"])
    formula_check(res, model, "Order.get_average_price", REF_AVG, "size-weighted average price")
    formula_check(res, model, "DeribitOptionMarket.__get_trade_amount", REF_TRADE_AMOUNT,
                  "order size rounded to the contract step", opaque=["round_decimal"])
    formula_check(res, model, "DeribitOptionMarket.check_transaction", REF_CHECK,
                  "pre-trade checks: presence, state, dust, price caps vs mark, limit level, available size",
                  opaque=["round_decimal", "_find_available_orders"])
    formula_check(res, model, "DeribitOptionMarket._find_available_orders", REF_FIND_LEVEL,
                  "the level of a limit-priced order: the levels whose price is strictly within 0.1% of the limit (one tick is "
                  "never closer than that), in book order")
    fx = ["_subtract_from_balance", "_add_to_balance", "_record_action"]
    effects_check(res, model, "DeribitOptionMarket.buy", REF_BUY,
                  "buy: cash -= sum(price*size)+fee of the fills; book := displayed asks - fills; position += n with "
                  "size-weighted average; action record", fx, opaque=OPAQUE)
    effects_check(res, model, "DeribitOptionMarket.sell", REF_SELL,
                  "sell: rejected unless n <= held; cash += sum(price*size)-fee; book := displayed bids - fills; "
                  "position -= n, removed at zero; action record", fx, opaque=OPAQUE)
    effects_check(res, model, "DeribitOptionMarket.get_market_balance", REF_BALANCE,
                  "equity = cash + sum(amount * mark) on open bars; on closed bars the last option valuation plus the CURRENT cash",
                  [], opaque=["round_decimal", "_is_open"])
    wfx = ["subtract_from_balance", "add_to_balance", "_add_to_balance", "_subtract_from_balance", "_record_action"]
    effects_check(res, model, "DeribitOptionMarket.deposit", REF_DEPOSIT, "deposit: amount wallet -> option cash, recorded", wfx, ordered=True)
    effects_check(res, model, "DeribitOptionMarket.withdraw", REF_WITHDRAW, "withdraw: amount option cash -> wallet, recorded", wfx, ordered=True)
    effects_check(res, model, "DeribitOptionMarket._add_to_balance", REF_CASH_ADD, "cash credit", [])
    effects_check(res, model, "DeribitOptionMarket._subtract_from_balance", REF_CASH_SUB, "cash debit rejected when it would go negative", [],
                  keep_raise_effects=True)
    formula_check(res, model, "DeribitOptionMarket.estimate_cost", REF_ESTIMATE,
                  "cost estimate = premium of the fills + fee, on a deep copy of the bar's book",
                  opaque=["round_decimal", "_deduct_order_amount", "get_trade_fee", "__get_trade_amount"])
    effects_check(res, model, "deribit.helper.get_new_order_list", REF_NEW_BOOK,
                  "written-back book = deep copy of the displayed book minus each fill at its level", [])
    effects_check(res, model, "DeribitOptionMarket.set_market_status", REF_SET_STATUS,
                  "per-bar status: snapshot of the hour containing the bar (floor), never a later one; caller-supplied data kept",
                  ["set_market_status"], opaque=["_is_open"])
    effects_check(res, model, "Market.set_market_status", REF_BASE_SET_STATUS,
                  "base status: prices stored, open iff the bar exists in the data, update flag cleared", [])
    fill_loop_shape(model, res)
    n = isolation_rule(model, res)
    res.floor("fill_loop_call_sites", n, 3)
    from ..rules.alias import cell_mutation_rule
    mutating, _nf = cell_mutation_rule(model, res)
    res.ob("R-INPUT", f"fills shrink the visible book only by rebinding the cell to a NEW list: no in-place mutation reaches a level "
                      f"list of the loaded data (parameter-mutating functions: {sorted(mutating)})", "demeter/deribit/", ok=_nf == 0)
    res.floor("functions_mutating_a_parameter", len(mutating), 1)
    # constructors establish the relations between fields that the references above take for granted
    from .ctor_refs import constructors
    res.units["constructor_references"] = constructors(res, model, ('deribit', 'market'))
    from ..rules.fresh import fresh_rule
    if "R-FRESH" not in res.rules:
        res.rules.append("R-FRESH")
    fresh_rule(model, res, scope=('demeter/deribit/',))
    res.assumptions = ["order books are lists of [price, size] sorted best-first (data)",
                       "round_decimal / get_new_order_list / _find_available_orders are opaque atoms inside the ledgers (each has its own reference) "
                       "(round_decimal is checked under C16)"]
    res.not_decided = ["sortedness of the book (data)", "float arithmetic of level sizes"]
    return res


MANIFEST = {
    "technique": "formula, ledger and canonical-loop identity against a reference model (value numbering to rational normal forms) plus a cell-object mutation (alias) analysis",
    "claim": "The Deribit fee, pre-trade checks, buy/sell ledgers (cash, book write-back, position, averages, action "
             "record), the cash account (deposit / withdraw / overdraft rejection), the cost estimate, the per-bar status "
             "(snapshot of the hour containing the bar) and equity are identical, path by path, to a reference model "
             "written from the statement; the fill loop equals the reference loop (list order, min(level, remaining), level "
             "shrunk by the take, stop conditions, limit orders only at the matching level, whose selector equals its own reference: strictly within 0.1% of the limit); sells are gated by the holding; "
             "no in-place mutation can reach a level list stored in the loaded data (every mutating function receives a "
             "deep copy; the book shrinks only by rebinding the cell to a new list).",
    "note": "Trusted: the reference model in sa/props/C15.py; helper functions treated as opaque atoms; list-of-levels "
            "data layout; pandas copy-on-write not protecting objects inside cells. Not decided: sortedness of the data, "
            "float rounding of level sizes.",
}
