"""C19 -- strategies run by the backtest manager do not influence one another."""
from __future__ import annotations

import ast

from ..model import AnalysisError
from ..report import Result
from ..rules.formula import effects_check

EXPLANATION = (
    "R-SHARE (object freshness, decided on the shape of BacktestManager.run and the launch functions): every launch of a "
    "strategy hands _start a configuration whose market objects are fresh for that strategy - either the arguments pass a "
    "serialisation boundary (Pool.apply_async pickles its args per task) or they are copied with copy.deepcopy; a launch "
    "function takes the configuration from its own parameter, never from a module global (only the read-only data frames "
    "may be shared through `global_data`); _start builds a new Actuator (and with it a new Broker) per call and does not "
    "publish it; the module has no other mutable globals. Broker.add_market rebinds the market's broker and action "
    "callback unconditionally (ledger identity with a reference), so a market never keeps reporting to a previous run. "
    "Pool results are awaited with wait() on every task, so a failing strategy cannot tear down the others. Data frames "
    "are shared read-only (C02's R-INPUT)."
)

REF_ADD_COLUMN = '''
def add_column(self, market, name, column_data):
    if not isinstance(column_data.index, pd.core.indexes.datetimes.DatetimeIndex):
        raise DemeterError("index")
    if isinstance(market, MarketInfo):
        target = self.broker.markets[market]
    elif isinstance(market, Market):
        target = market
    else:
        raise DemeterError("market")
    target.data[name] = column_data
'''

REF_ADD_MARKET = '''
def add_market(self, market):
    if market.market_info in self._markets:
        raise DemeterError("exists")
    self._markets[market.market_info] = market
    market.broker = self
    market._record_action_callback = self._record_action_callback
'''

LAUNCHERS = ("_start", "_start_with_param_data", "_start_with_global_data")


_FRESH_HELPERS: set = set()      # module-level helpers of backtest.py whose every return is a deep copy of a parameter


def _fresh_helpers(mod) -> set:
    out = set()
    for st in mod.tree.body:
        if isinstance(st, ast.FunctionDef):
            params = {a.arg for a in st.args.args}
            rets = [r for r in ast.walk(st) if isinstance(r, ast.Return)]
            if rets and all(r.value is not None and isinstance(r.value, ast.Call) and ast.unparse(r.value.func) in ("copy.deepcopy", "deepcopy")
                            and len(r.value.args) == 1 and isinstance(r.value.args[0], ast.Name) and r.value.args[0].id in params
                            for r in rets):
                out.add(st.name)
    return out


def _is_fresh_copy(e: ast.expr) -> bool:
    if not isinstance(e, ast.Call):
        return False
    fn = ast.unparse(e.func)
    return fn in ("copy.deepcopy", "deepcopy") or fn in _FRESH_HELPERS


def share_rule(model, res):
    mod = model.modules["demeter.core.backtest"]
    run = model.func("BacktestManager.run")
    n = 0
    _FRESH_HELPERS.clear()
    _FRESH_HELPERS.update(_fresh_helpers(mod))
    # local single assignments in run (for `cfg = copy.deepcopy(self.config)` inside the loop)
    def local_def(name, before):
        best = None
        for s in ast.walk(run.node):
            if isinstance(s, ast.Assign) and isinstance(s.targets[0], ast.Name) and s.targets[0].id == name and s.lineno < before:
                best = s
        return best

    def all_defs(name):
        """Every value a local of `run` is bound to (plain assignments)."""
        out = []
        for s in ast.walk(run.node):
            if isinstance(s, ast.Assign) and len(s.targets) == 1 and isinstance(s.targets[0], ast.Name) and s.targets[0].id == name:
                out.append(s.value)
            elif isinstance(s, ast.AnnAssign) and isinstance(s.target, ast.Name) and s.target.id == name and s.value is not None:
                out.append(s.value)
        return out

    def launcher_names(tgt):
        """The launch function(s) a callable expression denotes: a launcher name, or a local bound only to launcher names."""
        if isinstance(tgt, ast.Name) and tgt.id in LAUNCHERS:
            return [tgt.id]
        if isinstance(tgt, ast.Name):
            ds = all_defs(tgt.id)
            if ds and all(isinstance(d, ast.Name) and d.id in LAUNCHERS for d in ds):
                return sorted({d.id for d in ds})
        if isinstance(tgt, ast.IfExp):
            a, b = launcher_names(tgt.body), launcher_names(tgt.orelse)
            if a and b:
                return sorted(set(a) | set(b))
        return []

    reached = set()
    for c in ast.walk(run.node):
        if not isinstance(c, ast.Call):
            continue
        fn = ast.unparse(c.func)
        launcher = None
        cfg = None
        boundary = None
        if fn in LAUNCHERS:
            launcher = fn
            cfg = c.args[0] if c.args else None
            boundary = "direct call"
        elif fn.split(".")[-1] in ("apply_async", "apply"):
            tgt = c.args[0] if c.args else next((k.value for k in c.keywords if k.arg == "func"), None)
            ln = launcher_names(tgt)
            if ln:
                launcher = "|".join(ln)
                boundary = "pickled task arguments"
                argt = None
                for k in c.keywords:
                    if k.arg == "args":
                        argt = k.value
                if argt is None and len(c.args) > 1:
                    argt = c.args[1]
                if isinstance(argt, ast.Name):
                    ds = all_defs(argt.id)
                    argt = ds[0] if ds and all(isinstance(d, (ast.Tuple, ast.List)) and d.elts for d in ds) else None
                cfg = argt.elts[0] if isinstance(argt, (ast.Tuple, ast.List)) and argt.elts else None
                if cfg is None:
                    boundary = None
        elif fn.split(".")[-1] in ("map", "map_async", "starmap", "starmap_async", "imap", "imap_unordered"):
            tgt = c.args[0] if c.args else next((k.value for k in c.keywords if k.arg == "func"), None)
            ln = launcher_names(tgt)
            if ln:
                launcher = "|".join(ln)
                cs = next((k.value for k in c.keywords if k.arg == "chunksize"), None)
                one = isinstance(cs, ast.Constant) and cs.value == 1
                boundary = "pickled task arguments" if one else "chunked task arguments"
                cfg = c.args[1] if len(c.args) > 1 else None
        if launcher is None:
            continue
        n += 1
        reached |= set(launcher.split("|"))
        ok = False
        why = ""
        if boundary == "pickled task arguments":
            ok = True
            why = "configuration is an apply_async argument (pickled per task)"
        elif boundary == "chunked task arguments":
            ok = False
            why = (f"`{fn}` sends the tasks to the workers in chunks (default chunksize > 1 for more than 4 x processes tasks); the "
                   f"tasks of one chunk are unpickled together, so they share ONE configuration object and its market instances")
        elif boundary == "direct call" and cfg is not None:
            e = cfg
            if isinstance(e, ast.Name):
                d = local_def(e.id, c.lineno)
                # must be (re)defined inside the per-strategy loop
                in_loop = False
                p = getattr(d, "_parent", None) if d is not None else None
                while p is not None:
                    if isinstance(p, ast.For):
                        in_loop = True
                    p = getattr(p, "_parent", None)
                if d is not None and in_loop:
                    e = d.value
            ok = _is_fresh_copy(e)
            why = f"configuration argument `{ast.unparse(cfg)}`" + (" is a per-strategy deep copy" if ok else " is the manager's own object, shared by every strategy of the loop")
        res.ob("R-SHARE", f"launch `{fn}` ({boundary}): markets are fresh for this strategy", run.loc(c), ok=ok, detail=why)
        if not ok:
            res.find("R-SHARE", "BacktestManager.run", f"launch {launcher}({ast.unparse(cfg) if cfg is not None else '?'}, ...) shares market objects",
                     run.loc(c), f"`{ast.unparse(c)[:120]}`: {why}; positions and status left by one strategy are seen by the next")
    return len(reached)


def launcher_rule(model, res):
    mod = model.modules["demeter.core.backtest"]
    n = 0
    for name in LAUNCHERS[1:]:
        f = mod.funcs.get(name)
        if f is None:
            raise AnalysisError(f"C19: launcher {name} not found")
        calls = [c for c in ast.walk(f.node) if isinstance(c, ast.Call) and ast.unparse(c.func) == "_start"]
        if len(calls) != 1:
            raise AnalysisError(f"C19: {name} does not call _start exactly once")
        c = calls[0]
        n += 1
        cfg = c.args[0] if c.args else None
        ok = isinstance(cfg, ast.Name) and cfg.id in f.params
        strat = c.args[2] if len(c.args) > 2 else None
        ok = ok and isinstance(strat, ast.Name) and strat.id in f.params
        res.ob("R-SHARE", f"{name}: configuration and strategy come from its own (per-task) parameters", f.loc(c), ok=ok,
               detail=ast.unparse(c))
        if not ok:
            res.find("R-SHARE", f"core.backtest.{name}", f"`{ast.unparse(c)[:100]}` takes configuration/strategy from shared state",
                     f.loc(c), f"{name} must pass its own parameters to _start; a module global is shared by every task a worker runs "
                               f"(market instances would be reused across strategies)")
    # _start: fresh actuator, nothing published
    st = mod.funcs.get("_start")
    if st is None:
        raise AnalysisError("C19: _start not found")
    # _start and the module-level helpers it calls (a setup block may live in a private helper)
    group, todo = [], [st]
    while todo:
        g = todo.pop()
        if g in group:
            continue
        group.append(g)
        for c in ast.walk(g.node):
            if isinstance(c, ast.Call) and isinstance(c.func, ast.Name) and c.func.id in mod.funcs and c.func.id not in LAUNCHERS[1:]:
                todo.append(mod.funcs[c.func.id])
    fresh = any((isinstance(s, ast.Assign) and ast.unparse(s.value) == "Actuator()")
                or (isinstance(s, ast.Return) and s.value is not None and ast.unparse(s.value) == "Actuator()")
                for g in group for s in ast.walk(g.node))
    shared_params = set(st.params) - {"strategy"}
    publishes = any(isinstance(s, (ast.Global, ast.Nonlocal)) for g in group for s in ast.walk(g.node)) or any(
        isinstance(s, ast.Assign) and any(isinstance(t, ast.Attribute) and ast.unparse(t.value) in ("config", "data", "bk_config")
                                           for t in s.targets) for g in group for s in ast.walk(g.node))
    res.ob("R-SHARE", "_start builds a new Actuator per call and publishes nothing", st.loc(), ok=fresh and not publishes)
    if not (fresh and not publishes):
        res.find("R-SHARE", "core.backtest._start", "actuator not fresh or published", st.loc(),
                 "_start must create `Actuator()` itself and must not store state in module globals or in the shared config/data")
    # module globals
    allowed = {"global_data", "logger"}
    extra = []
    for s in mod.tree.body:
        if isinstance(s, (ast.Assign, ast.AnnAssign)):
            tg = s.targets[0] if isinstance(s, ast.Assign) else s.target
            # only objects that CAN carry state: an alias of a function, a number, a string, a tuple is not state
            from ..rules.fresh import _is_mutable_value
            if isinstance(tg, ast.Name) and tg.id not in allowed and _is_mutable_value(s.value):
                extra.append(tg.id)
    globs = [g for s in ast.walk(mod.tree) if isinstance(s, ast.Global) for g in s.names if g not in allowed]
    res.ob("R-SHARE", f"module globals of core.backtest: only {sorted(allowed)}", mod.relpath, ok=not extra and not globs,
           detail=str(extra + globs))
    if extra or globs:
        res.find("R-SHARE", "core.backtest", f"additional module globals {sorted(set(extra + globs))}", mod.relpath,
                 f"module-level state {sorted(set(extra + globs))} is shared by every strategy a worker process runs")
    return n


def wait_rule(model, res):
    """Per `with Pool(...)` block: the async results are awaited inside the block, on every task, with wait().
    Recognised shapes of an await: a comprehension or a `for` loop over a task collection (a name that receives
    apply_async results by append / comprehension / list literal) calling a method on the element; a method called
    directly on an apply_async result or on a name bound to one."""
    run = model.func("BacktestManager.run")
    n = 0
    for w in ast.walk(run.node):
        if not (isinstance(w, ast.With) and any(isinstance(i.context_expr, ast.Call) and ast.unparse(i.context_expr.func).split(".")[-1] == "Pool"
                                                for i in w.items)):
            continue

        def is_async(e):
            return isinstance(e, ast.Call) and isinstance(e.func, ast.Attribute) and e.func.attr in ("apply_async", "map_async", "starmap_async")

        singles, colls = set(), set()
        changed = True
        while changed:
            changed = False
            for x in ast.walk(w):
                if (isinstance(x, ast.Assign) and len(x.targets) == 1 and isinstance(x.targets[0], ast.Name)) or (
                        isinstance(x, ast.AnnAssign) and isinstance(x.target, ast.Name) and x.value is not None):
                    nm, v = (x.targets[0].id if isinstance(x, ast.Assign) else x.target.id), x.value
                    if (is_async(v) or (isinstance(v, ast.Name) and v.id in singles)) and nm not in singles:
                        singles.add(nm)
                        changed = True
                    if isinstance(v, (ast.ListComp, ast.GeneratorExp)) and (is_async(v.elt) or (isinstance(v.elt, ast.Name) and v.elt.id in singles)) \
                            and nm not in colls:
                        colls.add(nm)
                        changed = True
                    if isinstance(v, (ast.List, ast.Tuple)) and v.elts and all(is_async(e) or (isinstance(e, ast.Name) and e.id in singles) for e in v.elts) \
                            and nm not in colls:
                        colls.add(nm)
                        changed = True
                    if isinstance(v, ast.Name) and v.id in colls and nm not in colls:
                        colls.add(nm)
                        changed = True
                if isinstance(x, ast.Call) and isinstance(x.func, ast.Attribute) and x.func.attr == "append" and isinstance(x.func.value, ast.Name) \
                        and len(x.args) == 1 and (is_async(x.args[0]) or (isinstance(x.args[0], ast.Name) and x.args[0].id in singles)) \
                        and x.func.value.id not in colls:
                    colls.add(x.func.value.id)
                    changed = True
        sites = []      # (node, method, filtered?)
        for x in ast.walk(w):
            if isinstance(x, (ast.ListComp, ast.GeneratorExp, ast.SetComp)) and len(x.generators) == 1 \
                    and isinstance(x.generators[0].iter, ast.Name) and x.generators[0].iter.id in colls and isinstance(x.generators[0].target, ast.Name):
                v = x.generators[0].target.id
                for c in ast.walk(x.elt):
                    if isinstance(c, ast.Call) and isinstance(c.func, ast.Attribute) and isinstance(c.func.value, ast.Name) and c.func.value.id == v:
                        sites.append((x, c.func.attr, bool(x.generators[0].ifs)))
            if isinstance(x, ast.For) and isinstance(x.iter, ast.Name) and x.iter.id in colls and isinstance(x.target, ast.Name):
                v = x.target.id
                for c in ast.walk(x):
                    if isinstance(c, ast.Call) and isinstance(c.func, ast.Attribute) and isinstance(c.func.value, ast.Name) and c.func.value.id == v:
                        early = any(isinstance(y, (ast.Break, ast.Continue, ast.Return)) and y.lineno < c.lineno for y in ast.walk(x))
                        cond = getattr(c, "_parent", None)
                        guarded = False
                        while cond is not None and cond is not x:
                            if isinstance(cond, (ast.If, ast.IfExp, ast.Try)):
                                guarded = True
                            cond = getattr(cond, "_parent", None)
                        sites.append((x, c.func.attr, early or guarded))
            if isinstance(x, ast.Call) and isinstance(x.func, ast.Attribute) and (is_async(x.func.value) or (
                    isinstance(x.func.value, ast.Name) and x.func.value.id in singles)) and x.func.attr in ("wait", "get", "result"):
                if not colls:
                    sites.append((x, x.func.attr, False))
        if not sites:
            n += 1
            res.ob("R-SHARE", "pool tasks are awaited inside the `with Pool` block", run.loc(w), ok=False)
            res.find("R-SHARE", "BacktestManager.run", "pool tasks are not awaited inside `with Pool`", run.loc(w),
                     "no wait() on the apply_async results inside the `with Pool(...)` block: leaving the block terminates the pool "
                     "and kills strategies that are still running")
            continue
        for node, meth, partial in sites:
            n += 1
            ok = meth == "wait" and not partial
            res.ob("R-SHARE", "all pool tasks are awaited with wait() (a failing strategy does not abort the others)", run.loc(node), ok=ok,
                   detail=ast.unparse(node)[:120])
            if not ok:
                what = f"`{ast.unparse(node)[:80]}`"
                res.find("R-SHARE", "BacktestManager.run", f"tasks awaited with .{meth}()" + (" on some tasks only" if partial else ""), run.loc(node),
                         f"{what}: .get() re-raises a strategy's exception inside `with Pool`, which terminates the pool and kills the "
                         f"other strategies; every task must be awaited, unconditionally, with wait()")
    return n


def run(model, tier="quick"):
    res = Result("C19", EXPLANATION)
    res.rules = ["R-SHARE", "R-PAIR"]
    res.floor("launchers_reached_from_run", share_rule(model, res), 2)
    res.floor("launcher_functions", launcher_rule(model, res), 2)
    res.floor("await_sites", wait_rule(model, res), 1)
    # the market frames are shared by the strategies of one process; a column a strategy attaches must therefore be
    # (re)written with THAT strategy's data on every call - never kept from whoever wrote it before
    effects_check(res, model, "Strategy.add_column", REF_ADD_COLUMN,
                  "add_column stores the caller's series under the name unconditionally (after the index check)", [], keep_raise_effects=True)
    effects_check(res, model, "Broker.add_market", REF_ADD_MARKET,
                  "add_market rebinds the market's broker and action callback unconditionally", [], keep_raise_effects=True)
    # the data frames ARE shared between the strategies of one process (by design, read-only): objects inside their cells
    # must never be mutated, otherwise one strategy's fills deplete the book the next strategy sees
    from ..rules.alias import cell_mutation_rule
    res.rules.append("R-INPUT")
    mutating, _nf = cell_mutation_rule(model, res)
    res.ob("R-INPUT", f"shared market data: no in-place mutation reaches an object stored in a frame cell "
                      f"(parameter-mutating functions: {sorted(mutating)})", "demeter/", ok=_nf == 0)
    from ..rules.alias import loop_sharing_rule
    res.units["objects_built_before_a_loop_and_passed_inside"] = loop_sharing_rule(model, res, scope=() if res.prop == "C19" else ("demeter/core/", "demeter/broker/"))
    # constructors establish the relations between fields that the references above take for granted
    from .ctor_refs import constructors
    res.units["constructor_references"] = constructors(res, model, ('market', 'broker', 'pool', 'squeeth', 'deribit', 'gmx2', 'aave'))
    from ..rules.fresh import fresh_rule
    if "R-FRESH" not in res.rules:
        res.rules.append("R-FRESH")
    fresh_rule(model, res, scope=())
    res.assumptions = ["multiprocessing pickles apply_async arguments per task (also under the fork start method)",
                       "data frames are shared read-only (R-INPUT under C02)"]
    res.not_decided = ["OS-level fork semantics", "strategies that share state on purpose (class attributes of user code)"]
    return res


MANIFEST = {
    "technique": "object-freshness (escape / sharing) analysis of the launch paths, cell-object mutation (alias) analysis of the shared data, ledger identity of Broker.add_market and Strategy.add_column, world assumptions (R-WORLD: definitions are what runs)",
    "claim": "On all launch paths the market objects a strategy runs with are fresh for it: deep-copied, or pickled PER TASK "
             "(apply_async; the chunked map/starmap family is not a per-task boundary unless chunksize=1); launchers use only "
             "their own parameters, _start builds and keeps a private Actuator, the module has no other mutable globals, "
             "add_market rebinds broker and callback unconditionally, all pool tasks are awaited inside the pool block "
             "without re-raising, and no in-place mutation can reach an object stored in a cell of the shared data frames. "
             "Object identity is invisible to a test that runs one strategy.",
    "note": "Trusted: pickling semantics of multiprocessing; recognisers of the launch call shapes (a changed shape lowers the "
            "instance count below its floor and is an analysis error).",
}
