"""C16 -- options settle once at expiry with intrinsic payoff net of the delivery fee."""
from __future__ import annotations

import ast

from ..model import AnalysisError
from ..report import Result
from ..rules.formula import effects_check, formula_check

EXPLANATION = (
    "Settlement is decided structurally and by formula identity. R-ORD/R-SHAPE on check_option_exercise: the expiry "
    "test is `now >= expiry`; inside it every expired key is appended to the removal list unconditionally (after the "
    "optional delivery); the removal loop deletes every listed key unconditionally (no continue/break/return before the "
    "delete), so a position is paid at most once and removed in the same invocation; the delivery direction matches "
    "the in-the-money guard (put: strike > underlying -> is_call False; call: strike < underlying -> is_call True). "
    "R-FORMULA/R-PAIR: _deliver_option pays round(contracts*|S-K|/S) - fee with fee = round(min(0.015%*contracts, "
    "12.5%*contracts*mark)), nothing when payoff <= fee, credited through _add_to_balance exactly once; get_deliver_fee, "
    "round_decimal, _is_open (timestamp on the hourly grid) and update (settlement only on open bars) equal their "
    "references. R-EFFECT: only deposit, sell and _deliver_option credit cash and _deliver_option is only called from the "
    "expiry loop; buy/sell are gated by write_func as the outermost decorator."
)

REF_DELIVER_FEE = '''
def get_deliver_fee(self, amount, total_premium):
    cap = Decimal("0.125") * total_premium
    flat = self.token_config.delivery_fee_rate * amount
    return round_decimal(flat if flat < cap else cap, self.decimal)
'''

REF_DELIVER = '''
def _deliver_option(self, option_pos, instrument, is_call):
    value = option_pos.amount * round_decimal(instrument.mark_price, self.decimal)
    fee = self.get_deliver_fee(option_pos.amount, value)
    if is_call:
        intrinsic = instrument.underlying_price - option_pos.strike_price
    else:
        intrinsic = option_pos.strike_price - instrument.underlying_price
    payoff = round_decimal(option_pos.amount * Decimal(intrinsic / instrument.underlying_price), self.decimal)
    if payoff <= fee:
        return None, None
    self._add_to_balance(payoff - fee)
    return payoff, fee
'''

REF_ROUND = '''
def round_decimal(num, exponent):
    if not isinstance(num, Decimal):
        num = Decimal(num)
    val = num.quantize(Decimal(f"1e{exponent}"), rounding=decimal.ROUND_HALF_UP)
    if exponent > 0:
        val = val.quantize(Decimal(0))
    return val
'''

REF_IS_OPEN = '''
def _is_open(self):
    now = self._market_status.timestamp
    return now.floor(DERIBIT_OPTION_FREQ) == now
'''

REF_UPDATE = '''
def update(self):
    if self._is_open():
        self.check_option_exercise()
'''


REF_EXERCISE = '''
def check_option_exercise(self):
    now = self._market_status.timestamp
    expired = []
    for key in self.positions:
        pos = self.positions[key]
        if pos.expiry_time > now:
            continue
        if pos.instrument_name in self._market_status.data.index:
            instrument = self._market_status.data.loc[pos.instrument_name]
        else:
            instrument = InstrumentStatus(mark_price=0, underlying_price=self._price_status[self.token.name])
        if pos.type == OptionKind.put:
            if pos.strike_price > instrument.underlying_price:
                self._deliver_option(pos, instrument, False)
        elif pos.type == OptionKind.call:
            if instrument.underlying_price > pos.strike_price:
                self._deliver_option(pos, instrument, True)
        expired.append(key)
    for key in expired:
        del self.positions[key]
'''


# resampling the hourly option data: an interval of one minute (or finer) leaves the data alone; anything coarser is
# resampled per instrument - never UP-sampled into bars that have no snapshot (the market is closed between snapshots)
REF_DERIBIT_RESAMPLE = '''
def _resample(self, freq):
    if pd.Timedelta(freq) <= BASIC_INTERVAL:
        return
    self._data = self._data.groupby(level=1).resample(freq, level=0).first().swaplevel(1, 0)
'''


def exercise_shape(model, res):
    """Settlement = the reference procedure, as canonical per-position effect blocks (value numbering, no text matching):
    a position is touched iff now >= expiry; in-the-money puts (strike > underlying) are delivered with is_call False,
    calls (underlying > strike) with True, nothing else is delivered; every expired key - and only those - goes into the
    removal list, and the second loop deletes exactly the keys of that list.  The list is a loop-carried local, so the
    second loop's source is tied to what the first loop appended."""
    effects_check(res, model, "DeribitOptionMarket.check_option_exercise", REF_EXERCISE,
                  "settle iff now >= expiry; deliver iff in the money with the matching direction; every expired "
                  "position, and only those, is removed in the same invocation",
                  ["_deliver_option", "_record_action"], opaque=["round_decimal", "_deliver_option"],
                  ignore_calls=("_record_action",), rule="R-DOM")


def effect_rule(model, res):
    """Who may credit option cash; write_func outermost on the trading operations."""
    cls = model.cls("DeribitOptionMarket")
    callers = {}
    for name, f in cls.methods.items():
        for n in ast.walk(f.node):
            if isinstance(n, ast.Call) and isinstance(n.func, ast.Attribute):
                if n.func.attr == "_add_to_balance":
                    callers.setdefault("_add_to_balance", set()).add(name)
                if n.func.attr == "_deliver_option":
                    callers.setdefault("_deliver_option", set()).add(name)
    ok1 = callers.get("_add_to_balance", set()) <= {"deposit", "sell", "_deliver_option"}
    ok2 = callers.get("_deliver_option", set()) <= {"check_option_exercise"}
    res.ob("R-EFFECT", f"cash is credited only by {sorted(callers.get('_add_to_balance', []))}", cls.module.relpath, ok=ok1)
    res.ob("R-EFFECT", f"_deliver_option is called only by {sorted(callers.get('_deliver_option', []))}", cls.module.relpath, ok=ok2)
    if not ok1:
        res.find("R-EFFECT", "DeribitOptionMarket", "unexpected caller of _add_to_balance", cls.module.relpath,
                 f"_add_to_balance is called from {sorted(callers['_add_to_balance'])}; only deposit, sell and settlement may credit cash")
    if not ok2:
        res.find("R-EFFECT", "DeribitOptionMarket", "unexpected caller of _deliver_option", cls.module.relpath,
                 f"_deliver_option is called from {sorted(callers['_deliver_option'])}; settlement must stay under the expiry guard")
    for op in ("buy", "sell"):
        f = cls.methods[op]
        good = bool(f.decorators) and f.decorators[0] == "write_func"
        res.ob("R-EFFECT", f"{op} is gated by write_func (outermost decorator)", f.loc(), ok=good)
        if not good:
            res.find("R-EFFECT", f"DeribitOptionMarket.{op}", "write_func gate missing or not outermost", f.loc(),
                     f"{op} decorators are {f.decorators}; the hourly market must reject trades on bars where it is closed")
    # the gate itself: write_func rejects when not is_open (name-insensitive shape)
    from .base_refs import write_gate
    write_gate(res, model, rule="R-EFFECT")


def run(model, tier="quick"):
    res = Result("C16", EXPLANATION)
    res.rules = ["R-ORD", "R-DOM", "R-SIGN", "R-FORMULA", "R-PAIR", "R-EFFECT"]
    exercise_shape(model, res)
    formula_check(res, model, "DeribitOptionMarket.get_deliver_fee", REF_DELIVER_FEE,
                  "delivery fee = round(min(0.015%*contracts, 12.5%*option value), fee step)", opaque=["round_decimal"])
    effects_check(res, model, "DeribitOptionMarket._deliver_option", REF_DELIVER,
                  "payoff = round(contracts*(+/-(S-K))/S) - fee, nothing if payoff <= fee; fee from the mark value",
                  ["_add_to_balance"], opaque=["round_decimal", "get_deliver_fee"])
    formula_check(res, model, "deribit.helper.round_decimal", REF_ROUND, "round half up to 10^exponent")
    formula_check(res, model, "DeribitOptionMarket._is_open", REF_IS_OPEN, "open iff the bar lies on the hourly grid")
    effects_check(res, model, "DeribitOptionMarket.update", REF_UPDATE, "settlement runs only on open bars",
                  ["check_option_exercise"], opaque=["_is_open"])
    effects_check(res, model, "DeribitOptionMarket._resample", REF_DERIBIT_RESAMPLE,
                  "option data is resampled only for intervals coarser than the base interval (first snapshot of the bin)", [])
    from .C15 import REF_SET_STATUS, REF_BASE_SET_STATUS
    effects_check(res, model, "DeribitOptionMarket.set_market_status", REF_SET_STATUS,
                  "per-bar status: the snapshot of the hour containing the bar, an empty book when that hour has no data",
                  ["set_market_status"], opaque=["_is_open"])
    effects_check(res, model, "Market.set_market_status", REF_BASE_SET_STATUS,
                  "a market is open on a bar iff the bar is in its data index", [])
    effect_rule(model, res)
    res.floor("obligations", len(res.obligations), 11)
    # constructors establish the relations between fields that the references above take for granted
    from .ctor_refs import constructors
    res.units["constructor_references"] = constructors(res, model, ('deribit', 'market'))
    from ..rules.fresh import fresh_rule
    if "R-FRESH" not in res.rules:
        res.rules.append("R-FRESH")
    fresh_rule(model, res, scope=('demeter/deribit/',))
    res.assumptions = ["the delivery fee rate constant (0.00015) is checked under C15's R-CONST",
                       "data gaps at expiry use the fallback instrument built from the price series (not decided)"]
    res.not_decided = ["behaviour when the expiring instrument is missing from the book (fallback instrument, data dependent)"]
    return res


MANIFEST = {
    "technique": "canonical-loop / ledger identity of the settlement procedure against a reference (value numbering) plus formula identity for payoff and fee and who-may-call rules",
    "claim": "The settlement procedure equals a reference procedure as canonical per-position effect blocks: a position is "
             "touched iff now >= expiry; in-the-money puts (strike > underlying) / calls (underlying > strike) are delivered "
             "with the matching direction and nothing else is; every expired key - and only those - enters the removal list, "
             "and the second loop deletes exactly the keys of that list (exactly-once settlement). Payoff, delivery fee, "
             "rounding, the open-bar predicate and the update gate equal their references as canonical expressions; only "
             "deposit/sell/settlement credit cash; buy/sell are gated by write_func.",
    "note": "Trusted: the reference procedure and expressions in sa/props/C16.py. Not decided: missing-instrument fallback data.",
}
