"""C16 -- options settle once at expiry with intrinsic payoff net of the delivery fee."""
from __future__ import annotations

import ast

from ..model import AnalysisError
from ..report import Result
from ..rules.formula import effects_check, formula_check

EXPLANATION = (
    "Settlement is decided structurally and by formula identity. R-ORD/R-SHAPE on check_option_exercise: the expiry "
    "test is `now >= expiry`; inside it every expired key is appended to the removal list unconditionally (after the "
    "optional delivery); the removal loop deletes every listed key unconditionally (no continue/break/return before the "
    "delete), so a position is paid at most once and removed in the same invocation; the delivery direction matches "
    "the in-the-money guard (put: strike > underlying -> is_call False; call: strike < underlying -> is_call True). "
    "R-FORMULA/R-PAIR: _deliver_option pays round(contracts*|S-K|/S) - fee with fee = round(min(0.015%*contracts, "
    "12.5%*contracts*mark)), nothing when payoff <= fee, credited through _add_to_balance exactly once; get_deliver_fee, "
    "round_decimal, _is_open (timestamp on the hourly grid) and update (settlement only on open bars) equal their "
    "references. R-EFFECT: only deposit, sell and _deliver_option credit cash and _deliver_option is only called from the "
    "expiry loop; buy/sell are gated by write_func as the outermost decorator."
)

REF_DELIVER_FEE = '''
def get_deliver_fee(self, amount, total_premium):
    cap = Decimal("0.125") * total_premium
    flat = self.token_config.delivery_fee_rate * amount
    return round_decimal(flat if flat < cap else cap, self.decimal)
'''

REF_DELIVER = '''
def _deliver_option(self, option_pos, instrument, is_call):
    value = option_pos.amount * round_decimal(instrument.mark_price, self.decimal)
    fee = self.get_deliver_fee(option_pos.amount, value)
    if is_call:
        intrinsic = instrument.underlying_price - option_pos.strike_price
    else:
        intrinsic = option_pos.strike_price - instrument.underlying_price
    payoff = round_decimal(option_pos.amount * Decimal(intrinsic / instrument.underlying_price), self.decimal)
    if payoff <= fee:
        return None, None
    self._add_to_balance(payoff - fee)
    return payoff, fee
'''

REF_ROUND = '''
def round_decimal(num, exponent):
    if not isinstance(num, Decimal):
        num = Decimal(num)
    val = num.quantize(Decimal(f"1e{exponent}"), rounding=decimal.ROUND_HALF_UP)
    if exponent > 0:
        val = val.quantize(Decimal(0))
    return val
'''

REF_IS_OPEN = '''
def _is_open(self):
    now = self._market_status.timestamp
    return now.floor(DERIBIT_OPTION_FREQ) == now
'''

REF_UPDATE = '''
def update(self):
    if self._is_open():
        self.check_option_exercise()
'''


def _no_early_exit(stmts, before) -> bool:
    """No continue/break/return in `stmts` that textually precedes node `before`."""
    for s in stmts:
        for n in ast.walk(s):
            if isinstance(n, (ast.Continue, ast.Break, ast.Return)) and n.lineno < before.lineno:
                return False
    return True


def exercise_shape(model, res):
    f = model.func("DeribitOptionMarket.check_option_exercise")
    loops = [s for s in f.node.body if isinstance(s, ast.For)]
    if len(loops) != 2:
        raise AnalysisError("C16: check_option_exercise: expected a settle loop and a removal loop")
    settle, removal = loops
    # --- settle loop
    okshape = isinstance(settle.iter, ast.Call) and ast.unparse(settle.iter) == "self.positions.items()"
    guards = [s for s in settle.body if isinstance(s, ast.If)]
    if not okshape or len(guards) != 1 or len(settle.body) != 1:
        raise AnalysisError("C16: settle loop shape not recognised (one `if expired:` over self.positions.items())")
    g = guards[0]
    t = g.test
    posvar = settle.target.elts[1].id if isinstance(settle.target, ast.Tuple) else None
    keyvar = settle.target.elts[0].id if isinstance(settle.target, ast.Tuple) else None
    exp_ok = (isinstance(t, ast.Compare) and len(t.ops) == 1 and (
        (isinstance(t.ops[0], ast.GtE) and ast.unparse(t.left) == "self._market_status.timestamp"
         and ast.unparse(t.comparators[0]) == f"{posvar}.expiry_time")
        or (isinstance(t.ops[0], ast.LtE) and ast.unparse(t.comparators[0]) == "self._market_status.timestamp"
            and ast.unparse(t.left) == f"{posvar}.expiry_time")))
    res.ob("R-ORD", "expiry test is `now >= expiry`", f.loc(g), ok=exp_ok, detail=ast.unparse(t))
    if not exp_ok:
        res.find("R-ORD", f.qualname, f"expiry test `{ast.unparse(t)}`", f.loc(g),
                 f"positions are settled when `{ast.unparse(t)}`; the statement requires the first open bar at or after "
                 f"expiry (now >= expiry), nothing before")
    # every expired key appended, unconditionally, at statement level of the guard body
    listvar = None
    app = None
    for s in g.body:
        if isinstance(s, ast.Expr) and isinstance(s.value, ast.Call) and isinstance(s.value.func, ast.Attribute) \
                and s.value.func.attr == "append" and len(s.value.args) == 1 and ast.unparse(s.value.args[0]) == keyvar:
            listvar = ast.unparse(s.value.func.value)
            app = s
    must_append = app is not None and _no_early_exit(g.body, app) and not g.orelse
    res.ob("R-DOM", "every expired position key is appended to the removal list on every path", f.loc(g), ok=must_append)
    if not must_append:
        res.find("R-DOM", f.qualname, "expired key not always scheduled for removal", f.loc(g),
                 "inside the expiry guard the position key is not appended to the removal list on every path "
                 "(an expired position could be settled again on a later bar)")
    # delivery direction
    deliv = [n for n in ast.walk(g) if isinstance(n, ast.Call) and ast.unparse(n.func) == "self._deliver_option"]
    dir_ok = len(deliv) == 2
    seen_kinds = set()
    for branch in [n for n in ast.walk(g) if isinstance(n, ast.If) and n is not g]:
        txt = ast.unparse(branch.test)
        calls = [c for s in branch.body for c in ast.walk(s) if isinstance(c, ast.Call) and ast.unparse(c.func) == "self._deliver_option"]
        if not calls:
            continue
        flag = ast.unparse(calls[0].args[2]) if len(calls[0].args) > 2 else "?"
        if "OptionKind.put" in txt:
            seen_kinds.add("put")
            good = flag == "False" and (f"{posvar}.strike_price > instrument.underlying_price" in txt
                                        or f"instrument.underlying_price < {posvar}.strike_price" in txt)
        elif "OptionKind.call" in txt:
            seen_kinds.add("call")
            good = flag == "True" and (f"{posvar}.strike_price < instrument.underlying_price" in txt
                                       or f"instrument.underlying_price > {posvar}.strike_price" in txt)
        else:
            good = False
        dir_ok = dir_ok and good
        res.ob("R-SIGN", f"in-the-money guard `{txt}` delivers with is_call={flag}", f.loc(branch), ok=good)
        if not good:
            res.find("R-SIGN", f.qualname, f"delivery under `{txt}` with is_call={flag}", f.loc(branch),
                     f"delivery guard `{txt}` / is_call={flag} does not match: puts pay when strike > underlying "
                     f"(is_call False), calls when strike < underlying (is_call True)")
    if seen_kinds != {"put", "call"}:
        raise AnalysisError("C16: put/call delivery branches not recognised")
    # --- removal loop
    rem_ok = isinstance(removal.iter, ast.Name) and removal.iter.id == listvar and isinstance(removal.target, ast.Name)
    dels = [s for s in removal.body if isinstance(s, ast.Delete) and ast.unparse(s.targets[0]) == f"self.positions[{removal.target.id}]"]
    rem_ok = rem_ok and len(dels) == 1 and _no_early_exit(removal.body, dels[0])
    res.ob("R-DOM", "every scheduled key is deleted from the positions in the same invocation", f.loc(removal), ok=rem_ok)
    if not rem_ok:
        res.find("R-DOM", f.qualname, "scheduled key not always deleted", f.loc(removal),
                 "the removal loop does not delete every scheduled position unconditionally (continue/break before the "
                 "`del`, or the loop does not iterate the removal list): a delivered position can stay and be paid again")


def effect_rule(model, res):
    """Who may credit option cash; write_func outermost on the trading operations."""
    cls = model.cls("DeribitOptionMarket")
    callers = {}
    for name, f in cls.methods.items():
        for n in ast.walk(f.node):
            if isinstance(n, ast.Call) and isinstance(n.func, ast.Attribute):
                if n.func.attr == "_add_to_balance":
                    callers.setdefault("_add_to_balance", set()).add(name)
                if n.func.attr == "_deliver_option":
                    callers.setdefault("_deliver_option", set()).add(name)
    ok1 = callers.get("_add_to_balance", set()) <= {"deposit", "sell", "_deliver_option"}
    ok2 = callers.get("_deliver_option", set()) <= {"check_option_exercise"}
    res.ob("R-EFFECT", f"cash is credited only by {sorted(callers.get('_add_to_balance', []))}", cls.module.relpath, ok=ok1)
    res.ob("R-EFFECT", f"_deliver_option is called only by {sorted(callers.get('_deliver_option', []))}", cls.module.relpath, ok=ok2)
    if not ok1:
        res.find("R-EFFECT", "DeribitOptionMarket", "unexpected caller of _add_to_balance", cls.module.relpath,
                 f"_add_to_balance is called from {sorted(callers['_add_to_balance'])}; only deposit, sell and settlement may credit cash")
    if not ok2:
        res.find("R-EFFECT", "DeribitOptionMarket", "unexpected caller of _deliver_option", cls.module.relpath,
                 f"_deliver_option is called from {sorted(callers['_deliver_option'])}; settlement must stay under the expiry guard")
    for op in ("buy", "sell"):
        f = cls.methods[op]
        good = bool(f.decorators) and f.decorators[0] == "write_func"
        res.ob("R-EFFECT", f"{op} is gated by write_func (outermost decorator)", f.loc(), ok=good)
        if not good:
            res.find("R-EFFECT", f"DeribitOptionMarket.{op}", "write_func gate missing or not outermost", f.loc(),
                     f"{op} decorators are {f.decorators}; the hourly market must reject trades on bars where it is closed")
    # the gate itself: write_func rejects when not is_open (name-insensitive shape)
    from ..rules.common import write_func_shape
    sh = write_func_shape(model)
    res.ob("R-EFFECT", "write_func rejects when the market is not open", sh["loc"], ok=sh["gate"])
    if not sh["gate"]:
        res.find("R-EFFECT", "broker.market.write_func", "closed-market gate changed", sh["loc"],
                 "write_func no longer raises before the call when the instance's `is_open` is false")


def run(model, tier="quick"):
    res = Result("C16", EXPLANATION)
    res.rules = ["R-ORD", "R-DOM", "R-SIGN", "R-FORMULA", "R-PAIR", "R-EFFECT"]
    exercise_shape(model, res)
    formula_check(res, model, "DeribitOptionMarket.get_deliver_fee", REF_DELIVER_FEE,
                  "delivery fee = round(min(0.015%*contracts, 12.5%*option value), fee step)", opaque=["round_decimal"])
    effects_check(res, model, "DeribitOptionMarket._deliver_option", REF_DELIVER,
                  "payoff = round(contracts*(+/-(S-K))/S) - fee, nothing if payoff <= fee; fee from the mark value",
                  ["_add_to_balance"], opaque=["round_decimal", "get_deliver_fee"])
    formula_check(res, model, "deribit.helper.round_decimal", REF_ROUND, "round half up to 10^exponent")
    formula_check(res, model, "DeribitOptionMarket._is_open", REF_IS_OPEN, "open iff the bar lies on the hourly grid")
    effects_check(res, model, "DeribitOptionMarket.update", REF_UPDATE, "settlement runs only on open bars",
                  ["check_option_exercise"], opaque=["_is_open"])
    effect_rule(model, res)
    res.floor("obligations", len(res.obligations), 14)
    res.assumptions = ["the delivery fee rate constant (0.00015) is checked under C15's R-CONST",
                       "data gaps at expiry use the fallback instrument built from the price series (not decided)"]
    res.not_decided = ["behaviour when the expiring instrument is missing from the book (fallback instrument, data dependent)"]
    return res


MANIFEST = {
    "technique": "structural must-append/must-delete and guard-direction rules on the settlement loops plus formula/ledger identity for payoff and fee",
    "claim": "On all paths of the settlement code: expiry is tested as now >= expiry; every expired key is scheduled and "
             "every scheduled key deleted in the same invocation (exactly-once settlement); delivery direction matches "
             "the in-the-money guard; payoff, delivery fee, rounding, the open-bar predicate and the update gate equal "
             "their references as canonical expressions; only deposit/sell/settlement credit cash; buy/sell are gated "
             "by write_func.",
    "note": "Trusted: the reference expressions in sa/props/C16.py; the shape of the two settlement loops (a changed "
            "shape is an analysis error, not a pass). Not decided: missing-instrument fallback data.",
}
