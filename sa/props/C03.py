"""C03 -- frozen-market operations never create value, negative holdings or over-redemption."""
from __future__ import annotations

from ..report import Result
from ..rules.formula import effects_check, formula_check
from ..rules.guard import run_guard

EXPLANATION = (
    "R-GUARD: every decrement of a holding field (wallet balance, liquidity, pending fees, scaled supply/debt, vault "
    "collateral/short, option amount, GLP/GM shares) found in the markets, Broker and Asset is enumerated, and on every "
    "path of its function (value-numbering evaluator, callees inlined) the amount subtracted is shown to be bounded by the "
    "holding: compared with it on the surviving arm of a rejection (D <= H), clamped to it (min(.., H), q*H with 0<q<=1, "
    "everything), or passed to the clamp-to-zero helper. The wallet primitives are compared as ledgers with a reference: "
    "Asset.sub rejects an overdraft unless the shortfall is below 1e-5 of the balance (then snaps to zero), does nothing "
    "only when balance and amount are both zero; Broker.subtract_from_balance rejects unknown tokens; swaps move exactly "
    "amount and amount*(1-fee)*price. Payouts are tied to the guarded amounts by the ledger identities of C07/C09 "
    "(Uniswap), C10 (Aave), C14 (Squeeth), C15 (Deribit), C17 (GMX). Not decided: conservation of total net value over "
    "arbitrary operation sequences (composition of the single-step identities)."
)

REF_ASSET_SUB = '''
def sub(self, amount=Decimal(0), allow_negative_balance=False):
    if self.balance != Decimal(0):
        base = self.balance
    else:
        base = Decimal(amount)
    if base == Decimal(0):
        return self
    if allow_negative_balance:
        self.balance -= amount
        return self
    if abs((self.balance - amount) / base) < 0.00001:
        self.balance = Decimal(0)
    elif self.balance - amount < Decimal(0):
        raise AssertionError("insufficient")
    else:
        self.balance -= amount
    return self
'''

REF_ASSET_ADD = "def add(self, amount=Decimal(0)):\n    self.balance += amount\n    return self\n"

REF_BROKER_SUB = '''
def subtract_from_balance(self, token, amount):
    if token in self._assets:
        asset = self._assets[token]
        asset.sub(amount, allow_negative_balance=self.allow_negative_balance)
        return asset
    if self.allow_negative_balance:
        asset = self.__add_asset(token)
        asset.balance = 0 - amount
        return asset
    raise DemeterError("unknown token")
'''

REF_BROKER_ADD = '''
def add_to_balance(self, token, amount):
    if token in self._assets:
        asset = self._assets[token]
    else:
        asset = self.__add_asset(token)
    asset.add(amount)
    return asset
'''

REF_SWAP_FROM = '''
def swap_by_from(self, from_token, to_token, amount, prices, fee_rate=Decimal("0.003")):
    assert Decimal(0) <= fee_rate and fee_rate < Decimal(1)
    got = Decimal(amount) * prices[from_token.name] * (1 - fee_rate) / prices[to_token.name]
    self.subtract_from_balance(from_token, amount)
    self.add_to_balance(to_token, got)
    if self._record_action_callback is not None:
        self._record_action_callback(BrokerSwapAction(
            market=MarketInfo("broker", type=MarketTypeEnum.broker), from_token=from_token,
            from_amount=UnitDecimal(amount, from_token.name), to_token=to_token, to_amount=UnitDecimal(got, to_token.name),
            fee_rate=fee_rate, fee=UnitDecimal(amount * fee_rate, from_token.name)))
'''

REF_SWAP_TO = '''
def swap_by_to(self, from_token, to_token, amount, prices, fee_rate=Decimal("0.003")):
    assert Decimal(0) <= fee_rate and fee_rate < Decimal(1)
    spend = Decimal(amount) * prices[to_token.name] / (1 - fee_rate) / prices[from_token.name]
    self.subtract_from_balance(from_token, spend)
    self.add_to_balance(to_token, amount)
    if self._record_action_callback is not None:
        self._record_action_callback(BrokerSwapAction(
            market=MarketInfo("broker", type=MarketTypeEnum.broker), from_token=from_token,
            from_amount=UnitDecimal(spend, from_token.name), to_token=to_token, to_amount=UnitDecimal(amount, to_token.name),
            fee_rate=fee_rate, fee=UnitDecimal(spend * fee_rate, from_token.name)))
'''


def run(model, tier="quick"):
    res = Result("C03", EXPLANATION)
    res.rules = ["R-GUARD", "R-PAIR"]
    nf, ns = run_guard(model, res)
    res.floor("functions_with_decrements", nf, 14)
    res.floor("decrement_sites", ns, 18)
    # "all argument values": the wallet primitives run backwards on a negative amount, so every operation has to reject it
    from ..rules.posarg import run_posarg
    res.rules.append("R-POS")
    n_ops, n_mov = run_posarg(model, res)
    res.floor("operations_moving_value", n_ops, 25)
    res.floor("value_movements_examined", n_mov, 300)
    fx = ["sub", "add", "subtract_from_balance", "add_to_balance", "__add_asset", "_record_action_callback"]
    effects_check(res, model, "Asset.sub", REF_ASSET_SUB, "wallet debit: overdraft rejected, dust (<1e-5 relative) snaps to zero, "
                  "no-op only when balance and amount are both zero", fx)
    effects_check(res, model, "Asset.add", REF_ASSET_ADD, "wallet credit adds the amount", fx)
    effects_check(res, model, "Broker.subtract_from_balance", REF_BROKER_SUB, "broker debit: unknown token rejected unless negative balances are allowed", fx)
    effects_check(res, model, "Broker.add_to_balance", REF_BROKER_ADD, "broker credit: creates the entry when missing", fx)
    effects_check(res, model, "Broker.swap_by_from", REF_SWAP_FROM, "broker swap by input: debit amount, credit amount*price*(1-fee)/price_to", fx)
    effects_check(res, model, "Broker.swap_by_to", REF_SWAP_TO, "broker swap by output: debit amount*price/(1-fee)/price_from, credit amount", fx)
    # payouts bounded by the position in the same units (Aave withdraw / repay-with-collateral clamp)
    from .C10 import ledgers
    ledgers(res, model, ["withdraw", "repay"])
    # "no operation raises the net value": the valuation counts every holding exactly once (formulas of C01) and the
    # Uniswap add / remove primitives move exactly the used amounts (ledgers of C07)
    from .C01 import valuation_refs
    from .C07 import uni_ledgers
    if "R-FORMULA" not in res.rules:
        res.rules.append("R-FORMULA")
    valuation_refs(res, model)
    uni_ledgers(res, model)
    # a lent LP position redeemed into its vault: the (weth, osqth) amounts the vault absorbs are the pool's amounts of
    # those tokens whatever the pool's quote token is (a swapped pair credits collateral the LP never held)
    from . import C01 as _C01
    effects_check(res, model, "SqueethMarket._redeem_uni_token", _C01.REF_REDEEM,
                  "redeemed LP: the vault absorbs the pool's weth as ETH collateral and its osqth as burned debt, by token not by position in the pair", _C01.FX)
    # compensation handlers (rollback on a rejected step) must refund exactly what was taken
    from .base_refs import base_helpers, wallet_access
    res.units["wallet_access"] = wallet_access(res, model)
    res.units["guard_primitives"] = base_helpers(res, model, ("require", "sub_base", "pm"))   # the guard forms the rule accepts
    from ..rules.rollback import rollback_rule
    res.units["compensation_handlers"] = rollback_rule(model, res)
    # every Aave figure is read through the memo caches: their typestate (no stale read, no stale exit) is a premise here
    from ..rules.cache import run_cache
    if "R-CACHE" not in res.rules:
        res.rules.append("R-CACHE")
    res.units["aave_cache_writer_methods"] = run_cache(model, res, "AaveV3Market", res.prop)[0]
    from ..rules.orientx import orientation_rule
    if "R-ORIENT" not in res.rules:
        res.rules.append("R-ORIENT")
    res.units["base_quote_pairs_consumed_outside_uniswap"] = orientation_rule(model, res)["sites"]
    # constructors establish the relations between fields that the references above take for granted
    from .ctor_refs import constructors
    res.units["constructor_references"] = constructors(res, model, ('market', 'broker', 'pool'))
    # premises: an LP position is lent to ONE vault (twice lent = counted twice = value created); the GLP fee is never
    # negative (a negative fee pays the trader)
    from . import C01 as _C01, C17 as _C17
    effects_check(res, model, "UniLpMarket.transfer_position_out", _C01.REF_TRANSFER_OUT, "lend: only an existing, not yet lent position", _C01.FX, keep_raise_effects=True)
    effects_check(res, model, "UniLpMarket.transfer_position_in", _C01.REF_TRANSFER_IN, "take back: only a lent position", _C01.FX, keep_raise_effects=True)
    formula_check(res, model, "GmxMarket.get_fee_basis_points", _C17.REF_FEE_BPS,
                  "GLP mint / burn fee: VaultUtils decision tree, hence 0 <= fee <= base + tax (never a payment to the trader)", opaque=["get_target_amount"])
    from .base_refs import write_gate
    write_gate(res, model, rule="R-PAIR")     # a closed market REJECTS an operation (never returns normally with nothing moved)
    from ..rules.fresh import fresh_rule
    if "R-FRESH" not in res.rules:
        res.rules.append("R-FRESH")
    fresh_rule(model, res, scope=('demeter/aave/', 'demeter/uniswap/', 'demeter/squeeth/', 'demeter/deribit/', 'demeter/gmx/'))
    res.assumptions = ["indices, prices and decimals are positive (used to scale guards)",
                       "payout = guarded amount is established by the per-market ledger identities (C07, C09, C10, C14, C15, C17)"]
    res.not_decided = ["conservation of the total net value over arbitrary sequences (1e-5 dust accumulation, swaps losing exactly the fee)"]
    return res


MANIFEST = {
    "technique": "guarded-decrement analysis over canonical effect paths (every holding decrement bounded by the holding on every path), sign-of-argument analysis on the same paths (R-POS: an amount parameter reaching a wallet primitive or a holding must be bounded below on that path), ledger identity of the wallet primitives, rollback-exactness of compensation handlers",
    "claim": "Every store that reduces a holding in the markets, the broker or an asset is, on every path, bounded by that "
             "holding (guard on the surviving arm, clamp, or clamp-to-zero helper), so no holding can become negative and no "
             "more than what is held can be taken; the wallet primitives and broker swaps equal their reference ledgers. "
             "Enumerated from the source, so a new unguarded decrement is reported. A scalar parameter of a user operation "
             "that reaches a wallet primitive or a holding update is rejected when negative before anything moves (20 "
             "(operation, parameter) pairs are not: listed known findings, reproduced against the real code).",
    "note": "Trusted: positivity of indices/prices; the opt-in negative-balance configuration is an explicit exception. Not "
            "decided: value conservation across operation sequences; negative amounts that reach the holdings only through "
            "opaque pool math (GmxV2Market.deposit: reproduced, not decided by R-POS).",
}
