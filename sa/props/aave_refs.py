"""Reference model of the Aave v3 market (written from the property statements C10-C12 and Aave v3's
GenericLogic / LiquidationLogic definitions); compared with the code as canonical expressions / ledgers."""

# ----------------------------------------------------------------------------- core formulas
REF_GET_AMOUNT = "def get_amount(base_amount, liquidity_index):\n    return liquidity_index * base_amount\n"
REF_GET_BASE = "def get_base_amount(amount, liquidity_index):\n    return amount / liquidity_index\n"

REF_HF = '''
def health_factor(collaterals, borrows, risk_parameters):
    weighted = Decimal(sum([v * risk_parameters.loc[t.name].reserveLiquidationThreshold for t, v in collaterals.items()]))
    debt = Decimal(sum(borrows.values()))
    if debt != 0:
        return weighted / debt
    return Decimal("inf")
'''

REF_MAX_LTV = '''
def max_ltv(collaterals, risk_parameters):
    weighted = DECIMAL_0
    for t, v in collaterals.items():
        weighted += v * risk_parameters.loc[t.name].baseLTVasCollateral
    total = Decimal(sum(collaterals.values()))
    if total != 0:
        return weighted / total
    return Decimal("inf")
'''

REF_LIQ_THRESHOLD = '''
def total_liquidation_threshold(collaterals, risk_parameters):
    total = DECIMAL_0
    weighted = DECIMAL_0
    for t, v in collaterals.items():
        total += v
        weighted += v * risk_parameters.loc[t.name].reserveLiquidationThreshold
    if total != 0:
        return weighted / total
    return Decimal("inf")
'''

REF_MAX_BORROW_VALUE = '''
def get_max_borrow_value(collaterals, borrows, risk_parameters):
    capacity = Decimal(sum(collaterals.values())) * AaveV3CoreLib.max_ltv(collaterals, risk_parameters)
    return (capacity - Decimal(sum(borrows.values()))) * Decimal("0.99")
'''

REF_MIN_KEPT = '''
def get_min_withdraw_kept_amount(token, collaterals, borrows, risk_parameters, price):
    if token not in collaterals.keys():
        return DECIMAL_0
    others = Decimal(0)
    for s, v in collaterals.items():
        if s != token:
            others += v * risk_parameters.loc[s.name].reserveLiquidationThreshold
    needed_value = (1 * Decimal(sum(borrows.values())) - others) / risk_parameters.loc[token.name].reserveLiquidationThreshold
    kept = needed_value / price
    return kept if kept > 0 else DECIMAL_0
'''

REF_SUB_BASE = '''
def sub_base_amount(old_v, value):
    left = old_v - value
    if left < 1e-18 - 1e-27:
        return 0
    return left
'''

# ----------------------------------------------------------------------------- views (right index / price of the same token)
REF_SUPPLIES_VALUE = '''
def supplies_value(self):
    if self._supplies_amount_cache.empty:
        for tok, pos in self._supplies.items():
            amount = pos.base_amount * self._market_status.data[tok.name].liquidity_index
            self._supplies_amount_cache.set(tok, amount * self._price_status[tok.name])
    return self._supplies_amount_cache.value
'''

REF_BORROWS_VALUE = '''
def borrows_value(self):
    if self._borrows_amount_cache.empty:
        for tok, pos in self._borrows.items():
            amount = pos.base_amount * self._market_status.data[tok.name].variable_borrow_index
            self._borrows_amount_cache.set(tok, amount * self._price_status[tok.name])
    return self._borrows_amount_cache.value
'''

REF_COLLATERAL_VALUE = '''
def collateral_value(self):
    if self._collaterals_amount_cache.empty:
        for tok, pos in self._supplies.items():
            if pos.collateral:
                self._collaterals_amount_cache.set(tok, self.supplies_value[tok])
    return self._collaterals_amount_cache.value
'''

REF_GET_SUPPLY = '''
def get_supply(self, token_info):
    pos = self._supplies[token_info]
    row = self._market_status.data[token_info.name]
    return Supply(token=token_info, base_amount=pos.base_amount, collateral=pos.collateral,
                  amount=pos.base_amount * row.liquidity_index, apy=AaveV3CoreLib.rate_to_apy(row.liquidity_rate),
                  value=self.supplies_value[token_info], begin_supply_index=pos.begin_supply_index)
'''

REF_GET_BORROW = '''
def get_borrow(self, borrow_key):
    pos = self._borrows[borrow_key]
    row = self._market_status.data[borrow_key.name]
    return Borrow(token=borrow_key, base_amount=pos.base_amount, amount=pos.base_amount * row.variable_borrow_index,
                  apy=AaveV3CoreLib.rate_to_apy(row.variable_borrow_rate), value=self.borrows_value[borrow_key],
                  begin_borrow_index=pos.begin_borrow_index)
'''

REF_MAX_WITHDRAW = '''
def get_max_withdraw_amount(self, token_info):
    kept = AaveV3CoreLib.get_min_withdraw_kept_amount(token_info, self.collateral_value, self.borrows_value,
                                                      self._risk_parameters, self._price_status[token_info.name])
    return self.supplies[token_info].amount - kept
'''

REF_MAX_BORROW = '''
def get_max_borrow_amount(self, token_info):
    return AaveV3CoreLib.get_max_borrow_value(self.collateral_value, self.borrows_value, self.risk_parameters) / self._price_status[token_info.name]
'''

# ----------------------------------------------------------------------------- operations (ledgers)
REF_SUPPLY = '''
def supply(self, token_info, amount, collateral=True):
    if collateral:
        require(self._risk_parameters.loc[token_info.name].usageAsCollateralEnabled, "not usable as collateral")
    row = self._market_status.data[token_info.name]
    scaled = amount / row.liquidity_index
    if token_info in self._supplies:
        require(self._supplies[token_info].collateral == collateral, "flag differs")
    self.broker.subtract_from_balance(token_info, amount)
    if token_info not in self._supplies:
        self._supplies[token_info] = SupplyInfo(base_amount=Decimal(0), collateral=collateral, begin_supply_index=row.liquidity_index)
    self._supplies[token_info].base_amount += scaled
    self._supplies_amount_cache.reset()
    self._supplies_cache.reset()
    self._collaterals_amount_cache.reset()
    self._record_action(SupplyAction(
        market=self.market_info, token=token_info.name, amount=UnitDecimal(amount, token_info.name), collateral=collateral,
        deposit_after=UnitDecimal(self._supplies[token_info].base_amount * row.liquidity_index, token_info.name)))
'''

REF_WITHDRAW = '''
def withdraw(self, token_info, amount=None):
    row = self._market_status.data[token_info.name]
    held = self.get_supply(token_info)
    if amount is None:
        amount = held.amount
    require(amount != 0, "zero")
    require(amount <= held.amount, "more than supplied")
    if self._supplies[token_info].collateral:
        saved = self._supplies[token_info].base_amount
        self._supplies[token_info].base_amount -= amount / self._market_status.data[token_info.name].liquidity_index
        self._supplies_amount_cache.reset()
        self._collaterals_amount_cache.reset()
        if self.health_factor < 1:
            self._supplies[token_info].base_amount = saved
            self._supplies_amount_cache.reset()
            self._collaterals_amount_cache.reset()
            raise AssertionError("unsafe")
        self._supplies[token_info].base_amount = saved
    left = self.__sub_supply_amount(token_info, amount)
    self.broker.add_to_balance(token_info, amount)
    self._record_action(WithdrawAction(
        market=self.market_info, token=token_info.name, amount=UnitDecimal(amount, token_info.name),
        deposit_after=UnitDecimal(left * row.liquidity_index, token_info.name)))
'''

REF_BORROW = '''
def borrow(self, token_info, amount=None):
    if amount is None:
        amount = self.get_max_borrow_amount(token_info)
    row = self._market_status.data[token_info.name]
    require(self._risk_parameters.loc[token_info.name, "borrowingEnabled"], "borrowing disabled")
    collateral = sum(self.collateral_value.values())
    require(collateral != 0, "no collateral")
    ltv = self.max_ltv
    require(ltv != 0, "ltv zero")
    require(self.health_factor > 1, "unhealthy")
    new_debt_value = amount * self._price_status.loc[token_info.name]
    require((sum([b.value for b in self.borrows.values()]) + new_debt_value) / ltv <= collateral, "exceeds ltv")
    scaled = amount / row.variable_borrow_index
    if token_info not in self._borrows:
        self._borrows[token_info] = BorrowInfo(DECIMAL_0, row.variable_borrow_index)
    self._borrows[token_info].base_amount += scaled
    self.broker.add_to_balance(token_info, amount)
    self._borrows_amount_cache.reset()
    self._borrows_cache.reset()
    self._record_action(BorrowAction(
        market=self.market_info, token=token_info.name, amount=UnitDecimal(amount, token_info.name),
        debt_after=UnitDecimal(self._borrows[token_info].base_amount * row.variable_borrow_index, token_info.name)))
'''

REF_REPAY = '''
def repay(self, borrow_token, payback_amount=None, repay_with_collateral=False, repay_collateral_token=None):
    row = self._market_status.data[borrow_token.name]
    debt = self.get_borrow(borrow_token)
    if payback_amount is None:
        payback_amount = debt.amount
    if repay_with_collateral:
        if repay_collateral_token is None:
            repay_collateral_token = borrow_token
        require(repay_collateral_token in self.supplies.keys(), "not supplied")
        require(self.supplies[repay_collateral_token].collateral, "not collateral")
        needed = self._get_swap_amount(borrow_token, repay_collateral_token, payback_amount)
        held = self.get_supply(repay_collateral_token)
        if needed > held.amount:
            payback_amount = self._get_swap_amount(repay_collateral_token, borrow_token, held.amount)
    scaled = payback_amount / row.variable_borrow_index
    require(scaled > 0, "zero")
    require(self._borrows[borrow_token].base_amount > 0, "no debt")
    require(round(self._borrows[borrow_token].base_amount - scaled, 18) >= 0, "exceeds debt")
    if repay_with_collateral:
        self.__sub_supply_amount(repay_collateral_token, self._get_swap_amount(borrow_token, repay_collateral_token, payback_amount))
    else:
        self.broker.subtract_from_balance(borrow_token, payback_amount)
    left = self.__sub_borrow_amount(borrow_token, payback_amount)
    self._record_action(RepayAction(
        market=self.market_info, token=borrow_token.name, amount=UnitDecimal(payback_amount, borrow_token.name),
        debt_after=UnitDecimal(left * row.variable_borrow_index, borrow_token.name)))
'''

REF_SWAP_AMOUNT = '''
def _get_swap_amount(self, from_token, to_token, amount, swap_fee=0):
    value = amount * self._price_status.loc[from_token.name]
    return value * (1 - swap_fee) / self._price_status.loc[to_token.name]
'''

REF_SUB_SUPPLY = '''
def __sub_supply_amount(self, token_info, amount):
    if token_info not in self._supplies:
        if amount == Decimal(0):
            return Decimal(0)
        raise DemeterError("unknown supply")
    self._supplies[token_info].base_amount = helper.sub_base_amount(
        self._supplies[token_info].base_amount, amount / self._market_status.data[token_info.name].liquidity_index)
    if self._supplies[token_info].collateral:
        self._collaterals_amount_cache.reset()
    self._supplies_amount_cache.reset()
    self._supplies_cache.reset()
    if self._supplies[token_info].base_amount == DECIMAL_0:
        if self._supplies[token_info].collateral:
            self._collaterals_amount_cache.reset()
        del self._supplies[token_info]
        return DECIMAL_0
    return self._supplies[token_info].base_amount
'''

REF_SUB_BORROW = '''
def __sub_borrow_amount(self, token_info, amount):
    if token_info not in self._borrows:
        if amount == Decimal(0):
            return Decimal(0)
        raise DemeterError("unknown debt")
    self._borrows[token_info].base_amount = helper.sub_base_amount(
        self._borrows[token_info].base_amount, amount / self._market_status.data[token_info.name].variable_borrow_index)
    self._borrows_amount_cache.reset()
    self._borrows_cache.reset()
    if self._borrows[token_info].base_amount == DECIMAL_0:
        del self._borrows[token_info]
        return DECIMAL_0
    return self._borrows[token_info].base_amount
'''

REF_CHANGE_COLLATERAL = '''
def change_collateral(self, token_info, collateral):
    before = self._supplies[token_info].collateral
    if before == collateral:
        return
    self._supplies[token_info].collateral = collateral
    self._collaterals_amount_cache.reset()
    self._supplies_cache.reset()
    if (not collateral) and self.health_factor < 1:
        self._supplies[token_info].collateral = before
        self._collaterals_amount_cache.reset()
        self._supplies_cache.reset()
        raise AssertionError("unsafe")
'''

# liquidation step written from LiquidationLogic.executeLiquidationCall / _calculateAvailableCollateralToLiquidate
REF_DO_LIQUIDATE = '''
def _do_liquidate(self, collateral_token, delt_token, delt_value_to_cover):
    hf = self.health_factor
    debt_index = self._market_status.data[delt_token.name].variable_borrow_index
    coll_index = self._market_status.data[collateral_token.name].liquidity_index
    bonus = self._risk_parameters.loc[collateral_token.name].reserveLiquidationBonus
    if delt_token in self._borrows:
        debt = self.get_borrow(delt_token).amount
    else:
        debt = DECIMAL_0
    if hf > Decimal("0.95"):
        close_factor = Decimal("0.5")
    else:
        close_factor = Decimal("1")
    cap = debt * close_factor
    repay = cap if delt_value_to_cover > cap else delt_value_to_cover
    require(self._risk_parameters.loc[collateral_token.name].reserveLiquidationThreshold != 0
            and self._supplies[collateral_token].collateral, "collateral cannot be liquidated")
    require(debt != DECIMAL_0, "no debt")
    balance = self._supplies[collateral_token].base_amount * coll_index
    p_debt = self._price_status.loc[delt_token.name]
    p_coll = self._price_status.loc[collateral_token.name]
    seize = p_debt * repay / p_coll * (1 + bonus)
    if seize > balance:
        seize = balance
        repay = (p_coll * balance) / (p_debt * (1 + bonus))
    self._supplies[collateral_token].base_amount = helper.sub_base_amount(
        self._supplies[collateral_token].base_amount, seize / coll_index)
    if self._supplies[collateral_token].base_amount == 0:
        del self._supplies[collateral_token]
    if debt >= repay:
        left = self.__sub_borrow_amount(delt_token, repay)
    else:
        raise DemeterError("unreachable")
    self._borrows_amount_cache.reset()
    self._borrows_cache.reset()
    self._supplies_amount_cache.reset()
    self._supplies_cache.reset()
    self._collaterals_amount_cache.reset()
    if collateral_token in self._supplies:
        coll_left = self._supplies[collateral_token].base_amount
    else:
        coll_left = DECIMAL_0
    self._record_action(LiquidationAction(
        market=self.market_info, collateral_token=collateral_token.name, debt_token=delt_token.name,
        delt_to_cover=UnitDecimal(delt_value_to_cover, delt_token.name),
        collateral_used=UnitDecimal(seize, collateral_token.name),
        variable_delt_liquidated=UnitDecimal(repay, delt_token.name),
        health_factor_before=hf, health_factor_after=self.health_factor,
        collateral_after=UnitDecimal(coll_left * coll_index, collateral_token.name),
        variable_debt_after=UnitDecimal(left * debt_index, delt_token.name)))
'''

# The bar-end liquidation procedure (statement C12): while 0 < HF < 1 pick the smallest not-yet-visited debt and the
# largest collateral (the pair policy is the code's; the statement leaves it open), stop when there is no such pair,
# mark the debt as visited BEFORE the attempt - unconditionally -, attempt one step (a rejected step is skipped), and
# re-read the health factor.
REF_LIQUIDATE = '''
def _liquidate(self):
    hf = self.health_factor
    visited = []
    while 0 < hf < 1:
        debts = self.borrows
        colls = self.supplies
        debt_key = None
        debt_value = Decimal(10e21)
        for k, v in debts.items():
            if k not in visited and v.value <= debt_value:
                debt_value = v.value
                debt_key = k
        coll_key = None
        coll_value = Decimal(0)
        for k, v in colls.items():
            if v.collateral and v.value >= coll_value:
                coll_value = v.value
                coll_key = k
        if debt_key is None or coll_key is None:
            break
        visited.append(debt_key)
        try:
            self._do_liquidate(coll_key, debt_key, debt_value)
        except AssertionError:
            pass
        hf = self.health_factor
'''

# ---- derived views (C13): the formulas of the views that are not risk figures (those are C11) ----
REF_LTV = '''
def ltv(self):
    if self.total_supply_value == DECIMAL_0:
        return Decimal("inf")
    return self.total_borrows_value / self.total_supply_value
'''

REF_GET_APY = '''
def get_apy(amounts, rate_dict):
    if len(amounts) == 0:
        return DECIMAL_0
    weighted = Decimal(sum([amounts[k] * AaveV3CoreLib.rate_to_apy(rate_dict[k]) for k in amounts]))
    total = Decimal(sum(amounts.values()))
    return AaveV3CoreLib.safe_div_zero(weighted, total)
'''

REF_SAFE_ROUNDING = '''
def safe_rounding(a, rounding):
    return a if a == Decimal("inf") or a == Decimal("nan") else a.quantize(rounding)
'''

REF_RATE_TO_APY = '''
def rate_to_apy(rate):
    return (1 + rate / AaveV3CoreLib.SECONDS_IN_A_YEAR) ** AaveV3CoreLib.SECONDS_IN_A_YEAR - 1
'''

REF_SAFE_DIV = '''
def safe_div_zero(a, b):
    if b != 0:
        return a / b
    return Decimal(0)
'''

REF_TOTAL_APY = '''
def total_apy(self):
    s = self.total_supply_value
    b = self.total_borrows_value
    return AaveV3CoreLib.safe_div_zero(self.supply_apy * s - self.borrow_apy * b, s - b)
'''

# a new bar: the base class stores the prices / flags, the row of THIS bar is loaded unless supplied, and all five memo
# caches are emptied
REF_AAVE_SET_STATUS = '''
def set_market_status(self, data, price):
    super().set_market_status(data, price)
    if data.data is None:
        data.data = self.data.loc[data.timestamp]
    self._market_status = data
    self._supplies_cache.reset()
    self._borrows_cache.reset()
    self._supplies_amount_cache.reset()
    self._borrows_amount_cache.reset()
    self._collaterals_amount_cache.reset()
'''

REF_SUPPLIES_VIEW = '''
def supplies(self):
    if self._supplies_cache.empty:
        for k in self._supplies:
            self._supplies_cache.set(k, self.get_supply(k))
    return self._supplies_cache.value
'''
REF_BORROWS_VIEW = '''
def borrows(self):
    if self._borrows_cache.empty:
        for k in self._borrows:
            self._borrows_cache.set(k, self.get_borrow(k))
    return self._borrows_cache.value
'''
REF_SUPPLY_APY = '''
def supply_apy(self):
    rates = {}
    for k in self.supplies.keys():
        rates[k] = self._market_status.data[k.name].liquidity_rate
    return AaveV3CoreLib.get_apy(self.supplies_value, rates)
'''
REF_BORROW_APY = '''
def borrow_apy(self):
    rates = {}
    for k in self._borrows.keys():
        rates[k] = self._market_status.data[k.name].variable_borrow_rate
    return AaveV3CoreLib.get_apy(self.borrows_value, rates)
'''
