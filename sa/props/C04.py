"""C04 -- a rejected operation leaves wallet, positions, order book and action log intact."""
from __future__ import annotations

from ..report import Result
from ..rules.atom import run_atom
from ..state import unclassified_fields

EXPLANATION = (
    "Static failure-atomicity analysis (R-ATOM). Every public state-changing method of the six Market subclasses "
    "and of Broker is analysed as a transaction: its body is walked syntax-directed with all resolved callees "
    "inlined (wallet primitives, require, write_func gate, private helpers; depth<=8), over the powerset of "
    "abstract states (set of user-state writes not yet rolled back + key-membership / gate facts), so every path "
    "is covered. A violation is an uncaught rejection exit (raise/require/assert/gate) reachable after a write to "
    "holdings, wallet, visible order book or action log that is not undone (saved-copy restore idiom recognised). "
    "Multi-step helpers are split at the constituent boundaries listed in rules/atom.py:BOUNDARIES. Decides the "
    "ordering clause for every operation and every modelled rejection cause; does not model KeyError/TypeError/"
    "Decimal exceptions as rejection causes."
)


def run(model, tier="quick"):
    res = Result("C04", EXPLANATION)
    res.rules = ["R-ATOM"]
    n = run_atom(model, res, "C04", max_depth=8 if tier == "quick" else 10)
    res.floor("operations_with_state_writes", n, 30)
    # the visible order book is a cell of the status row holding level LISTS: a rejected operation leaves it intact only
    # if no in-place mutation can reach those lists (R-ATOM sees stores to state paths, not mutations through aliases)
    from ..rules.alias import cell_mutation_rule
    res.rules.append("R-INPUT")
    mutating, _nf = cell_mutation_rule(model, res)
    res.ob("R-INPUT", f"no in-place mutation reaches the order-book level lists (parameter-mutating functions: {sorted(mutating)})",
           "demeter/deribit/", ok=_nf == 0)
    from ..rules.rollback import rollback_rule
    res.rules.append("R-PAIR")
    res.units["compensation_handlers"] = rollback_rule(model, res)
    # positions and debts are READ through the Aave memo caches (market.supplies / borrows): a rejection that leaves a
    # cache stale shows the user positions that differ from before the call although the raw state was restored
    from ..rules.cache import run_cache
    res.rules.append("R-CACHE")
    res.units["aave_cache_writer_methods"] = run_cache(model, res, "AaveV3Market", res.prop)[0]
    uncl = unclassified_fields(model)
    if uncl:
        res.notes.append("unclassified fields treated as holdings: " + ", ".join(uncl))
    # constructors establish the relations between fields that the references above take for granted
    from .ctor_refs import constructors
    res.units["constructor_references"] = constructors(res, model, ('market', 'broker'))
    from ..rules.fresh import fresh_rule
    if "R-FRESH" not in res.rules:
        res.rules.append("R-FRESH")
    fresh_rule(model, res, scope=('demeter/aave/', 'demeter/uniswap/', 'demeter/squeeth/', 'demeter/deribit/', 'demeter/gmx/'))
    res.assumptions = [
        "exceptions other than raise/assert/require (KeyError, TypeError, Decimal signals) are not rejection causes",
        "field classification table sa/state.py (holding/status/memo/config) confirmed by reading each __init__",
        "write_func is modelled as: gate on is_open before the call, has_update=True after it returns",
    ]
    res.not_decided = ["rejections through implicit exceptions (unknown key, wrong type)"]
    return res

MANIFEST = {
    "technique": "static failure-atomicity analysis: write-before-rejection dataflow over inlined operation bodies (ast abstract interpretation), plus cell-object mutation (alias) analysis for the order book a rollback-exactness rule for compensation handlers, and the memo-cache typestate at rejection exits (reported positions)",
    "claim": "Static analysis of all paths of every public state-changing operation of the six markets and the broker "
             "(callees inlined, powerset of abstract states): no write to holdings, wallet, visible order book or action "
             "log precedes a reachable rejection (raise/require/assert/closed-market gate) without rollback. Decides the "
             "ordering clause of C04 for every operation and every modelled rejection cause; a finding names the write "
             "and the rejection construct. The remaining genuine defects (Squeeth check-after-mutate, two-token debits) "
             "are listed as known findings keyed by (write, rejection) construct.",
    "note": "Trusted: call resolver and field-type table (sa/model.py), state classification (sa/state.py), constituent "
            "boundaries and the two structural invariants (rules/atom.py: position ticks validated on creation, position "
            "implies wallet entries) which are re-checked on every run. Not decided: rejections through implicit "
            "exceptions (KeyError, TypeError, Decimal signals).",
}
