"""References for constructors and reset functions: they establish the relations between fields that every other
reference takes for granted (base / quote of a pool, an empty book of positions, fresh caches, an empty wallet).  A
reference for an operation treats `self.base_token`, `self._is_token0_quote`, `self._supplies` ... as opaque fields; a
constructor that sets them inconsistently breaks every property built on them without changing any operation."""
from __future__ import annotations

from ..rules.formula import effects_check, formula_check

# which token is base: the quote token is the one the user names; base is the OTHER one; is_token0_quote says which side
REF_POOL_INIT = '''
def __init__(self, token0, token1, fee, quote_token):
    fee = Decimal(str(fee))
    self.token0 = token0
    self.token1 = token1
    self.is_token0_quote = quote_token == token0
    self.quote_token = quote_token
    if quote_token == token0:
        self.base_token = token1
    else:
        self.base_token = token0
    self.tick_spacing = int(fee * 200)
    self.fee = fee * Decimal(10000)
    self.fee_rate = Decimal(fee) / Decimal(100)
'''
REF_UNI_INIT = '''
def __init__(self, market_info, pool_info, data=None, data_path="./data"):
    super().__init__(market_info=market_info, data=data, data_path=data_path)
    self._pool = pool_info
    self._is_token0_quote = pool_info.is_token0_quote
    pair = self._convert_pair(self.pool_info.token0, self.pool_info.token1)       # pool_info is the pool just stored
    self.base_token = pair[0]
    self.quote_token = pair[1]
    self._positions = {}
    self._pool_price_unit = f"{pair[0].name}/{pair[1].name}"
    self.last_tick = None
'''
REF_CONVERT_PAIR = '''
def _convert_pair(self, any0, any1):
    if self._is_token0_quote:
        return any1, any0
    return any0, any1
'''
REF_MARKET_INIT = '''
def __init__(self, market_info, data=None, data_path="./data"):
    self._data = data
    self.data_path = data_path
    self._market_info = market_info
    self.broker = None
    self._record_action_callback = None
    self.logger = logging.getLogger(__name__)
    self._market_status = MarketStatus(None, pd.Series())
    self._price_status = None
    self.has_update = False
    self.open = None
    self.is_open = True
    self.quote_token = USD
'''
REF_BROKER_INIT = '''
def __init__(self, allow_negative_balance=False, record_action_callback=None):
    self.allow_negative_balance = allow_negative_balance
    self._assets = AssetDict()
    self._markets = MarketDict()
    self._record_action_callback = record_action_callback
    self.quote_token = None
'''
REF_ASSET_INIT = '''
def __init__(self, token, init_amount=Decimal(0)):
    self.token_info = token
    self.name = token.name
    self.decimal = token.decimal
    self.balance = init_amount
'''
REF_AAVE_INIT = '''
def __init__(self, market_info, risk_parameters_path, tokens=None, data=None, data_path="./data"):
    super().__init__(market_info=market_info, data=data, data_path=data_path)
    if tokens is None:
        tokens = []
    self._supplies = {}
    self._borrows = {}
    self._risk_parameters = helper.load_risk_parameter(risk_parameters_path)
    self._collaterals_amount_cache = DictCache()
    self._supplies_amount_cache = DictCache()
    self._supplies_cache = DictCache()
    self._borrows_amount_cache = DictCache()
    self._borrows_cache = DictCache()
    self._market_status = None
    self._tokens = set()
    self.add_token(tokens)
'''
REF_SQUEETH_INIT = '''
def __init__(self, market_info, squeeth_uni_pool, data=None, data_path="./data"):
    super().__init__(market_info=market_info, data=data, data_path=data_path)
    self._network = ETH_MAINNET
    self._squeeth_uni_pool = squeeth_uni_pool
    self.vault = {}
    self._max_vault_id = 0
'''
REF_DERIBIT_INIT = '''
def __init__(self, market_info, token, data=None, data_path="./data"):
    super().__init__(market_info=market_info, data=data, data_path=data_path)
    self.token = token
    self.token_config = DeribitOptionMarket.TOKEN_CONFIGS[token]
    self.positions = {}
    self.decimal = DeribitOptionMarket.TOKEN_CONFIGS[token].min_fee_decimal
    self._balance_cache = None
    self.balance = Decimal(0)
    self.quote_token = token
'''
REF_GMX2_INIT = '''
def __init__(self, market_info, pool, data=None, data_path="./data"):
    super().__init__(market_info=market_info, data=data, data_path=data_path)
    self.pool = pool
    self.amount = 0.0
    self.pool_config = PoolConfig(pool.long_token.decimal, pool.short_token.decimal)
'''
# collateral ratio = effective collateral / debt at the TWAP ETH price; liquidation price = collateral / (1.5 x debt per ETH price)
REF_COLLAT_RATIO = '''
def get_collat_ratio_and_liq_price(self, vault_key):
    nf = self.get_norm_factor()
    coll = self._get_effective_collateral_in_eth(vault_key)
    eth_price = self.get_twap_price(WETH)
    per_price = self.vault[vault_key].osqth_short_amount * nf / SqueethMarket.INDEX_SCALE
    debt = per_price * eth_price
    if debt == 0:
        return DECIMAL_0, DECIMAL_0
    return coll / debt, coll / (per_price * Decimal("1.5"))
'''

FX = ["add_token", "load_risk_parameter", "getLogger"]

TABLE = {
    "pool": [("UniV3Pool.__init__", REF_POOL_INIT, "pool: base is the token that is NOT the quote token; is_token0_quote says which side; spacing and fee from the fee tier"),
             ("UniLpMarket.__init__", REF_UNI_INIT, "Uniswap market: orientation copied from the pool, (base, quote) by _convert_pair, empty book, no previous tick"),
             ("UniLpMarket._convert_pair", REF_CONVERT_PAIR, "(token0, token1) -> (base, quote): swapped iff token0 is the quote token")],
    "market": [("Market.__init__", REF_MARKET_INIT, "market base: no data status, open, no pending update, quoted in USD")],
    "broker": [("Broker.__init__", REF_BROKER_INIT, "broker: own empty wallet and market containers"),
               ("Asset.__init__", REF_ASSET_INIT, "wallet entry: the token's own name / decimals, the given balance")],
    "aave": [("AaveV3Market.__init__", REF_AAVE_INIT, "Aave market: empty positions, five OWN empty memo caches, registered tokens")],
    "squeeth": [("SqueethMarket.__init__", REF_SQUEETH_INIT, "Squeeth market: no vaults, ids from 1"),
                ("SqueethMarket.get_collat_ratio_and_liq_price", REF_COLLAT_RATIO, "collateral ratio and liquidation price of a vault")],
    "deribit": [("DeribitOptionMarket.__init__", REF_DERIBIT_INIT, "option market: config of ITS token, no positions, no cash, no memo, quoted in its token")],
    "gmx2": [("GmxV2Market.__init__", REF_GMX2_INIT, "GM market: no shares, pool config from the long / short token decimals")],
}


def constructors(res, model, which):
    n = 0
    for w in which:
        for q, ref, what in TABLE[w]:
            if q.endswith("get_collat_ratio_and_liq_price"):
                formula_check(res, model, q, ref, what, opaque=["get_norm_factor", "_get_effective_collateral_in_eth", "get_twap_price"])
            elif q.endswith("_convert_pair"):
                formula_check(res, model, q, ref, what)
            else:
                effects_check(res, model, q, ref, "constructor - " + what, FX, ordered=False)
            n += 1
    return n
