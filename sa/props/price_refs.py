"""References for the price feeds the valuation reads (`get_price_from_data` of the markets): WHICH token a price column
belongs to.  The account value multiplies each wallet balance by the column named after the token and converts each
market's value by the column of its quote token (C01); a mirrored pool must yield the same feed up to the token order
(C09).  Written by meaning: the column of the BASE token carries the pool price, the QUOTE token's column is 1."""
from __future__ import annotations

from ..rules.formula import effects_check, formula_check

REF_UNI_PRICES = '''
def get_price_from_data(data, pool_info):
    series = data.price
    frame = pd.DataFrame(index=series.index, data={pool_info.base_token.name: series})
    frame[pool_info.quote_token.name] = 1
    return frame, pool_info.quote_token
'''

# Squeeth: both columns in USD; the oSQTH column of the data is quoted in ETH, so USD = osqth_in_eth * eth_in_usd
REF_SQUEETH_PRICES = '''
def get_price_from_data(data):
    frame = data[[WETH.name, oSQTH.name]].copy()
    frame[oSQTH.name] = frame[oSQTH.name] * frame[WETH.name]
    return frame
'''

# GM pool: long / short price columns named after the pool's long / short token; the index token's own column only when
# it is a different token
REF_GMX2_PRICES = '''
def get_price_from_v2_data(data, pool):
    frame = data[["longPrice", "shortPrice"]]
    frame = frame.rename(columns={"longPrice": pool.long_token.name, "shortPrice": pool.short_token.name})
    if pool.long_token != pool.index_token:
        frame[pool.index_token.name] = data["indexPrice"]
    return frame
'''


def price_feeds(res, model, which=("uniswap", "squeeth", "gmx2")):
    n = 0
    if "uniswap" in which:
        effects_check(res, model, "uniswap.helper.get_price_from_data", REF_UNI_PRICES,
                      "price feed of a pool: the BASE token's column is the pool price, the QUOTE token's column is 1, quoted in the quote token", [],
                      rule="R-TOKEN")
        n += 1
    if "squeeth" in which:
        effects_check(res, model, "squeeth.helper.get_price_from_data", REF_SQUEETH_PRICES,
                      "price feed of the Squeeth market: WETH in USD, oSQTH in USD = its ETH price times the ETH price", [], rule="R-TOKEN")
        n += 1
    if "gmx2" in which:
        effects_check(res, model, "gmx.helper2.get_price_from_v2_data", REF_GMX2_PRICES,
                      "price feed of a GM pool: columns named after the pool's own long / short / index tokens", [], rule="R-TOKEN")
        n += 1
    return n


# the actuator's price table: the caller's frame (a series becomes a one-column frame; a (frame, quote) pair as the
# Uniswap feed returns it is taken apart), every cell a Decimal, a USD column of 1, appended to what was set before; the
# broker's quote token is set once and a different one later is rejected
REF_SET_PRICE = '''
def set_price(self, prices, quote_token=None):
    if isinstance(prices, pd.DataFrame):
        quote = quote_token if quote_token is not None else USD
        table = prices
    elif isinstance(prices, Tuple):
        quote = prices[1]
        table = prices[0]
    else:
        quote = quote_token if quote_token is not None else USD
        table = pd.DataFrame(data=prices, index=prices.index)
    table = table.map(lambda cell: to_decimal(cell))
    table[USD.name] = 1
    if self._token_prices is None:
        self._token_prices = table
    else:
        self._token_prices = pd.concat([self._token_prices, table])
    if self.broker.quote_token is None:
        self.broker.quote_token = quote
    elif self.broker.quote_token != quote:
        raise DemeterError("quote token differs")
'''


def price_table(res, model):
    effects_check(res, model, "Actuator.set_price", REF_SET_PRICE,
                  "price table: cells as Decimals, USD = 1, appended; the account's quote token is fixed by the first feed", [],
                  opaque=["to_decimal"], keep_raise_effects=True, rule="R-TOKEN")
    return 1
