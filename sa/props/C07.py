"""C07 -- liquidity/amount math: no over-spend, maximal, one-sided out of range, exact."""
from __future__ import annotations

from ..norm import srepr as srepr_

import ast

from ..model import AnalysisError
from ..report import Result
from ..rules.formula import effects_check, formula_check
from ..vn import Ctx, Evaluator, Unreadable, sym

EXPLANATION = (
    "Formula identity with Uniswap v3 LiquidityAmounts / SqrtPriceMath written as references: amount0 = L*2^96*(B-A)/(B*A)/"
    "10^d0, amount1 = L*(B-A)/2^96/10^d1 (bounds swapped into order), liquidity for amount0 = floor(x*floor(A*B/2^96)/(B-A)), "
    "for amount1 = floor(x*2^96/(B-A)), mul_div floors, to_wei truncates; get_liquidity and get_amounts split the price "
    "line identically (P <= A: token0 only; A < P < B: both, liquidity = MIN of the two sides; else token1 only) with zeros "
    "on the off side. new_position derives the used amounts from the minted liquidity with the same bounds and price; "
    "close_position uses the same get_amounts. R-SIB: add and remove derive the default sqrt price from the same status "
    "price with the same decimals/orientation (all call sites of the price->sqrt helper in the market have identical "
    "canonical arguments), so a same-price round trip returns the deposit. From these identities follow: used <= offered "
    "up to the floors, one-sidedness, proportionality in L, agreement with the closed forms."
)

L = "uniswap.liquitidy_math."
REFS = [
    (L + "mul_div", "def f(a, b, denominator):\n    return (a * b) // denominator\n", "mul_div floors"),
    (L + "to_wei", "def f(amount, decimals):\n    return int(amount * 10**decimals)\n", "to_wei truncates the scaled amount"),
    (L + "get_amount0", '''
def f(sqrtA, sqrtB, liquidity, decimals):
    lo = sqrtA if sqrtA < sqrtB else sqrtB
    hi = sqrtB if sqrtA < sqrtB else sqrtA
    return Decimal(liquidity * 2**96 * (hi - lo)) / (hi * lo) / 10**decimals
''', "amount0 = L*2^96*(B-A)/(B*A)/10^d"),
    (L + "get_amount1", '''
def f(sqrtA, sqrtB, liquidity, decimals):
    lo = sqrtA if sqrtA < sqrtB else sqrtB
    hi = sqrtB if sqrtA < sqrtB else sqrtA
    return Decimal(liquidity * (hi - lo)) / 2**96 / 10**decimals
''', "amount1 = L*(B-A)/2^96/10^d"),
    (L + "get_liquidity_for_amount0", '''
def f(sqrtA, sqrtB, amount):
    lo = sqrtA if sqrtA < sqrtB else sqrtB
    hi = sqrtB if sqrtA < sqrtB else sqrtA
    return (amount * ((lo * hi) // 2**96)) // (hi - lo)
''', "L0 = floor(x*floor(A*B/2^96)/(B-A))"),
    (L + "get_liquidity_for_amount1", '''
def f(sqrtA, sqrtB, amount):
    lo = sqrtA if sqrtA < sqrtB else sqrtB
    hi = sqrtB if sqrtA < sqrtB else sqrtA
    return (amount * 2**96) // (hi - lo)
''', "L1 = floor(x*2^96/(B-A))"),
    (L + "get_liquidity", '''
def f(sqrt_price_x96, tickA, tickB, amount0, amount1, decimal0, decimal1):
    a = get_sqrt_ratio_at_tick(tickA)
    b = get_sqrt_ratio_at_tick(tickB)
    lo = a if a < b else b
    hi = b if a < b else a
    x0 = to_wei(amount0, decimal0)
    x1 = to_wei(amount1, decimal1)
    p = sqrt_price_x96
    if p <= lo:
        return get_liquidity_for_amount0(lo, hi, x0)
    if hi > p and p > lo:
        l0 = get_liquidity_for_amount0(p, hi, x0)
        l1 = get_liquidity_for_amount1(lo, p, x1)
        return min(l0, l1)
    return get_liquidity_for_amount1(lo, hi, x1)
''', "liquidity: token0 only below, MIN of both sides inside, token1 only above"),
    (L + "get_amounts", '''
def f(sqrt_price_x96, tickA, tickB, liquidity, decimal0, decimal1):
    a = get_sqrt_ratio_at_tick(tickA)
    b = get_sqrt_ratio_at_tick(tickB)
    lo = a if a < b else b
    hi = b if a < b else a
    p = sqrt_price_x96
    if p <= lo:
        return get_amount0(lo, hi, liquidity, decimal0), Decimal(0)
    if hi > p and p > lo:
        return get_amount0(p, hi, liquidity, decimal0), get_amount1(lo, p, liquidity, decimal1)
    return Decimal(0), get_amount1(lo, hi, liquidity, decimal1)
''', "amounts: same three-way split as get_liquidity, zero on the off side"),
    ("V3CoreLib.new_position", '''
def f(pool, token0_amount, token1_amount, lower_tick, upper_tick, sqrt_price_x96):
    liq = get_liquidity(sqrt_price_x96, lower_tick, upper_tick, token0_amount, token1_amount, pool.token0.decimal, pool.token1.decimal)
    used = get_amounts(sqrt_price_x96, lower_tick, upper_tick, liq, pool.token0.decimal, pool.token1.decimal)
    return used[0], used[1], int(liq), PositionInfo(lower_tick=lower_tick, upper_tick=upper_tick)
''', "used amounts are derived from the minted liquidity at the same price and bounds"),
    ("V3CoreLib.get_token_amounts", '''
def f(pool, pos, sqrt_price_x96, liquidity):
    if liquidity == 0:
        return 0, 0
    r = get_amounts(sqrt_price_x96, pos.lower_tick, pos.upper_tick, liquidity, pool.token0.decimal, pool.token1.decimal)
    return r[0], r[1]
''', "position amounts from the same get_amounts"),
    ("V3CoreLib.close_position", "def f(pool, position_info, liquidity, sqrt_price_x96):\n    return V3CoreLib.get_token_amounts(pool, position_info, sqrt_price_x96, liquidity)\n",
     "closing returns the position amounts"),
]

REF_REMOVE = '''
def __remove_liquidity(self, position, liquidity=None, sqrt_price_x96=-1):
    if sqrt_price_x96 != -1:
        p = int(sqrt_price_x96)
    else:
        p = base_unit_price_to_sqrt_price_x96(self.market_status.data.price, self.pool_info.token0.decimal,
                                              self.pool_info.token1.decimal, self.pool_info.is_token0_quote)
    held = self.positions[position].liquidity
    if (liquidity is not None) and liquidity < held:
        delta = liquidity
    else:
        delta = held
    got = V3CoreLib.close_position(self._pool, position, delta, p)
    self._positions[position].liquidity = self.positions[position].liquidity - delta
    self._positions[position].pending_amount0 += got[0]
    self._positions[position].pending_amount1 += got[1]
    return got[0], got[1], delta
'''

REF_ADD = '''
def _add_liquidity_by_tick(self, token0_amount, token1_amount, lower_tick, upper_tick, sqrt_price_x96=-1):
    lower_tick = int(lower_tick)
    upper_tick = int(upper_tick)
    require(lower_tick % self.pool_info.tick_spacing == 0 and upper_tick % self.pool_info.tick_spacing == 0, "spacing")
    p = int(sqrt_price_x96)
    if p == -1:
        p = base_unit_price_to_sqrt_price_x96(self.market_status.data.price, self._pool.token0.decimal,
                                              self._pool.token1.decimal, self._is_token0_quote)
    if lower_tick > upper_tick:
        raise DemeterError("order")
    made = V3CoreLib.new_position(self._pool, token0_amount, token1_amount, lower_tick, upper_tick, p)
    key = made[3]
    self.broker.subtract_from_balance(self.token0, made[0])
    self.broker.subtract_from_balance(self.token1, made[1])
    if key in self._positions:
        self._positions[key].liquidity += made[2]
    else:
        lo = self.tick_to_price(lower_tick)
        hi = self.tick_to_price(upper_tick)
        init = sqrt_price_x96_to_base_unit_price(p, self.pool_info.token0.decimal, self.pool_info.token1.decimal,
                                                 self.pool_info.is_token0_quote)
        if self.pool_info.is_token0_quote:
            self._positions[key] = Position(DECIMAL_0, DECIMAL_0, made[2], hi, lo, init)
        else:
            self._positions[key] = Position(DECIMAL_0, DECIMAL_0, made[2], lo, hi, init)
    return key, made[0], made[1], made[2]
'''


UNI_ALIASES = {"_is_token0_quote": "self._pool.is_token0_quote"}


def check_alias_anchor(model):
    """`self._is_token0_quote = pool_info.is_token0_quote` and `self._pool = pool_info` in UniLpMarket.__init__."""
    init = model.cls("UniLpMarket").methods["__init__"]
    txt = [ast.unparse(s) for s in init.node.body]
    return any(t.startswith("self._pool") and t.endswith("= pool_info") for t in txt) and \
        "self._is_token0_quote = pool_info.is_token0_quote" in txt


def sqrt_siblings(model, res):
    """All call sites of base_unit_price_to_sqrt_price_x96 in UniLpMarket pass the same canonical arguments."""
    if not check_alias_anchor(model):
        raise AnalysisError("C07: orientation alias anchor (_is_token0_quote = pool_info.is_token0_quote) not found")
    cls = model.cls("UniLpMarket")
    seen = []
    for name, f in cls.methods.items():
        if not any(isinstance(n, ast.Call) and isinstance(n.func, ast.Name) and n.func.id == "base_unit_price_to_sqrt_price_x96"
                   for n in ast.walk(f.node)):
            continue
        ev = Evaluator(model, opaque_funcs=["new_position", "close_position", "get_token_amounts", "tick_to_price",
                                            "sqrt_price_x96_to_base_unit_price", "sqrt_price_x96_to_tick", "get_sqrt_ratio_at_tick",
                                            "get_liquidity_for_amount0", "get_liquidity_for_amount1", "get_liquidity", "estimate_amount",
                                            "_convert_pair"])
        ev.attr_alias = dict(UNI_ALIASES)
        try:
            paths = ev.effect_paths(f, ["base_unit_price_to_sqrt_price_x96", "subtract_from_balance", "add_to_balance",
                                        "_record_action"], cls)
        except Unreadable as e:
            raise AnalysisError(f"C07: {f.qualname} unreadable for the sqrt-price sibling rule ({e})")
        argsets = set()
        for conds, env, ret in paths:
            for e in env.get("$fx", ()):
                if e[0] == "call" and e[1] == "base_unit_price_to_sqrt_price_x96":
                    argsets.add(e[3])
        for a in argsets:
            seen.append((f, a))
    if len(seen) < 4:
        raise AnalysisError(f"C07: only {len(seen)} sqrt-price derivations found in UniLpMarket (expected >= 4)")
    # the sites must agree with one another: the reference is the derivation most of them use (whichever function the
    # add path keeps its derivation in)
    from collections import Counter
    cnt = Counter(srepr_(a) for _f, a in seen)
    top = sorted(cnt.items(), key=lambda kv: (-kv[1], kv[0]))[0][0]
    ref = next(a for _f, a in seen if srepr_(a) == top)
    for f, a in seen:
        ok = a == ref
        res.ob("R-SIB", f"{f.qualname}: sqrt price derived from the same (price, decimals, orientation) as the add path", f.loc(), ok=ok)
        if not ok:
            res.find("R-SIB", f.qualname, "sqrt price derived from different arguments than the add path", f.loc(),
                     f"{f.qualname} derives the current sqrt price from {a!r}, the add path uses {ref!r}; operations at the "
                     f"same bar would use different prices")
    return len(seen)


def sign_rule(model, res):
    """R-SIGN / R-MONO on the canonical arms of get_amounts (rules/sign.py: exact sign of a rational form after
    rewriting the atoms the guards order as a chain of non-negative gaps; exact partial derivative): in every arm both
    amounts are >= 0; token0 is non-increasing and token1 non-decreasing in the price; both are proportional to the
    liquidity; the arms agree at the range boundaries (so the monotonicity holds across arms).  A clause the argument
    cannot settle is reported as not decided, never as a violation; a clause it settles the WRONG way is a finding."""
    from ..norm import Rat
    from ..rules.sign import Facts, derivative, nonneg, nonpos, sign_of, subst
    from ..vn import Evaluator, Raise, Unreadable, simplify_under
    f = model.func("uniswap.liquitidy_math.get_amounts")
    try:
        paths = Evaluator(model, opaque_funcs=["get_sqrt_ratio_at_tick"])._function_paths_ctx(f, {}, None, 0, None)
    except Unreadable as e:
        raise AnalysisError(f"C07: get_amounts is outside the evaluator's language ({e})")
    pname, lname = f.params[0], f.params[3]
    P, L = ("sym", pname), ("sym", lname)
    arms = []
    n = 0
    undecided = []
    for conds, val in paths:
        if isinstance(val, Raise) or not hasattr(val, "items") or len(val.items) != 2:
            continue
        amts = [simplify_under(a, conds) for a in val.items]
        arms.append((conds, amts))
        for i, amt in enumerate(amts):
            want_mono = nonpos if i == 0 else nonneg
            checks = []
            fa = Facts(); fa.add_guards(conds)
            checks.append((f"amount{i} >= 0", sign_of(amt, fa, [L]), nonneg))
            fa = Facts(); fa.add_guards(conds)
            checks.append((f"amount{i} is {'non-increasing' if i == 0 else 'non-decreasing'} in the price",
                           sign_of(derivative(amt, P), fa, [L]), want_mono))
            for what, sg, good in checks:
                if sg is None:
                    undecided.append(what)
                    continue
                n += 1
                ok = good(sg)
                res.ob("R-SIGN", f"get_amounts arm {sorted(map(repr, conds))[0][:60]}...: {what} (sign {sg})", f.loc(), ok=ok)
                if not ok:
                    res.find("R-SIGN", f.qualname, f"{what} fails", f.loc(),
                             f"get_amounts: in the arm guarded by {sorted(map(repr, conds))[:2]} the clause `{what}` is violated: the "
                             f"exact sign of the canonical form under the arm's guards is `{sg}`")
            if not amt.n.is_zero():
                n += 1
                lin = L not in (amt / Rat.atom(L)).atoms()
                res.ob("R-SIGN", f"get_amounts: amount{i} is proportional to the liquidity", f.loc(), ok=lin)
                if not lin:
                    res.find("R-SIGN", f.qualname, f"amount{i} not proportional to liquidity", f.loc(),
                             f"get_amounts: amount{i} / liquidity still depends on the liquidity")
    # continuity across the arms: at P = lower bound (min atom) and P = upper bound (max atom) neighbouring arms agree
    bounds = set()
    for conds, amts in arms:
        for a in amts:
            for at in a.atoms():
                if isinstance(at, tuple) and at and at[0] in ("min", "max"):
                    bounds.add(at)
    for b in sorted(bounds, key=repr):
        vals = []
        for conds, amts in arms:
            # an arm is adjacent to the boundary when, with the price AT the boundary, none of its guards is violated in
            # general (strict guards may be tight there: closure of the arm)
            adjacent = True
            for c in conds:
                if getattr(c, "op", None) not in ("<", "<=") or not isinstance(c.x, Rat):
                    continue
                x = subst(c.x, {P: Rat.atom(b)})
                if x.n.is_zero():
                    continue
                sg = sign_of(x, Facts(), [])
                if sg in ("+", ">=0") or sg is None:
                    adjacent = False
            if adjacent:
                vals.append(tuple(subst(a, {P: Rat.atom(b)}) for a in amts))
        if len(vals) >= 2:
            n += 1
            same = all(all(x == y for x, y in zip(vals[0], v)) for v in vals[1:])
            res.ob("R-SIGN", f"get_amounts: the arms agree at the boundary {b[0]}(sqrt ratios) ({len(vals)} arms)", f.loc(), ok=same)
            if not same:
                res.find("R-SIGN", f.qualname, f"arms disagree at the {b[0]} boundary", f.loc(),
                         f"get_amounts: substituting price = {b[0]} bound into the adjacent arms gives different amounts: the amounts "
                         f"jump at the range boundary (monotonicity / one-sidedness across the boundary is lost)")
    if undecided:
        res.notes.append("sign argument could not settle: " + "; ".join(sorted(set(undecided))))
    return n


def overspend_rule(model, res):
    """No over-spend, derived (not sampled): for every arm of get_liquidity the amounts that get_amounts attributes to
    the minted liquidity never exceed the offered amounts.  Derivation by monotone rewriting (rules/sign.py): the used
    amount is non-decreasing in the liquidity (exact sign of d used / d L under the arm's guards); an upper bound U >= L
    is obtained by opening the roundings in which L is non-decreasing (floor(e) -> e, int(e) -> e for e >= 0,
    min of rounded candidates -> each candidate); substituting U into the used amount gives exactly the offered amount
    (identity of rational forms) or something provably <= it.  The two functions' arms are matched by their guards."""
    from ..norm import Rat
    from ..rules.sign import Facts, derivative, nonneg, nonpos, sign_of, subst, upper_bounds
    from ..vn import Evaluator, Raise, Unreadable, simplify_under
    fl = model.func("uniswap.liquitidy_math.get_liquidity")
    fa_ = model.func("uniswap.liquitidy_math.get_amounts")
    try:
        pl = Evaluator(model, opaque_funcs=["get_sqrt_ratio_at_tick"])._function_paths_ctx(fl, {}, None, 0, None)
        pa = Evaluator(model, opaque_funcs=["get_sqrt_ratio_at_tick"])._function_paths_ctx(fa_, {}, None, 0, None)
    except Unreadable as e:
        raise AnalysisError(f"C07: get_liquidity / get_amounts outside the evaluator's language ({e})")
    L = ("sym", fa_.params[3])
    offered = [("sym", fl.params[3]), ("sym", fl.params[4])]
    n = 0
    undecided = []
    for conds, val in pl:
        if isinstance(val, Raise) or not isinstance(val, Rat):
            continue
        lv = simplify_under(val, conds)
        match = [v for c, v in pa if frozenset(c) == frozenset(conds) and not isinstance(v, Raise) and hasattr(v, "items")]
        if not match:
            undecided.append("arm of get_liquidity without a get_amounts arm under the same guards")
            continue
        amts = [simplify_under(a, conds) for a in match[0].items]

        def facts_of():
            f = Facts()
            f.add_guards(conds)
            return f

        ubs = upper_bounds(lv, facts_of, offered)
        for i, (amt, off) in enumerate(zip(amts, offered)):
            arm = sorted(map(repr, conds))[0][:50]
            mono = sign_of(derivative(amt, L), facts_of(), [])
            verdict = None
            if nonneg(mono) and ubs:
                for u in ubs:
                    diff = subst(amt, {L: u}) - Rat.atom(off)
                    if diff.n.is_zero():
                        verdict = "== offered"
                        break
                    sg = sign_of(diff, facts_of(), [off])
                    if nonpos(sg):
                        verdict = "<= offered"
                        break
                    if sg in ("+",):
                        verdict = verdict or "EXCEEDS"
            if verdict is None:
                undecided.append(f"used amount{i} vs offered in arm {arm}")
                continue
            n += 1
            ok = verdict != "EXCEEDS"
            res.ob("R-SIGN", f"get_liquidity arm {arm}...: used amount{i} at the real-valued bound of the minted liquidity {verdict}",
                   fl.loc(), ok=ok)
            if not ok:
                res.find("R-SIGN", fl.qualname, f"minted liquidity can require more than the offered amount{i}", fl.loc(),
                         f"get_liquidity: in the arm guarded by {sorted(map(repr, conds))[:2]} the amount{i} that get_amounts attributes "
                         f"to the minted liquidity, evaluated at the upper bound obtained by dropping the roundings, exceeds the offered "
                         f"amount{i} (exact sign of the difference is positive): over-spend")
    if undecided:
        res.notes.append("over-spend derivation could not settle: " + "; ".join(sorted(set(undecided))))
    return n



def uni_ledgers(res, model):
    """Ledgers of the two Uniswap primitives that move value between wallet and position (also a premise of C03)."""
    fx = ["subtract_from_balance", "add_to_balance", "_record_action"]
    oq = ["base_unit_price_to_sqrt_price_x96", "close_position", "new_position", "tick_to_price",
          "sqrt_price_x96_to_base_unit_price", "tick_to_sqrt_price_x96"]
    effects_check(res, model, "UniLpMarket.__remove_liquidity", REF_REMOVE,
                  "remove: default price from the status price; delta clamped to the held liquidity; amounts moved to pending", fx, opaque=oq)
    effects_check(res, model, "UniLpMarket._add_liquidity_by_tick", REF_ADD,
                  "add: default price from the status price; wallet debited by the USED amounts; position keyed by the ticks and "
                  "updated IN PLACE when it exists (its other fields, e.g. the lent flag, stay)", fx, opaque=oq)


def run(model, tier="quick"):
    res = Result("C07", EXPLANATION)
    res.rules = ["R-FORMULA", "R-SIB", "R-SIGN", "R-PAIR"]
    opq = ["get_sqrt_ratio_at_tick", "get_liquidity_for_amount0", "get_liquidity_for_amount1", "get_amount0", "get_amount1",
           "to_wei", "get_liquidity", "get_amounts", "get_token_amounts"]
    for q, src, what in REFS:
        nm = q.split(".")[-1]
        formula_check(res, model, q, src, what, opaque=[x for x in opq if x != nm] if nm in ("get_liquidity", "get_amounts", "new_position", "get_token_amounts", "close_position") else [])
    res.floor("price_to_sqrt_call_sites", sqrt_siblings(model, res), 4)
    uni_ledgers(res, model)
    # the market-level add path: explicit amounts (also an explicit ZERO) are what is offered; None alone means the balance
    from . import uni_refs as _U
    from .C09 import FX as _FX, OPQ as _OPQ
    effects_check(res, model, "UniLpMarket.add_liquidity", _U.REF_ADD_PUBLIC,
                  "add by price: offered amounts as given (None -> whole balance), usable ticks, used amounts reported", _FX + ["_add_liquidity_by_tick"],
                  opaque=_OPQ + ["quote_price_pair_to_tick", "tick_to_price"], aliases=UNI_ALIASES)
    effects_check(res, model, "UniLpMarket.add_liquidity_by_tick", _U.REF_ADD_BY_TICK_PUBLIC,
                  "add by tick: offered amounts as given, explicit price / tick honoured", _FX + ["_add_liquidity_by_tick"],
                  opaque=_OPQ + ["tick_to_sqrt_price_x96", "tick_to_price"], aliases=UNI_ALIASES)
    # constructors establish the relations between fields that the references above take for granted
    from .ctor_refs import constructors
    res.units["constructor_references"] = constructors(res, model, ('pool',))
    # premise: a price given as a tick becomes a sqrt price through TickMath itself (the boundary tick of a range must give
    # exactly the boundary sqrt price, otherwise a position ON its bound is treated as inside)
    from . import C06 as _C06
    for q_, src_, what_ in _C06.REFS:
        if q_.endswith("tick_to_sqrt_price_x96"):
            formula_check(res, model, q_, src_, what_, opaque=["get_sqrt_ratio_at_tick"])
    from ..rules.fresh import fresh_rule
    if "R-FRESH" not in res.rules:
        res.rules.append("R-FRESH")
    fresh_rule(model, res, scope=('demeter/uniswap/',))
    res.assumptions = ["get_sqrt_ratio_at_tick is TickMath (C06)"]
    res.floor("sign_and_monotonicity_clauses", sign_rule(model, res), 14)
    res.floor("no_overspend_clauses", overspend_rule(model, res), 6)
    res.not_decided = ["maximality bound of the minted liquidity as an inequality over the domain (integer floors)",
                       "1e-30 relative agreement (Decimal precision)"]
    return res


MANIFEST = {
    "technique": "formula identity against LiquidityAmounts references (value numbering), sibling agreement of sqrt-price derivations, ledger identity of add/remove, sign / monotone-rewriting derivations on the canonical rational forms (no solver), shared-state rule (R-FRESH)",
    "claim": "The amount/liquidity formulas, their three-way split with MIN in range and zeros off side, floors and "
             "truncation, new/close position and the add/remove ledgers are identical as canonical expressions to "
             "references written from the Uniswap v3 formulas; every sqrt-price derivation in the market uses the same "
             "arguments. From the canonical forms of the code itself (not of the reference) the check derives, by exact sign "
             "arguments under the path guards: amounts are non-negative, token0 is non-increasing and token1 non-decreasing in "
             "price, both are continuous at the range bounds, and the amounts consumed by add-liquidity are bounded above by "
             "the amounts offered (upper bounds through floor / int / min). One-sidedness, proportionality and the same-price "
             "round trip follow from the identities for every input.",
    "note": "Trusted: references in sa/props/C07.py; TickMath itself is C06. Not decided: maximality of the liquidity, "
            "Decimal precision.",
}
