"""C12 -- Aave liquidation: only below HF 1, close factor, exact bonus, wallet untouched."""
from __future__ import annotations

import ast
from decimal import Decimal

from ..interp import Domain, Interp, const_value
from ..model import AnalysisError
from ..report import Result
from ..rules.formula import effects_check
from . import aave_refs as R

EXPLANATION = (
    "The liquidation step is compared, as a ledger on every path, with a reference written from Aave v3's "
    "LiquidationLogic and the statement: close factor 50% iff HF > 0.95 else 100%; repaid = min(requested, debt*cf); "
    "seized collateral = p_debt*repaid/p_coll*(1+bonus of the collateral); if that exceeds the collateral balance, all of it "
    "is seized and repaid = p_coll*balance/(p_debt*(1+bonus)); the collateral is scaled with the collateral's OWN "
    "liquidity index, the debt with the debt token's borrow index; caches reset; the action record carries the same "
    "quantities. R-SHAPE on the loop: it runs while 0 < HF < 1 with HF read unrounded from the market before the loop and "
    "after every step; the debt chosen is recorded as visited before the attempt and visited debts are excluded; the step "
    "receives the loop's own selections. R-NONE: the selected keys cannot be None when the step is called. R-EFFECT: "
    "nothing reachable from the liquidation touches the wallet. R-CONST: 0.5 / 1 / 0.95 / 1."
)

FX = ["subtract_from_balance", "add_to_balance", "_record_action", "reset", "set", "__sub_borrow_amount", "__sub_supply_amount"]
OPQ = ["sub_base_amount", "get_supply", "get_borrow", "health_factor", "supplies", "borrows", "collateral_value",
       "supplies_value", "borrows_value"]


def const_rule(model, res):
    cls = model.cls("AaveV3CoreLib")
    n = 0
    for k, w in (("HEALTH_FACTOR_LIQUIDATION_THRESHOLD", Decimal("1")), ("DEFAULT_LIQUIDATION_CLOSE_FACTOR", Decimal("0.5")),
                 ("MAX_LIQUIDATION_CLOSE_FACTOR", Decimal("1")), ("CLOSE_FACTOR_HF_THRESHOLD", Decimal("0.95"))):
        cc = model.class_const(cls, k)
        if cc is None:
            raise AnalysisError(f"C12: constant {k} not found")
        ok = const_value(cc[1]) == w
        n += 1
        res.ob("R-CONST", f"AaveV3CoreLib.{k} == {w}", cls.module.relpath + f":{cc[1].lineno}", ok=ok)
        if not ok:
            res.find("R-CONST", "AaveV3CoreLib", f"{k} != {w}", cls.module.relpath + f":{cc[1].lineno}",
                     f"{k} is {ast.unparse(cc[1])}, the protocol value is {w}")
    return n


def loop_shape(model, res):
    f = model.func("AaveV3Market._liquidate")
    loops = [s for s in f.node.body if isinstance(s, ast.While)]
    if len(loops) != 1:
        raise AnalysisError("C12: _liquidate: expected one while loop")
    w = loops[0]
    t = w.test
    # while 0 < hf < THRESHOLD
    cond_ok = False
    hv = None
    if isinstance(t, ast.Compare) and len(t.ops) == 2 and all(isinstance(o, ast.Lt) for o in t.ops) \
            and isinstance(t.left, ast.Constant) and t.left.value == 0 and isinstance(t.comparators[0], ast.Name):
        hv = t.comparators[0].id
        up = ast.unparse(t.comparators[1])
        cond_ok = up in ("AaveV3CoreLib.HEALTH_FACTOR_LIQUIDATION_THRESHOLD", "1", "Decimal(1)", "Decimal('1')")
    res.ob("R-SHAPE", "liquidation loop runs while 0 < HF < 1", f.loc(w), ok=cond_ok, detail=ast.unparse(t))
    if not cond_ok:
        res.find("R-SHAPE", f.qualname, f"liquidation loop condition `{ast.unparse(t)}`", f.loc(w),
                 f"the loop condition is `{ast.unparse(t)}`; a position must be liquidated iff 0 < health factor < 1")
        return
    # hv is assigned only from the unrounded property, before the loop and as the last statement of the body
    defs = [n for n in ast.walk(f.node) if isinstance(n, ast.Assign) and isinstance(n.targets[0], ast.Name) and n.targets[0].id == hv]
    raw = all(ast.unparse(d.value) == "self.health_factor" for d in defs)
    before = any(d in f.node.body and d.lineno < w.lineno for d in defs)
    last = w.body and isinstance(w.body[-1], ast.Assign) and w.body[-1] in defs
    ok = raw and before and bool(last) and len(defs) == 2
    res.ob("R-SHAPE", f"`{hv}` is the market's unrounded health factor, refreshed after every step", f.loc(w), ok=ok,
           detail="; ".join(ast.unparse(d) for d in defs))
    if not ok:
        res.find("R-SHAPE", f.qualname, f"loop variable `{hv}` is not the plain health factor", f.loc(w),
                 f"`{hv}` must be `self.health_factor` (unmodified) before the loop and at the end of every iteration; found: "
                 + "; ".join(ast.unparse(d) for d in defs))
    # visited list: append(selected debt) before the attempt; selection excludes visited
    visited = None
    for n in ast.walk(f.node):
        if isinstance(n, (ast.Assign, ast.AnnAssign)) and isinstance(getattr(n, "value", None), ast.List) and not n.value.elts:
            tg = n.targets[0] if isinstance(n, ast.Assign) else n.target
            if isinstance(tg, ast.Name) and (n in f.node.body):
                visited = tg.id
    calls = [n for n in ast.walk(w) if isinstance(n, ast.Call) and ast.unparse(n.func) == "self._do_liquidate"]
    if visited is None or len(calls) != 1:
        raise AnalysisError("C12: visited list / step call not recognised in _liquidate")
    call = calls[0]
    debt_key = ast.unparse(call.args[1]) if len(call.args) > 1 else "?"
    app = [n for n in ast.walk(w) if isinstance(n, ast.Call) and ast.unparse(n.func) == f"{visited}.append"
           and ast.unparse(n.args[0]) == debt_key]
    inside_loop_reset = any(isinstance(n, (ast.Assign, ast.AnnAssign)) and
                            ast.unparse(n.targets[0] if isinstance(n, ast.Assign) else n.target) == visited for n in ast.walk(w))
    excl = any(isinstance(n, ast.Compare) and isinstance(n.ops[0], ast.NotIn) and ast.unparse(n.comparators[0]) == visited
               for n in ast.walk(w))
    once_ok = bool(app) and app[0].lineno < call.lineno and not inside_loop_reset and excl
    res.ob("R-SHAPE", "each debt is attempted at most once (recorded before the attempt, excluded afterwards)", f.loc(call), ok=once_ok)
    if not once_ok:
        res.find("R-SHAPE", f.qualname, "once-per-debt bookkeeping broken", f.loc(call),
                 f"the selected debt `{debt_key}` must be appended to `{visited}` before the step, `{visited}` must not be "
                 f"re-initialised inside the loop, and the selection must skip visited debts")
    # R-NONE: keys initialised to None inside the loop must be tested before the call
    none_vars = set()
    for n in ast.walk(w):
        if isinstance(n, ast.Assign) and isinstance(n.targets[0], ast.Name) and isinstance(n.value, ast.Constant) and n.value.value is None:
            none_vars.add(n.targets[0].id)
    used = {ast.unparse(a) for a in call.args} & none_vars
    guarded = set()
    for n in ast.walk(w):
        if isinstance(n, ast.If) and n.lineno < call.lineno:
            txt = ast.unparse(n.test)
            exits = any(isinstance(b, (ast.Break, ast.Return, ast.Continue)) for b in n.body)
            for v in used:
                if f"{v} is None" in txt and exits:
                    guarded.add(v)
    none_ok = used <= guarded
    res.ob("R-NONE", f"selections {sorted(used)} are checked for None before the step", f.loc(call), ok=none_ok)
    if not none_ok:
        res.find("R-NONE", f.qualname, f"None selection passed to the step: {sorted(used - guarded)}", f.loc(call),
                 f"{sorted(used - guarded)} start as None and are assigned only when a candidate exists (no unvisited debt / no "
                 f"collateral left); _do_liquidate dereferences them unconditionally (`.name`), so the process does not end "
                 f"with 'every debt visited once' but raises")


class _WalletReach(Domain):
    def __init__(self):
        self.hits = []

    def on_call(self, st, callee, node, fr, recv, args):
        if callee is not None and callee.cls is not None and callee.cls.name in ("Broker", "Asset"):
            self.hits.append((callee.qualname, fr.loc(node), fr.func.qualname))
            return [st]
        return None


def effect_rule(model, res):
    f = model.func("AaveV3Market._liquidate")
    dom = _WalletReach()
    it = Interp(model, dom)
    it.run(f, f.cls)
    ok = not dom.hits
    res.ob("R-EFFECT", f"no wallet primitive is reachable from _liquidate ({len(it.inlined)} functions inlined)", f.loc(), ok=ok)
    for q, loc, caller in dom.hits[:3]:
        res.find("R-EFFECT", caller, f"liquidation reaches wallet primitive {q}", loc,
                 f"{caller} calls {q} on a path reachable from the bar-end liquidation; liquidation must never touch the wallet")
    return len(it.inlined)


def run(model, tier="quick"):
    res = Result("C12", EXPLANATION)
    res.rules = ["R-PAIR", "R-FORMULA", "R-SHAPE", "R-NONE", "R-EFFECT", "R-CONST", "R-TOKEN"]
    res.floor("close_factor_constants", const_rule(model, res), 4)
    effects_check(res, model, "AaveV3Market._do_liquidate", R.REF_DO_LIQUIDATE,
                  "liquidation step: close factor, min(requested, debt*cf), seize = repaid value*(1+bonus) at the collateral's own "
                  "index, capped by the balance with the repayment scaled down, debt reduced, action record",
                  FX, opaque=OPQ, keep_raise_effects=False)
    loop_shape(model, res)
    res.floor("functions_reachable_from_liquidation", effect_rule(model, res), 5)
    res.assumptions = ["pair selection (largest collateral, smallest debt) is left open by the statement and is not checked"]
    res.not_decided = ["whether the chosen (collateral, debt) pair is the protocol's choice",
                       "that HF >= 1 after the loop for every portfolio (value dependent)"]
    return res


MANIFEST = {
    "technique": "ledger identity of the liquidation step against a reference from LiquidationLogic, loop-shape / None-flow / wallet-reachability rules",
    "claim": "The liquidation step equals, path by path, a reference ledger (close factor selection, repayment cap, bonus "
             "and its capped inverse, indices and prices keyed by the right token, record fields); the loop condition is "
             "0 < HF < 1 on the unrounded HF refreshed each step; each debt is attempted once; selections cannot be None at "
             "the call; no wallet primitive is reachable from liquidation.",
    "note": "Trusted: reference ledger in sa/props/aave_refs.py; shape recognisers of _liquidate (a changed shape is an "
            "analysis error). Not decided: pair selection policy; post-loop HF for concrete portfolios.",
}
