"""C12 -- Aave liquidation: only below HF 1, close factor, exact bonus, wallet untouched."""
from __future__ import annotations

import ast
from decimal import Decimal

from ..interp import Domain, Interp, const_value
from ..model import AnalysisError
from ..report import Result
from ..rules.formula import effects_check
from . import aave_refs as R

EXPLANATION = (
    "The liquidation step is compared, as a ledger on every path, with a reference written from Aave v3's "
    "LiquidationLogic and the statement: close factor 50% iff HF > 0.95 else 100%; repaid = min(requested, debt*cf); "
    "seized collateral = p_debt*repaid/p_coll*(1+bonus of the collateral); if that exceeds the collateral balance, all of it "
    "is seized and repaid = p_coll*balance/(p_debt*(1+bonus)); the collateral is scaled with the collateral's OWN "
    "liquidity index, the debt with the debt token's borrow index; caches reset; the action record carries the same "
    "quantities. R-SHAPE on the loop: it runs while 0 < HF < 1 with HF read unrounded from the market before the loop and "
    "after every step; the debt chosen is recorded as visited before the attempt and visited debts are excluded; the step "
    "receives the loop's own selections. R-NONE: the selected keys cannot be None when the step is called. R-EFFECT: "
    "nothing reachable from the liquidation touches the wallet. R-CONST: 0.5 / 1 / 0.95 / 1."
)

FX = ["subtract_from_balance", "add_to_balance", "_record_action", "reset", "set"]   # the two deduction helpers are inlined (their own resets are then visible)
OPQ = ["sub_base_amount", "get_supply", "get_borrow", "health_factor", "supplies", "borrows", "collateral_value",
       "supplies_value", "borrows_value"]


def const_rule(model, res):
    cls = model.cls("AaveV3CoreLib")
    n = 0
    for k, w in (("HEALTH_FACTOR_LIQUIDATION_THRESHOLD", Decimal("1")), ("DEFAULT_LIQUIDATION_CLOSE_FACTOR", Decimal("0.5")),
                 ("MAX_LIQUIDATION_CLOSE_FACTOR", Decimal("1")), ("CLOSE_FACTOR_HF_THRESHOLD", Decimal("0.95"))):
        cc = model.class_const(cls, k)
        if cc is None:
            raise AnalysisError(f"C12: constant {k} not found")
        ok = const_value(cc[1]) == w
        n += 1
        res.ob("R-CONST", f"AaveV3CoreLib.{k} == {w}", cls.module.relpath + f":{cc[1].lineno}", ok=ok)
        if not ok:
            res.find("R-CONST", "AaveV3CoreLib", f"{k} != {w}", cls.module.relpath + f":{cc[1].lineno}",
                     f"{k} is {ast.unparse(cc[1])}, the protocol value is {w}")
    return n


def loop_shape(model, res):
    """The bar-end procedure equals the reference procedure (aave_refs.REF_LIQUIDATE) as a canonical loop: loop test
    0 < HF < 1 on the unrounded health factor, read before the loop and after every step; smallest unvisited debt and
    largest collateral; stop when no pair exists (so no None reaches the step); the debt is marked visited before the
    attempt on EVERY iteration; a rejected step (AssertionError) is survived; the step gets the loop's own selections.
    Decided by value numbering of the loop's one-iteration transfer relation - no text matching."""
    effects_check(res, model, "AaveV3Market._liquidate", R.REF_LIQUIDATE,
                  "liquidation loop: while 0 < HF < 1; pair selection; stop without a pair; each debt visited once "
                  "(marked before the attempt, unconditionally); rejected step survived; HF refreshed after each step",
                  ["_do_liquidate"], opaque=["health_factor", "borrows", "supplies", "_do_liquidate"], rule="R-SHAPE")


class _WalletReach(Domain):
    def __init__(self):
        self.hits = []

    def on_call(self, st, callee, node, fr, recv, args):
        if callee is not None and callee.cls is not None and callee.cls.name in ("Broker", "Asset"):
            self.hits.append((callee.qualname, fr.loc(node), fr.func.qualname))
            return [st]
        return None


def effect_rule(model, res):
    f = model.func("AaveV3Market._liquidate")
    dom = _WalletReach()
    it = Interp(model, dom)
    it.run(f, f.cls)
    ok = not dom.hits
    res.ob("R-EFFECT", f"no wallet primitive is reachable from _liquidate ({len(it.inlined)} functions inlined)", f.loc(), ok=ok)
    for q, loc, caller in dom.hits[:3]:
        res.find("R-EFFECT", caller, f"liquidation reaches wallet primitive {q}", loc,
                 f"{caller} calls {q} on a path reachable from the bar-end liquidation; liquidation must never touch the wallet")
    return len(it.inlined)


def run(model, tier="quick"):
    res = Result("C12", EXPLANATION)
    res.rules = ["R-PAIR", "R-FORMULA", "R-SHAPE", "R-NONE", "R-EFFECT", "R-CONST", "R-TOKEN"]
    res.floor("close_factor_constants", const_rule(model, res), 4)
    effects_check(res, model, "AaveV3Market._do_liquidate", R.REF_DO_LIQUIDATE,
                  "liquidation step: close factor, min(requested, debt*cf), seize = repaid value*(1+bonus) at the collateral's own "
                  "index, capped by the balance with the repayment scaled down, debt reduced, action record",
                  FX, opaque=OPQ, keep_raise_effects=False)
    loop_shape(model, res)
    res.floor("functions_reachable_from_liquidation", effect_rule(model, res), 5)
    # every Aave figure is read through the memo caches: their typestate (no stale read, no stale exit) is a premise here
    from ..rules.cache import run_cache
    if "R-CACHE" not in res.rules:
        res.rules.append("R-CACHE")
    res.units["aave_cache_writer_methods"] = run_cache(model, res, "AaveV3Market", res.prop)[0]
    from . import aave_refs as _R
    from ..rules.formula import formula_check as _fc
    _fc(res, model, "AaveV3CoreLib.health_factor", _R.REF_HF, "HF = sum(collateral_i * LT_i) / sum(debt): each collateral with ITS OWN threshold")
    # constructors establish the relations between fields that the references above take for granted
    from .ctor_refs import constructors
    res.units["constructor_references"] = constructors(res, model, ('aave',))
    from ..rules.fresh import fresh_rule
    if "R-FRESH" not in res.rules:
        res.rules.append("R-FRESH")
    fresh_rule(model, res, scope=('demeter/aave/',))
    res.assumptions = ["pair selection (largest collateral, smallest debt) is left open by the statement and is not checked"]
    res.not_decided = ["whether the chosen (collateral, debt) pair is the protocol's choice",
                       "that HF >= 1 after the loop for every portfolio (value dependent)"]
    return res


MANIFEST = {
    "technique": "ledger identity of the liquidation step and canonical-loop identity of the bar-end procedure against references (value numbering), wallet-reachability rule, constant table",
    "claim": "The liquidation step equals, path by path, a reference ledger (close factor selection, repayment cap, bonus "
             "and its capped inverse, indices and prices keyed by the right token, every field of the action record incl. "
             "its amounts); the bar-end loop equals the reference procedure as a canonical one-iteration transfer relation "
             "(test 0 < HF < 1 on the unrounded HF read before the loop and after each step, smallest unvisited debt / "
             "largest collateral, stop without a pair so that no None reaches the step, debt marked visited before the "
             "attempt on every iteration, rejected step survived); no wallet primitive is reachable from liquidation.",
    "note": "Trusted: reference ledger and reference loop in sa/props/aave_refs.py (the pair-selection policy is the code's; "
            "the statement leaves it open). Not decided: post-loop HF for concrete portfolios.",
}
