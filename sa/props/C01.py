"""C01 -- reported net value equals an independent valuation of wallet plus positions."""
from __future__ import annotations

from ..report import Result
from ..rules.formula import effects_check, formula_check
from . import uni_refs as U
from . import C15, C17
from .C07 import UNI_ALIASES

EXPLANATION = (
    "The valuation chain is compared, as canonical expressions / ledgers on every path, with references written from the "
    "statement. Broker.get_account_status: every market's balance object is stored under its key and its net value is "
    "added once, converted with the price of THAT market's quote token unless it equals the account's; every wallet "
    "balance is valued at the price of ITS token; net value = wallet value + market values. Market valuations: Uniswap "
    "(liquidity at the bar price + uncollected fees, positions lent out are skipped entirely), Aave (supplies - debts, "
    "quantised to 1e-4), Squeeth (effective collateral incl. the lent LP position at index price - short at mark), "
    "Deribit (cash + options at mark; current cash also on closed bars), GMX v1 (shares*price + rewards) and v2 "
    "(shares * pool value / supply). Exactly-once accounting of a lent LP position: the vault's LP id is set iff the "
    "position is transferred out of the Uniswap valuation, cleared iff it is transferred back or redeemed (ledger "
    "identity of the four sites). Because these are identities of expressions, every holding field of every market "
    "reaches the net value on every path (R-COVER is implied)."
)

REF_ACCOUNT = '''
def get_account_status(self, prices, timestamp=None):
    st = AccountStatus(timestamp=timestamp)
    total = Decimal(0)
    for key, mkt in self.markets.items():
        bal = mkt.get_market_balance()
        st.market_status[key] = bal
        if mkt.quote_token == self.quote_token:
            total += bal.net_value
        else:
            total += prices[mkt.quote_token.name] * bal.net_value
    st.market_status.set_default_key(self.markets.get_default_key())
    for tok, asset in self.assets.items():
        st.asset_balances[tok] = asset.balance
    wallet = sum([amount * prices[tok.name] for tok, amount in st.asset_balances.items()])
    st.asset_value = wallet
    st.net_value = wallet + total
    return st
'''

REF_AAVE_BALANCE = '''
def get_market_balance(self):
    q = Decimal("0.0001")
    sup = self.total_supply_value.quantize(q)
    debt = self.total_borrows_value.quantize(q)
    s_apy = self.supply_apy.quantize(q)
    b_apy = self.borrow_apy.quantize(q)
    return AaveBalance(
        net_value=sup - debt, supplies_count=len(self._supplies), borrows_count=len(self._borrows),
        liquidation_threshold=AaveV3CoreLib.safe_rounding(self.liquidation_threshold, q),
        health_factor=AaveV3CoreLib.safe_rounding(self.health_factor, q), borrows_value=debt, supplies_value=sup,
        collaterals_value=self.total_collateral_value.quantize(q), max_ltv=AaveV3CoreLib.safe_rounding(self.max_ltv, q),
        ltv=self.ltv, supply_apy=s_apy, borrow_apy=b_apy,
        net_apy=AaveV3CoreLib.safe_div_zero(s_apy * sup - b_apy * debt, sup - debt))
'''

REF_AAVE_TOTALS = [
    ("total_supply_value", "def total_supply_value(self):\n    return Decimal(sum(self.supplies_value.values()))\n", "total supply value = sum of all supplies"),
    ("total_borrows_value", "def total_borrows_value(self):\n    return Decimal(sum(self.borrows_value.values()))\n", "total debt value = sum of all debts"),
    ("total_collateral_value", "def total_collateral_value(self):\n    return Decimal(sum(self.collateral_value.values()))\n", "total collateral value"),
]

REF_SQUEETH_BALANCE = '''
def get_market_balance(self):
    row = self._market_status.data
    eth = row[WETH.name]
    sqth = row[oSQTH.name] * row[WETH.name]
    held = self.osqth_balance
    short = Decimal(sum([v.osqth_short_amount for v in self.vault.values()]))
    twap = self.get_twap_price(WETH)
    coll = Decimal(sum(self._get_effective_collateral_in_eth(VaultKey(v.id)) for v in self.vault.values()))
    short_eth = short * self.get_norm_factor() * twap / 10000
    return SqueethBalance(
        net_value=coll * eth - short * sqth, collateral_amount=coll, osqth_long_amount=held, osqth_short_amount=short,
        osqth_net_amount=held - short, vault_count=len(self.vault), delta=Decimal(2) * eth, gamma=Decimal(2),
        collateral_value=coll * eth, osqth_short_in_eth=short_eth,
        collateral_ratio=coll / short_eth if short_eth != DECIMAL_0 else 0)
'''

REF_TRANSFER_OUT = '''
def transfer_position_out(self, position_info):
    if position_info in self.positions and not self.positions[position_info].transferred:
        self.positions[position_info].transferred = True
    else:
        raise DemeterError("cannot lend")
'''

REF_TRANSFER_IN = '''
def transfer_position_in(self, position_info):
    if position_info in self.positions and self.positions[position_info].transferred:
        self.positions[position_info].transferred = False
    else:
        raise DemeterError("cannot take back")
'''

REF_DEPOSIT_LP = '''
def _deposit_uni_position(self, vault_key, uni_position):
    if uni_position not in self.squeeth_uni_pool.positions:
        raise DemeterError("unknown position")
    if self.squeeth_uni_pool.positions[uni_position].liquidity <= 0:
        raise DemeterError("empty position")
    if self.vault[vault_key].uni_nft_id is not None:
        raise DemeterError("vault already holds a position")
    self.squeeth_uni_pool.transfer_position_out(uni_position)
    self.vault[vault_key].uni_nft_id = uni_position
    self._record_action(DepositLpAction(market=self.market_info, vault_id=vault_key.id, position=uni_position))
'''

REF_WITHDRAW_LP = '''
def withdraw_uni_position(self, vault_key, uni_position):
    if vault_key not in self.vault:
        raise DemeterError("unknown vault")
    if self.vault[vault_key].uni_nft_id != uni_position:
        raise DemeterError("not deposited here")
    self.squeeth_uni_pool.transfer_position_in(uni_position)
    self.vault[vault_key].uni_nft_id = None
    self._check_vault(vault_key, self.get_norm_factor())
    self._record_action(WithdrawLpAction(market=self.market_info, vault_id=vault_key.id, position=uni_position))
'''

REF_REDEEM = '''
def _redeem_uni_token(self, position_info):
    self.squeeth_uni_pool.remove_liquidity(position_info, collect=False)
    got = self.squeeth_uni_pool.collect_fee(position_info, collect_to_user=False)     # (base, quote) of the pool
    # the result is (weth, osqth) whatever the pool's quote token is
    if self.squeeth_uni_pool.quote_token == WETH:
        return got[1], got[0]
    return got[0], got[1]
'''

FX = ["transfer_position_out", "transfer_position_in", "_record_action", "_check_vault", "remove_liquidity", "collect_fee",
      "get_market_balance", "set_default_key"]


def deribit_memo_rule(model, res):
    """R-CACHE instance for the option market's valuation memo.  get_market_balance returns a memo field that holds the
    last open-bar option valuation; on closed bars (no order book) the premium part of the memo is the only record of
    what the options are worth.  Typestate: once filled on an open bar the memo may be rewritten only (a) by
    get_market_balance itself, (b) by a store whose value is derived from the previous memo (a refresh), or (c) in code
    that can only run on open bars (operations gated by write_func, the settlement under update's open-bar guard), where
    the next valuation recomputes it anyway.  Any other store - e.g. a reset in a cash primitive reachable from the
    ungated deposit/withdraw, or in set_market_status - loses the option valuation on closed bars."""
    import ast as _ast
    cls = model.cls("DeribitOptionMarket")
    gmb = cls.methods.get("get_market_balance")
    if gmb is None:
        from ..model import AnalysisError
        raise AnalysisError("C01: DeribitOptionMarket.get_market_balance not found")

    def self_attr(n):
        return n.attr if isinstance(n, _ast.Attribute) and isinstance(n.value, _ast.Name) and n.value.id == "self" else None

    def stores(fn):
        out = []
        for n in _ast.walk(fn.node):
            tg = []
            if isinstance(n, _ast.Assign):
                tg = [(t, n.value) for t in n.targets]
            elif isinstance(n, (_ast.AugAssign, _ast.AnnAssign)):
                tg = [(n.target, n.value)]
            elif isinstance(n, _ast.Delete):
                tg = [(t, None) for t in n.targets]
            for t, v in tg:
                for e in (t.elts if isinstance(t, (_ast.Tuple, _ast.List)) else [t]):
                    a = self_attr(e)
                    if a:
                        out.append((a, n, v))
            if isinstance(n, _ast.Call) and isinstance(n.func, _ast.Name) and n.func.id == "setattr" and len(n.args) >= 2 \
                    and isinstance(n.args[0], _ast.Name) and n.args[0].id == "self" and isinstance(n.args[1], _ast.Constant):
                out.append((n.args[1].value, n, n.args[2] if len(n.args) > 2 else None))
        return out

    returned = {self_attr(n.value) for n in _ast.walk(gmb.node) if isinstance(n, _ast.Return) and n.value is not None} - {None}
    memo = {a for a, _, _ in stores(gmb)} & returned
    if not memo:
        res.notes.append("DeribitOptionMarket.get_market_balance keeps no memo (nothing to check for the closed-bar valuation)")
        return 0
    # intra-class call graph (self.m(...) calls), over the class and its bases in the repository
    meths = {}
    for k in reversed(model.mro(cls)):
        meths.update(k.methods)
    calls = {nm: {self_attr(c.func) for c in _ast.walk(f.node) if isinstance(c, _ast.Call)} - {None} for nm, f in meths.items()}
    n = 0
    for nm, f in sorted(meths.items()):
        if nm in ("__init__", "get_market_balance"):
            continue
        for fld, node, val in stores(f):
            if fld not in memo:
                continue
            if val is not None and any(self_attr(x) == fld for x in _ast.walk(val)):
                continue        # refresh derived from the previous memo
            # entry points (public operations and the per-bar hooks) from which this store is reachable
            reach = {nm}
            changed = True
            while changed:
                changed = False
                for c, callees in calls.items():
                    if c not in reach and callees & reach:
                        reach.add(c)
                        changed = True
            entries = sorted(e for e in reach if not e.startswith("_") or e in ("__init__",))
            entries = [e for e in entries if e != "__init__"]
            open_only = [e for e in entries if "write_func" in meths[e].decorators or e in ("update", "check_option_exercise")]
            bad = [e for e in entries if e not in open_only]
            n += 1
            ok = not bad
            res.ob("R-CACHE", f"store to the valuation memo `{fld}` in {nm} runs on open bars only (entries: {entries})", f.loc(node), ok=ok,
                   detail="" if ok else f"reachable from {bad} on closed bars")
            if not ok:
                res.find("R-CACHE", f"DeribitOptionMarket.{nm}", f"self.{fld} = {_ast.unparse(val) if val is not None else 'del'}", f.loc(node),
                         f"`{_ast.unparse(node)[:80]}` in {nm} overwrites the valuation memo and is reachable from {bad}, which can run on "
                         f"closed bars (not gated by write_func): get_market_balance then has no option valuation left and reports cash "
                         f"only although options are held")
    return n



def valuation_refs(res, model):
    """The account's net value and every market's valuation equal the reference formulas (also a premise of C03: an
    operation cannot create value only if the valuation counts every holding exactly once)."""
    effects_check(res, model, "Broker.get_account_status", REF_ACCOUNT,
                  "account: every market once, converted by ITS quote token's price; every asset at ITS token's price; sum",
                  FX, opaque=[], ordered=False)
    M = "UniLpMarket."
    opq = ["base_unit_price_to_sqrt_price_x96", "get_amounts"]      # get_token_amounts inlined: its zero-liquidity shortcut is visible
    formula_check(res, model, M + "get_market_balance", U.REF_UNI_BALANCE,
                  "Uniswap: liquidity at the bar price + uncollected fees; lent positions skipped entirely", opaque=opq, aliases=UNI_ALIASES)
    aopq = ["total_supply_value", "total_borrows_value", "total_collateral_value", "supply_apy", "borrow_apy", "liquidation_threshold",
            "health_factor", "max_ltv", "ltv", "safe_rounding", "safe_div_zero", "supplies_value", "borrows_value", "collateral_value"]
    formula_check(res, model, "AaveV3Market.get_market_balance", REF_AAVE_BALANCE, "Aave: supplies - debts (quantised to 1e-4)", opaque=aopq)
    for nm, src, what in REF_AAVE_TOTALS:
        formula_check(res, model, "AaveV3Market." + nm, src, what, opaque=aopq)
    formula_check(res, model, "SqueethMarket.get_market_balance", REF_SQUEETH_BALANCE,
                  "Squeeth: effective collateral (incl. the lent LP) at the ETH price - short at the oSQTH mark",
                  opaque=["get_twap_price", "get_norm_factor", "_get_effective_collateral_in_eth", "osqth_balance"])
    effects_check(res, model, "DeribitOptionMarket.get_market_balance", C15.REF_BALANCE,
                  "Deribit: cash + options at mark; current cash also on closed bars", [], opaque=["round_decimal", "_is_open"])
    formula_check(res, model, "GmxMarket.get_market_balance", C17.REF_V1_BALANCE, "GMX v1: shares*price + rewards*price")
    formula_check(res, model, "GmxV2Market.get_market_balance", C17.REF_V2_BALANCE, "GMX v2: shares * pool value / supply",
                  opaque=["getTokenAmountsFromGM"])


def run(model, tier="quick"):
    res = Result("C01", EXPLANATION)
    res.rules = ["R-FORMULA", "R-TOKEN", "R-COVER", "R-PAIR-XFER", "R-CACHE"]
    valuation_refs(res, model)
    M = "UniLpMarket."
    # exactly-once accounting of a lent LP position
    effects_check(res, model, M + "transfer_position_out", REF_TRANSFER_OUT, "lend: only an existing, not yet lent position", FX, keep_raise_effects=True)
    effects_check(res, model, M + "transfer_position_in", REF_TRANSFER_IN, "take back: only a lent position", FX, keep_raise_effects=True)
    effects_check(res, model, "SqueethMarket._deposit_uni_position", REF_DEPOSIT_LP,
                  "vault LP id is set iff the position left the Uniswap valuation", FX, ordered=True)
    effects_check(res, model, "SqueethMarket.withdraw_uni_position", REF_WITHDRAW_LP,
                  "vault LP id is cleared iff the position returned to the Uniswap valuation", FX)
    effects_check(res, model, "SqueethMarket._redeem_uni_token", REF_REDEEM, "redeemed LP: liquidity removed and amounts collected into the vault, not the wallet", FX)
    # the lent flag changes ONLY in the two transfers above: adding to / removing from a range updates the position in place
    # (a rebuilt Position would fall back to `transferred=False` and a lent position would be valued twice; seed C01-m16)
    from .C07 import uni_ledgers
    uni_ledgers(res, model)
    from .C14 import REF_COLL, REF_REDUCE_IN_VAULT, WALLET, OPQ
    formula_check(res, model, "SqueethMarket._get_effective_collateral_in_eth", REF_COLL,
                  "the lent LP position is valued inside the vault (ETH + oSQTH at index price, pending fees once)",
                  opaque=["get_twap_price", "get_norm_factor", "get_position_amount"])
    effects_check(res, model, "SqueethMarket._get_reduce_debt_result_in_vault", REF_REDUCE_IN_VAULT,
                  "redeeming the LP clears the vault's LP id together with absorbing its amounts", WALLET, opaque=OPQ)
    res.units["deribit_memo_stores_outside_valuation"] = deribit_memo_rule(model, res)
    from .base_refs import base_helpers
    res.units["keyed_containers"] = base_helpers(res, model, ("dicts",))   # markets / assets are iterated through these
    # a stale memo makes the reported value differ from the bar's valuation: Aave's caches are covered by the typestate rule
    from ..rules.cache import run_cache
    n_writers, caches = run_cache(model, res, "AaveV3Market", "C01")
    res.floor("aave_cache_writer_methods", n_writers, 6)
    res.floor("obligations", len(res.obligations), 17)
    from .C02 import binning_rule
    res.units["resampling_sites"] = binning_rule(model, res)     # wallet prices and position rows of a bar come from the same minute
    # constructors establish the relations between fields that the references above take for granted
    from .ctor_refs import constructors
    res.units["constructor_references"] = constructors(res, model, ('market', 'broker', 'pool', 'squeeth', 'deribit', 'gmx2', 'aave'))
    # premises owned by neighbouring checks whose violation breaks exactly-once valuation: what a position is worth
    # (amounts + pending counted once) is decided by these two functions for the Uniswap market AND for the vault that holds it
    from . import uni_refs as _U, C09 as _C09
    formula_check(res, model, "UniLpMarket.get_position_amount", _U.REF_POSITION_AMOUNT,
                  "position amounts at the bar price (liquidity only: pending fees are added by the callers, once)", opaque=_C09.OPQ, aliases=_C09.UNI_ALIASES)
    formula_check(res, model, "UniLpMarket.get_position_status", _U.REF_POSITION_STATUS,
                  "position status: liquidity + pending amounts valued by orientation", opaque=_C09.OPQ + ["get_position_amount", "_get_value"],
                  aliases=_C09.UNI_ALIASES)
    # the price feeds name their columns by the right token (the valuation multiplies balances by the column of THEIR token)
    from .price_refs import price_feeds
    res.units["price_feed_references"] = price_feeds(res, model)
    from .price_refs import price_table
    price_table(res, model)
    from ..rules.fresh import fresh_rule
    if "R-FRESH" not in res.rules:
        res.rules.append("R-FRESH")
    fresh_rule(model, res, scope=('demeter/aave/', 'demeter/uniswap/', 'demeter/squeeth/', 'demeter/deribit/', 'demeter/gmx/', 'demeter/core/'))
    res.assumptions = ["valuation inputs (prices, marks, pool value) come from the bar's data (not validated)"]
    res.not_decided = ["that the valuation INPUTS are right", "Aave's 1e-4 quantisation as a number"]
    return res


MANIFEST = {
    "technique": "formula and ledger identity of the valuation chain (account, six markets, lent-LP transfer pairing) against references (value numbering), memo typestate rules (Aave caches, Deribit valuation memo)",
    "claim": "The account status and each market's net value equal, as canonical expressions on every path, the statement's "
             "sums (with the conversion price keyed by the market being converted and each asset priced by its own token), "
             "and the four sites that lend / return / redeem an LP position keep 'vault holds it' and 'Uniswap skips it' in "
             "lockstep, so every holding is counted exactly once.",
    "note": "Trusted: references in sa/props/C01.py (and the shared C14/C15/C17/uni_refs references). Not decided: "
            "correctness of the input data.",
}
